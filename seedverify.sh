#!/bin/sh
# usage: ./seedverify.sh <id> <patch> <demo-file> <demo-dst-rel-path> <go-test-run-regex> <pkg>
# Confirms a seeded change in a scratch worktree: builds, existing tests pass, demo fails with / passes without.
ID="$1"; PATCH="$2"; DEMO="$3"; DST="$4"; RUN="$5"; PKG="$6"
export GOFLAGS=-mod=mod GOPROXY=off GOSUMDB=off GOTOOLCHAIN=local
W=/tmp/seedv/$ID
rm -rf "$W"; git -C /repo worktree prune; git -C /repo worktree add -q "$W" HEAD || exit 2
cd "$W" || exit 2
git apply "$PATCH" || { echo "PATCH-DOES-NOT-APPLY"; exit 2; }
go build ./... && echo "BUILD ok" || { echo "BUILD failed"; exit 2; }
go test -vet=off -count=1 -timeout 20m ./... > /tmp/seedv/$ID.suite.log 2>&1
FAILS=$(grep -E "^--- FAIL" /tmp/seedv/$ID.suite.log | awk '{print $3}' | sort -u)
if [ -n "$FAILS" ]; then
  echo "suite failures (re-running each alone 3x): $FAILS"
  for t in $FAILS; do
    ok=0; for i in 1 2 3; do go test -vet=off -count=1 -timeout 60s -run "^$t\$" ./tests/ >/dev/null 2>&1 && ok=$((ok+1)); done
    echo "  $t passes $ok/3 alone"
  done
else
  grep -E "^(FAIL|ok)" /tmp/seedv/$ID.suite.log | grep -c "^ok" | xargs echo "SUITE ok packages:"
  grep -E "^FAIL" /tmp/seedv/$ID.suite.log | head -3
fi
cp "$DEMO" "$DST"
go test -vet=off -count=1 -timeout 300s -run "$RUN" "$PKG" > /tmp/seedv/$ID.with.log 2>&1 && echo "DEMO with change: PASS (unexpected)" || echo "DEMO with change: FAIL (expected)"
git apply -R "$PATCH"
go test -vet=off -count=1 -timeout 300s -run "$RUN" "$PKG" > /tmp/seedv/$ID.without.log 2>&1 && echo "DEMO without change: PASS (expected)" || echo "DEMO without change: FAIL (unexpected)"
cd /; git -C /repo worktree remove --force "$W"
