#!/bin/sh
# usage: ./seedverify.sh <id> <patch> <demo-file> <demo-dst-rel-path> <go-test-run-regex> <pkg>
# Confirms a seeded change in a scratch worktree: builds, existing tests pass, demo fails with / passes without.
ID="$1"; PATCH="$2"; DEMO="$3"; DST="$4"; RUN="$5"; PKG="$6"
export GOFLAGS=-mod=mod GOPROXY=off GOSUMDB=off GOTOOLCHAIN=local
W=/tmp/seedv/$ID
rm -rf "$W"; git -C /repo worktree prune; git -C /repo worktree add -q "$W" HEAD || exit 2
cd "$W" || exit 2
git apply "$PATCH" || { echo "PATCH-DOES-NOT-APPLY"; exit 2; }
go build ./... && echo "BUILD ok" || { echo "BUILD failed"; exit 2; }
go test -vet=off -count=1 -timeout 6m ./... > /tmp/seedv/$ID.suite.log 2>&1
# the suite has a test that hangs now and then even on the unchanged tree (TestRemoteDeletionPool): on a time-out
# the tests package is run again
n=0
while grep -q "panic: test timed out" /tmp/seedv/$ID.suite.log && [ $n -lt 3 ]; do
  n=$((n+1)); echo "tests package timed out (known flaky hang), re-running ($n)"
  grep -v "gluon/tests" /tmp/seedv/$ID.suite.log | grep -E "^(ok|FAIL)" > /tmp/seedv/$ID.suite.other
  go test -vet=off -count=1 -timeout 6m ./tests/ > /tmp/seedv/$ID.suite.tests 2>&1
  cat /tmp/seedv/$ID.suite.other /tmp/seedv/$ID.suite.tests > /tmp/seedv/$ID.suite.log
done
FAILS=$(grep -E "^--- FAIL" /tmp/seedv/$ID.suite.log | awk '{print $3}' | sort -u)
if [ -n "$FAILS" ]; then
  echo "suite failures (re-running each alone 3x): $FAILS"
  for t in $FAILS; do
    ok=0; for i in 1 2 3; do go test -vet=off -count=1 -timeout 60s -run "^$t\$" ./tests/ >/dev/null 2>&1 && ok=$((ok+1)); done
    echo "  $t passes $ok/3 alone"
  done
else
  grep -E "^(FAIL|ok)" /tmp/seedv/$ID.suite.log | grep -c "^ok" | xargs echo "SUITE ok packages:"
  grep -E "^FAIL" /tmp/seedv/$ID.suite.log | head -3
fi
cp "$DEMO" "$DST"
go test -vet=off -count=1 -timeout 300s -run "$RUN" "$PKG" > /tmp/seedv/$ID.with.log 2>&1 && echo "DEMO with change: PASS (unexpected)" || echo "DEMO with change: FAIL (expected)"
git apply -R "$PATCH"
go test -vet=off -count=1 -timeout 300s -run "$RUN" "$PKG" > /tmp/seedv/$ID.without.log 2>&1 && echo "DEMO without change: PASS (expected)" || echo "DEMO without change: FAIL (unexpected)"
cd /; git -C /repo worktree remove --force "$W"
