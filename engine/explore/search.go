package explore

import (
	"encoding/json"
	"fmt"
	"math/rand"
	"os"
	"sort"
	"strings"
	"time"
)

// Family is one alphabet family explored exhaustively to a depth.
type Family struct {
	Name     string
	Scenario string
	Params   any
	Depth    int
}

type Options struct {
	Prop     string // property a worker crash is attributed to
	Deadline time.Time
	Seed     int64
	Verbose  bool
}

type LevelStat struct {
	Depth       int `json:"depth"`
	Frontier    int `json:"frontier"`
	Transitions int `json:"transitions"`
	NewStates   int `json:"new_states"`
}

type Stats struct {
	Family      string      `json:"family"`
	Alphabet    []string    `json:"alphabet,omitempty"`
	DepthBound  int         `json:"depth_bound"`
	DepthDone   int         `json:"depth_done"`
	States      int         `json:"states"`
	Transitions int         `json:"transitions"`
	Traces      int         `json:"traces"`
	Exhaustive  bool        `json:"exhaustive"`
	Levels      []LevelStat `json:"levels"`
	Crashes     int         `json:"crashes"`
	Violations  []Violation `json:"-"`
	Samples     [][]Event   `json:"-"`
	EngineErr   string      `json:"engine_error,omitempty"`
	WallS       float64     `json:"wall_s"`
}

type node struct {
	path []Event
	hash string
}

// Search explores one family breadth-first.
func Search(pool *Pool, fam Family, opt Options) Stats {
	start := time.Now()
	st := Stats{Family: fam.Name, DepthBound: fam.Depth, Exhaustive: true}
	params, err := json.Marshal(fam.Params)
	if err != nil {
		st.EngineErr = err.Error()
		return st
	}
	rng := rand.New(rand.NewSource(opt.Seed))
	// Root.
	rootMsgs := pool.Submit(Job{Mode: "path", Scenario: fam.Scenario, Params: params})()
	if len(rootMsgs) == 0 || rootMsgs[len(rootMsgs)-1].Type != "pathres" {
		st.EngineErr = fmt.Sprintf("root failed: %+v", rootMsgs)
		st.Exhaustive = false
		return st
	}
	root := rootMsgs[len(rootMsgs)-1]
	st.Traces++
	for _, v := range root.Viol {
		v.Path = nil
		st.Violations = append(st.Violations, v)
	}
	seen := map[string]bool{root.RootHash: true}
	st.States = 1
	frontier := []node{{hash: root.RootHash}}
	if len(root.Viol) > 0 {
		frontier = nil
	}
	jobID := 0
	for depth := 1; depth <= fam.Depth && len(frontier) > 0; depth++ {
		if !opt.Deadline.IsZero() && time.Now().After(opt.Deadline) {
			st.Exhaustive = false
			break
		}
		rng.Shuffle(len(frontier), func(i, j int) { frontier[i], frontier[j] = frontier[j], frontier[i] })
		lv := LevelStat{Depth: depth, Frontier: len(frontier)}
		tasks := make([]*task, len(frontier))
		for i, n := range frontier {
			jobID++
			tasks[i] = &task{job: Job{ID: jobID, Mode: "expand", Scenario: fam.Scenario, Params: params, Prefix: n.path, Expect: n.hash}, done: make(chan struct{})}
		}
		go func(tasks []*task) {
			for _, t := range tasks {
				pool.tasks <- t
			}
		}(tasks)
		var next []node
		aborted := false
		for i, n := range frontier {
			<-tasks[i].done
			msgs := tasks[i].msgs
			if aborted {
				continue
			}
			for _, m := range msgs {
				switch m.Type {
				case "succ":
					lv.Transitions++
					st.Traces++
					s := m.Succ
					path := append(append([]Event{}, n.path...), s.Ev)
					if len(st.Samples) < 6 && (lv.Transitions%37 == 1) {
						st.Samples = append(st.Samples, path)
					}
					if len(s.Viol) > 0 {
						for _, v := range s.Viol {
							v.Path = path
							st.Violations = append(st.Violations, v)
						}
						continue // a violating state is not expanded
					}
					if !seen[s.Hash] {
						seen[s.Hash] = true
						lv.NewStates++
						next = append(next, node{path: path, hash: s.Hash})
					}
				case "crash":
					st.Crashes++
					lv.Transitions++
					path := append(append([]Event{}, n.path...), Event{K: "?successor", N: m.Idx})
					st.Violations = append(st.Violations, Violation{Prop: opt.Prop, Clause: "CRASH", Sig: crashSig(m.Err), Msg: "server process died: " + tailLines(m.Err, 12), Path: path})
				case "error":
					st.EngineErr = m.Err
					st.Exhaustive = false
					aborted = true
				case "done":
				}
			}
		}
		st.Levels = append(st.Levels, lv)
		st.Transitions += lv.Transitions
		st.States += lv.NewStates
		if aborted {
			break
		}
		st.DepthDone = depth
		if opt.Verbose {
			fmt.Fprintf(os.Stderr, "  [%s] depth %d: frontier %d transitions %d new %d (%.1fs)\n", fam.Name, depth, lv.Frontier, lv.Transitions, lv.NewStates, time.Since(start).Seconds())
		}
		sort.Slice(next, func(i, j int) bool { return next[i].hash < next[j].hash })
		frontier = next
	}
	if st.DepthDone < fam.Depth && st.EngineErr == "" && len(frontier) > 0 {
		st.Exhaustive = false
	}
	st.WallS = time.Since(start).Seconds()
	return st
}

func tailLines(s string, n int) string {
	lines := strings.Split(strings.TrimSpace(s), "\n")
	// keep the head (panic message) rather than the tail of the goroutine dump
	if len(lines) > n {
		lines = lines[:n]
	}
	return strings.Join(lines, " | ")
}

// RunPath executes one complete path in a worker and returns its violations (for confirmation / minimisation).
func RunPath(pool *Pool, fam Family, path []Event, crashProp string) ([]Violation, error) {
	params, _ := json.Marshal(fam.Params)
	msgs := pool.Submit(Job{Mode: "path", Scenario: fam.Scenario, Params: params, Prefix: path})()
	for _, m := range msgs {
		switch m.Type {
		case "pathres":
			return m.Viol, nil
		case "crash":
			return []Violation{{Prop: crashProp, Clause: "CRASH", Sig: crashSig(m.Err), Msg: "server process died: " + tailLines(m.Err, 12)}}, nil
		case "error":
			return nil, fmt.Errorf("%s", m.Err)
		}
	}
	return nil, fmt.Errorf("no result")
}
