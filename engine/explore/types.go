// Package explore is the E1 engine: explicit-state breadth-first search over event histories of a live system.
// A state is represented by the shortest event list that reaches it; successors are computed by replaying that
// list on a fresh instance in a worker process and executing one more event.
package explore

import (
	"crypto/sha256"
	"encoding/hex"
	"encoding/json"
	"fmt"

	"verif/engine/vconn"
)

// Event is one transition label. All fields are plain data so that a path can be stored and replayed.
type Event struct {
	K    string      `json:"k"`
	S    int         `json:"s,omitempty"`
	A    string      `json:"a,omitempty"`
	B    string      `json:"b,omitempty"`
	N    int         `json:"n,omitempty"`
	Spec *vconn.Spec `json:"spec,omitempty"`
}

func (e Event) String() string {
	b, _ := json.Marshal(e)
	return string(b)
}

// Violation of a property found on one execution.
type Violation struct {
	Prop   string  `json:"prop"`
	Clause string  `json:"clause"`
	Sig    string  `json:"sig"` // witness class (used to match known findings)
	Msg    string  `json:"msg"`
	Path   []Event `json:"path,omitempty"`
}

// Run is one live instance of a scenario.
type Run interface {
	// Enabled lists the events enabled in the current state, in a fixed (simplest-first) order.
	Enabled() []Event
	// Step executes one event to completion and evaluates the per-step oracles.
	Step(ev Event) []Violation
	// Canon renders the canonical state (what is hashed for deduplication).
	Canon() string
	// Extensions runs the destructive check-extensions; the run must be closed afterwards.
	Extensions() []Violation
	Close()
}

// Scenario creates runs. Params are scenario-specific JSON.
type Scenario func(params json.RawMessage) (Run, error)

var registry = map[string]Scenario{}

func Register(name string, s Scenario) { registry[name] = s }

func Hash(s string) string {
	h := sha256.Sum256([]byte(s))
	return hex.EncodeToString(h[:12])
}

// Job is sent to a worker: expand the state reached by Prefix.
type Job struct {
	ID       int             `json:"id"`
	Mode     string          `json:"mode"` // "expand" | "path"
	Scenario string          `json:"scenario"`
	Params   json.RawMessage `json:"params"`
	Prefix   []Event         `json:"prefix"`
	Expect   string          `json:"expect,omitempty"` // hash of the prefix state ("" = unchecked)
	From     int             `json:"from,omitempty"`   // first successor index to execute (after a crash)
	NoExt    bool            `json:"noext,omitempty"`
}

// Succ is one explored transition.
type Succ struct {
	Idx   int         `json:"i"`
	Ev    Event       `json:"ev"`
	Hash  string      `json:"h"`
	Canon string      `json:"c,omitempty"`
	Viol  []Violation `json:"v,omitempty"`
}

// Msg is a line from worker to coordinator.
type Msg struct {
	ID       int             `json:"id"`
	Type     string          `json:"t"` // "begin" (about to run successor Idx) | "succ" | "done" | "error" | "pathres"
	Idx      int             `json:"i,omitempty"`
	Succ     *Succ           `json:"succ,omitempty"`
	NEnabled int             `json:"n,omitempty"`
	Err      string          `json:"err,omitempty"`
	RootHash string          `json:"rh,omitempty"`
	Viol     []Violation     `json:"v,omitempty"`
	Canon    string          `json:"c,omitempty"`
	Result   json.RawMessage `json:"res,omitempty"`
}

// NewRun instantiates a registered scenario in-process.
func NewRun(name string, params json.RawMessage) (Run, error) {
	sc, ok := registry[name]
	if !ok {
		return nil, fmt.Errorf("unknown scenario %q", name)
	}
	return sc(params)
}

// CallFn is a registered batch function executed inside a worker process.
type CallFn func(params json.RawMessage) (any, error)

var calls = map[string]CallFn{}

func RegisterCall(name string, fn CallFn) { calls[name] = fn }

// Call runs a registered batch function in-process.
func Call(name string, raw json.RawMessage) (any, error) {
	fn, ok := calls[name]
	if !ok {
		return nil, fmt.Errorf("unknown call %q", name)
	}
	return fn(raw)
}
