package explore

import "fmt"

func hasSig(vs []Violation, prop, clause, sig string) (Violation, bool) {
	for _, v := range vs {
		if v.Prop == prop && v.Clause == clause && v.Sig == sig {
			return v, true
		}
	}
	return Violation{}, false
}

// Confirm re-executes the violation's path n times; all runs must reproduce the same signature.
func Confirm(pool *Pool, fam Family, v Violation, n int, crashProp string) (bool, string) {
	for i := 0; i < n; i++ {
		vs, err := RunPath(pool, fam, v.Path, crashProp)
		if err != nil {
			return false, "engine error while confirming: " + err.Error()
		}
		if _, ok := hasSig(vs, v.Prop, v.Clause, v.Sig); !ok {
			return false, fmt.Sprintf("run %d/%d did not reproduce %s/%s (got %d other violation(s))", i+1, n, v.Clause, v.Sig, len(vs))
		}
	}
	return true, ""
}

// Minimise drops events while the violation (same signature) still occurs.
func Minimise(pool *Pool, fam Family, v Violation, crashProp string) Violation {
	path := append([]Event{}, v.Path...)
	for changed := true; changed; {
		changed = false
		for i := 0; i < len(path); i++ {
			cand := append(append([]Event{}, path[:i]...), path[i+1:]...)
			vs, err := RunPath(pool, fam, cand, crashProp)
			if err != nil {
				continue
			}
			if nv, ok := hasSig(vs, v.Prop, v.Clause, v.Sig); ok {
				path = cand
				v.Msg = nv.Msg
				changed = true
				i--
			}
		}
	}
	v.Path = path
	return v
}
