package explore

import (
	"bufio"
	"encoding/json"
	"fmt"
	"io"
	"os"
)

// WorkerMain serves jobs from stdin until EOF.
func WorkerMain() {
	in := bufio.NewReaderSize(os.Stdin, 1<<20)
	out := bufio.NewWriterSize(os.Stdout, 1<<20)
	enc := json.NewEncoder(out)
	send := func(m Msg) {
		if err := enc.Encode(m); err != nil {
			os.Exit(3)
		}
		out.Flush()
	}
	for {
		line, err := in.ReadBytes('\n')
		if len(line) > 0 {
			var job Job
			if jerr := json.Unmarshal(line, &job); jerr != nil {
				send(Msg{Type: "error", Err: "bad job: " + jerr.Error()})
			} else {
				serve(job, send)
			}
		}
		if err == io.EOF {
			return
		}
		if err != nil {
			os.Exit(4)
		}
	}
}

func replay(job Job) (Run, []Violation, error) {
	sc, ok := registry[job.Scenario]
	if !ok {
		return nil, nil, fmt.Errorf("unknown scenario %q", job.Scenario)
	}
	run, err := sc(job.Params)
	if err != nil {
		return nil, nil, fmt.Errorf("scenario init: %w", err)
	}
	var viol []Violation
	for _, ev := range job.Prefix {
		viol = append(viol, run.Step(ev)...)
	}
	return run, viol, nil
}

func serve(job Job, send func(Msg)) {
	switch job.Mode {
	case "call":
		fn, ok := calls[job.Scenario]
		if !ok {
			send(Msg{ID: job.ID, Type: "error", Err: "unknown call " + job.Scenario})
			return
		}
		res, err := fn(job.Params)
		if err != nil {
			send(Msg{ID: job.ID, Type: "error", Err: err.Error()})
			return
		}
		raw, err := json.Marshal(res)
		if err != nil {
			send(Msg{ID: job.ID, Type: "error", Err: err.Error()})
			return
		}
		send(Msg{ID: job.ID, Type: "callres", Result: raw})
	case "path":
		// Execute the whole path; report all violations (per-step and extensions at the end).
		run, viol, err := replay(job)
		if err != nil {
			send(Msg{ID: job.ID, Type: "error", Err: err.Error()})
			return
		}
		canon := run.Canon()
		if !job.NoExt {
			viol = append(viol, run.Extensions()...)
		}
		run.Close()
		send(Msg{ID: job.ID, Type: "pathres", Viol: viol, Canon: canon, RootHash: Hash(canon)})
	case "expand":
		run, _, err := replay(job)
		if err != nil {
			send(Msg{ID: job.ID, Type: "error", Err: err.Error()})
			return
		}
		h := Hash(run.Canon())
		if job.Expect != "" && h != job.Expect {
			defer run.Close()
			pj, _ := json.Marshal(job.Prefix)
			send(Msg{ID: job.ID, Type: "error", Err: fmt.Sprintf("ENGINE-NONDETERMINISM: prefix hash %s, expected %s, prefix %s, canon now:\n%s", h, job.Expect, pj, run.Canon())})
			return
		}
		evs := run.Enabled()
		for i, ev := range evs {
			if i < job.From {
				continue
			}
			send(Msg{ID: job.ID, Type: "begin", Idx: i})
			if run == nil {
				run, _, err = replay(job)
				if err != nil {
					send(Msg{ID: job.ID, Type: "error", Err: err.Error()})
					return
				}
			}
			viol := run.Step(ev)
			canon := run.Canon()
			if !job.NoExt && len(viol) == 0 {
				viol = append(viol, run.Extensions()...)
			}
			run.Close()
			run = nil
			s := &Succ{Idx: i, Ev: ev, Hash: Hash(canon), Viol: viol}
			if len(viol) > 0 || job.ID%97 == 0 {
				s.Canon = canon
			}
			send(Msg{ID: job.ID, Type: "succ", Succ: s})
		}
		if run != nil {
			run.Close()
		}
		send(Msg{ID: job.ID, Type: "done", NEnabled: len(evs), RootHash: h})
	default:
		send(Msg{ID: job.ID, Type: "error", Err: "unknown mode " + job.Mode})
	}
}
