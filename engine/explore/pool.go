package explore

import (
	"bufio"
	"bytes"
	"encoding/json"
	"fmt"
	"io"
	"os"
	"os/exec"
	"strings"
	"sync"
	"time"
)

// ringBuf keeps the tail of a worker's stderr.
type ringBuf struct {
	mu  sync.Mutex
	buf []byte
}

func (r *ringBuf) Write(p []byte) (int, error) {
	r.mu.Lock()
	defer r.mu.Unlock()
	r.buf = append(r.buf, p...)
	if len(r.buf) > 64*1024 {
		r.buf = r.buf[len(r.buf)-32*1024:]
	}
	return len(p), nil
}

func (r *ringBuf) Tail() string {
	r.mu.Lock()
	defer r.mu.Unlock()
	return string(r.buf)
}

func (r *ringBuf) Reset() {
	r.mu.Lock()
	defer r.mu.Unlock()
	r.buf = nil
}

type proc struct {
	cmd    *exec.Cmd
	stdin  io.WriteCloser
	stdout *bufio.Reader
	stderr *ringBuf
}

// Pool runs jobs on worker child processes.
type Pool struct {
	N       int
	Exe     string
	Args    []string
	tasks   chan *task
	wg      sync.WaitGroup
	Crashes int
	mu      sync.Mutex
}

type task struct {
	job  Job
	msgs []Msg // collected messages
	done chan struct{}
}

func NewPool(n int) *Pool {
	exe, err := os.Executable()
	if err != nil {
		panic(err)
	}
	p := &Pool{N: n, Exe: exe, Args: []string{"worker"}, tasks: make(chan *task, 4*n)}
	for i := 0; i < n; i++ {
		p.wg.Add(1)
		go p.loop()
	}
	return p
}

func (p *Pool) Close() {
	close(p.tasks)
	p.wg.Wait()
}

func (p *Pool) spawn() (*proc, error) {
	cmd := exec.Command(p.Exe, p.Args...)
	cmd.Env = append(os.Environ(), "GOMAXPROCS=2", "VERIF_WORKER=1")
	stdin, err := cmd.StdinPipe()
	if err != nil {
		return nil, err
	}
	stdout, err := cmd.StdoutPipe()
	if err != nil {
		return nil, err
	}
	rb := &ringBuf{}
	cmd.Stderr = rb
	if err := cmd.Start(); err != nil {
		return nil, err
	}
	return &proc{cmd: cmd, stdin: stdin, stdout: bufio.NewReaderSize(stdout, 1<<20), stderr: rb}, nil
}

func (pr *proc) kill() {
	_ = pr.stdin.Close()
	_ = pr.cmd.Process.Kill()
	_ = pr.cmd.Wait()
}

func crashSig(stderr string) string {
	for _, l := range strings.Split(stderr, "\n") {
		l = strings.TrimSpace(l)
		if strings.HasPrefix(l, "panic:") || strings.HasPrefix(l, "fatal error:") {
			if len(l) > 120 {
				l = l[:120]
			}
			return l
		}
	}
	return "worker died"
}

func (p *Pool) loop() {
	defer p.wg.Done()
	var pr *proc
	defer func() {
		if pr != nil {
			pr.kill()
		}
	}()
	for t := range p.tasks {
		job := t.job
		for attempt := 0; ; attempt++ {
			if pr == nil {
				var err error
				pr, err = p.spawn()
				if err != nil {
					t.msgs = append(t.msgs, Msg{ID: job.ID, Type: "error", Err: "spawn: " + err.Error()})
					break
				}
			}
			line, _ := json.Marshal(job)
			line = append(line, '\n')
			if _, err := pr.stdin.Write(line); err != nil {
				pr.kill()
				pr = nil
				if attempt > 3 {
					t.msgs = append(t.msgs, Msg{ID: job.ID, Type: "error", Err: "write: " + err.Error()})
					break
				}
				continue
			}
			lastBegin := -1
			finished := false
			died := false
			for !finished {
				raw, err := pr.stdout.ReadBytes('\n')
				if err != nil {
					died = true
					break
				}
				var m Msg
				if jerr := json.Unmarshal(bytes.TrimSpace(raw), &m); jerr != nil {
					t.msgs = append(t.msgs, Msg{ID: job.ID, Type: "error", Err: "bad worker line: " + string(raw)})
					died = true
					break
				}
				switch m.Type {
				case "begin":
					lastBegin = m.Idx
				case "succ":
					t.msgs = append(t.msgs, m)
				default:
					t.msgs = append(t.msgs, m)
					finished = true
				}
			}
			if !died {
				break
			}
			// The worker process died: record a crash for the successor it was executing and continue after it.
			time.Sleep(10 * time.Millisecond)
			tail := pr.stderr.Tail()
			pr.kill()
			pr = nil
			p.mu.Lock()
			p.Crashes++
			p.mu.Unlock()
			if len(tail) > 4000 {
				tail = tail[:4000]
			}
			t.msgs = append(t.msgs, Msg{ID: job.ID, Type: "crash", Idx: lastBegin, Err: tail})
			if job.Mode != "expand" || lastBegin < 0 {
				break
			}
			job.From = lastBegin + 1
			job.Expect = "" // already validated
		}
		close(t.done)
	}
}

// Submit queues a job; the returned function waits for and returns its messages.
func (p *Pool) Submit(job Job) func() []Msg {
	t := &task{job: job, done: make(chan struct{})}
	p.tasks <- t
	return func() []Msg {
		<-t.done
		return t.msgs
	}
}

func (p *Pool) String() string { return fmt.Sprintf("pool(%d workers)", p.N) }

// CallResult of a batch call executed in a worker.
type CallResult struct {
	Result  json.RawMessage
	Crashed bool
	Stderr  string
	Err     string
}

// CallAsync runs a registered batch function in a worker; the returned function waits for the result.
func (p *Pool) CallAsync(name string, params any) func() CallResult {
	raw, err := json.Marshal(params)
	if err != nil {
		return func() CallResult { return CallResult{Err: err.Error()} }
	}
	wait := p.Submit(Job{Mode: "call", Scenario: name, Params: raw})
	return func() CallResult {
		var out CallResult
		for _, m := range wait() {
			switch m.Type {
			case "callres":
				out.Result = m.Result
			case "crash":
				out.Crashed = true
				out.Stderr = m.Err
			case "error":
				out.Err = m.Err
			}
		}
		return out
	}
}

// CrashSig exposes the crash signature helper.
func CrashSig(stderr string) string { return crashSig(stderr) }

// TailLines exposes the stderr summariser.
func TailLines(s string, n int) string { return tailLines(s, n) }
