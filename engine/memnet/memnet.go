// Package memnet provides an in-memory net.Listener whose connections are harness-owned buffers: writes by either
// side never block, reads block until data is available or the connection is closed.
package memnet

import (
	"errors"
	"io"
	"net"
	"sync"
	"time"
)

type addr string

func (a addr) Network() string { return "mem" }
func (a addr) String() string  { return string(a) }

type pipe struct {
	mu     sync.Mutex
	cond   *sync.Cond
	buf    []byte
	closed bool
	writes uint64 // number of Write calls (server side: one per IMAP response)
	total  uint64 // bytes ever written
}

func newPipe() *pipe {
	p := &pipe{}
	p.cond = sync.NewCond(&p.mu)
	return p
}

func (p *pipe) write(b []byte) (int, error) {
	p.mu.Lock()
	defer p.mu.Unlock()
	if p.closed {
		return 0, io.ErrClosedPipe
	}
	p.buf = append(p.buf, b...)
	p.writes++
	p.total += uint64(len(b))
	p.cond.Broadcast()
	return len(b), nil
}

func (p *pipe) read(b []byte) (int, error) {
	p.mu.Lock()
	defer p.mu.Unlock()
	for len(p.buf) == 0 {
		if p.closed {
			return 0, io.EOF
		}
		p.cond.Wait()
	}
	n := copy(b, p.buf)
	p.buf = p.buf[n:]
	if len(p.buf) == 0 {
		p.buf = nil
	}
	return n, nil
}

func (p *pipe) close() {
	p.mu.Lock()
	defer p.mu.Unlock()
	p.closed = true
	p.cond.Broadcast()
}

// End is one end of an in-memory connection.
type End struct {
	in, out *pipe
	name    string
}

func (e *End) Read(b []byte) (int, error)  { return e.in.read(b) }
func (e *End) Write(b []byte) (int, error) { return e.out.write(b) }
func (e *End) Close() error {
	e.in.close()
	e.out.close()
	return nil
}
func (e *End) LocalAddr() net.Addr                { return addr(e.name) }
func (e *End) RemoteAddr() net.Addr               { return addr(e.name + "-peer") }
func (e *End) SetDeadline(t time.Time) error      { return nil }
func (e *End) SetReadDeadline(t time.Time) error  { return nil }
func (e *End) SetWriteDeadline(t time.Time) error { return nil }

// PeerWrites returns how many Write calls the peer has made so far.
func (e *End) PeerWrites() uint64 {
	e.in.mu.Lock()
	defer e.in.mu.Unlock()
	return e.in.writes
}

// WaitPeerWrites blocks until the peer has made at least n Write calls, the connection is closed, or the timeout
// expires. It reports whether the count was reached.
func (e *End) WaitPeerWrites(n uint64, timeout time.Duration) bool {
	t := time.AfterFunc(timeout, func() {
		e.in.mu.Lock()
		e.in.cond.Broadcast()
		e.in.mu.Unlock()
	})
	defer t.Stop()
	deadline := time.Now().Add(timeout)
	e.in.mu.Lock()
	defer e.in.mu.Unlock()
	for e.in.writes < n && !e.in.closed && time.Now().Before(deadline) {
		e.in.cond.Wait()
	}
	return e.in.writes >= n
}

// ReadTimeout is like Read but gives up after the timeout (returns ErrTimeout).
var ErrTimeout = errors.New("memnet: read timeout")

func (e *End) ReadTimeout(b []byte, timeout time.Duration) (int, error) {
	t := time.AfterFunc(timeout, func() {
		e.in.mu.Lock()
		e.in.cond.Broadcast()
		e.in.mu.Unlock()
	})
	defer t.Stop()
	deadline := time.Now().Add(timeout)
	p := e.in
	p.mu.Lock()
	defer p.mu.Unlock()
	for len(p.buf) == 0 {
		if p.closed {
			return 0, io.EOF
		}
		if !time.Now().Before(deadline) {
			return 0, ErrTimeout
		}
		p.cond.Wait()
	}
	n := copy(b, p.buf)
	p.buf = p.buf[n:]
	if len(p.buf) == 0 {
		p.buf = nil
	}
	return n, nil
}

// Buffered returns the number of unread bytes waiting for this end.
func (e *End) Buffered() int {
	e.in.mu.Lock()
	defer e.in.mu.Unlock()
	return len(e.in.buf)
}

// InClosed reports whether the incoming direction is closed.
func (e *End) InClosed() bool {
	e.in.mu.Lock()
	defer e.in.mu.Unlock()
	return e.in.closed
}

// Listener is an in-memory net.Listener.
type Listener struct {
	ch     chan net.Conn
	once   sync.Once
	closed chan struct{}
	n      int
	mu     sync.Mutex
}

func Listen() *Listener {
	return &Listener{ch: make(chan net.Conn), closed: make(chan struct{})}
}

func (l *Listener) Accept() (net.Conn, error) {
	select {
	case c := <-l.ch:
		return c, nil
	case <-l.closed:
		return nil, net.ErrClosed
	}
}

func (l *Listener) Close() error {
	l.once.Do(func() { close(l.closed) })
	return nil
}

func (l *Listener) Addr() net.Addr { return addr("memnet") }

// Dial creates a connection pair, hands the server end to Accept and returns the client end.
func (l *Listener) Dial() (*End, error) {
	a, b := newPipe(), newPipe()
	l.mu.Lock()
	l.n++
	l.mu.Unlock()
	client := &End{in: a, out: b, name: "client"}
	server := &End{in: b, out: a, name: "server"}
	select {
	case l.ch <- server:
		return client, nil
	case <-l.closed:
		return nil, net.ErrClosed
	}
}
