// Package imapc is a minimal, literal-aware IMAP wire client over a memnet connection.
package imapc

import (
	"bytes"
	"errors"
	"fmt"
	"io"
	"regexp"
	"sort"
	"strconv"
	"strings"
	"time"

	"verif/engine/memnet"
)

// Resp is one logical response: a line, with any literals spliced in.
type Resp struct {
	Raw  []byte   // complete bytes without the final CRLF
	Text string   // text with each literal replaced by "{n}~" marker
	Lits [][]byte // literal contents in order
}

func (r Resp) String() string { return string(r.Raw) }

type Client struct {
	End     *memnet.End
	buf     []byte
	tagN    int
	Timeout time.Duration
	Closed  bool
	Log     []string // wire log (optional, capped)
}

func New(end *memnet.End) *Client {
	return &Client{End: end, Timeout: 60 * time.Second}
}

var ErrClosed = errors.New("imapc: connection closed")

func (c *Client) fill() error {
	tmp := make([]byte, 64*1024)
	n, err := c.End.ReadTimeout(tmp, c.Timeout)
	if n > 0 {
		c.buf = append(c.buf, tmp[:n]...)
	}
	if err == io.EOF {
		c.Closed = true
		return ErrClosed
	}
	return err
}

func (c *Client) readLine() ([]byte, error) {
	for {
		if i := bytes.Index(c.buf, []byte("\r\n")); i >= 0 {
			line := append([]byte(nil), c.buf[:i]...)
			c.buf = c.buf[i+2:]
			return line, nil
		}
		if err := c.fill(); err != nil {
			return nil, err
		}
	}
}

func (c *Client) readN(n int) ([]byte, error) {
	for len(c.buf) < n {
		if err := c.fill(); err != nil {
			return nil, err
		}
	}
	out := append([]byte(nil), c.buf[:n]...)
	c.buf = c.buf[n:]
	return out, nil
}

var litRe = regexp.MustCompile(`\{(\d+)\}$`)

// ReadResp reads one logical response.
func (c *Client) ReadResp() (Resp, error) {
	var r Resp
	var text strings.Builder
	for {
		line, err := c.readLine()
		if err != nil {
			return r, err
		}
		r.Raw = append(r.Raw, line...)
		m := litRe.FindSubmatch(line)
		if m == nil {
			text.Write(line)
			break
		}
		n, _ := strconv.Atoi(string(m[1]))
		lit, err := c.readN(n)
		if err != nil {
			return r, err
		}
		text.Write(line)
		text.WriteString("~")
		r.Raw = append(r.Raw, '\r', '\n')
		r.Raw = append(r.Raw, lit...)
		r.Lits = append(r.Lits, lit)
	}
	r.Text = text.String()
	return r, nil
}

// Result of one command.
type Result struct {
	Tag      string
	Untagged []Resp
	Tagged   Resp
	Status   string // OK / NO / BAD / "" (connection closed before the tagged reply) / BYE
	Err      error
}

func (r Result) OK() bool { return r.Status == "OK" }

func (r Result) Lines() []string {
	var out []string
	for _, u := range r.Untagged {
		out = append(out, u.Text)
	}
	out = append(out, r.Tagged.Text)
	return out
}

func (c *Client) NextTag() string {
	c.tagN++
	return fmt.Sprintf("t%d", c.tagN)
}

func (c *Client) Send(b []byte) error {
	_, err := c.End.Write(b)
	return err
}

// collect reads until the tagged response for tag.
func (c *Client) Collect(tag string) Result {
	res := Result{Tag: tag}
	for {
		r, err := c.ReadResp()
		if err != nil {
			res.Err = err
			return res
		}
		if strings.HasPrefix(r.Text, tag+" ") {
			res.Tagged = r
			f := strings.Fields(r.Text)
			if len(f) >= 2 {
				res.Status = f[1]
			}
			return res
		}
		res.Untagged = append(res.Untagged, r)
	}
}

// Cmd sends one command line and collects the responses up to its tagged reply.
func (c *Client) Cmd(cmd string) Result {
	tag := c.NextTag()
	if err := c.Send([]byte(tag + " " + cmd + "\r\n")); err != nil {
		return Result{Tag: tag, Err: err}
	}
	return c.Collect(tag)
}

// CmdLit sends a command that ends with a synchronising literal, e.g. prefix="APPEND INBOX (\Seen)".
func (c *Client) CmdLit(prefix string, lit []byte, suffix string) Result {
	tag := c.NextTag()
	if err := c.Send([]byte(fmt.Sprintf("%s %s {%d}\r\n", tag, prefix, len(lit)))); err != nil {
		return Result{Tag: tag, Err: err}
	}
	res := Result{Tag: tag}
	for {
		r, err := c.ReadResp()
		if err != nil {
			res.Err = err
			return res
		}
		if strings.HasPrefix(r.Text, "+") {
			break
		}
		if strings.HasPrefix(r.Text, tag+" ") {
			res.Tagged = r
			f := strings.Fields(r.Text)
			if len(f) >= 2 {
				res.Status = f[1]
			}
			return res
		}
		res.Untagged = append(res.Untagged, r)
	}
	if err := c.Send(append(append([]byte{}, lit...), []byte(suffix+"\r\n")...)); err != nil {
		res.Err = err
		return res
	}
	r2 := c.Collect(tag)
	r2.Untagged = append(res.Untagged, r2.Untagged...)
	return r2
}

// ---------------------------------------------------------------------------------------------------------------
// Parsing of untagged data.

type FetchRow struct {
	Seq      int
	UID      uint32 // 0 if absent
	HasFlags bool
	Flags    []string // lower-cased, sorted
	Body     map[string][]byte
	Items    map[string]string
}

var (
	existsRe  = regexp.MustCompile(`^\* (\d+) EXISTS$`)
	recentRe  = regexp.MustCompile(`^\* (\d+) RECENT$`)
	expungeRe = regexp.MustCompile(`^\* (\d+) EXPUNGE$`)
	fetchRe   = regexp.MustCompile(`^\* (\d+) FETCH \((.*)\)$`)
	uidRe     = regexp.MustCompile(`(?:^| )UID (\d+)`)
	flagsRe   = regexp.MustCompile(`(?:^| )FLAGS \(([^)]*)\)`)
)

type Untagged struct {
	Kind string // EXISTS EXPUNGE FETCH RECENT OTHER
	N    int
	Row  *FetchRow
	Text string
}

func NormFlags(s string) []string {
	f := strings.Fields(strings.ToLower(s))
	sort.Strings(f)
	return f
}

func ParseUntagged(r Resp) Untagged {
	t := r.Text
	if m := existsRe.FindStringSubmatch(t); m != nil {
		n, _ := strconv.Atoi(m[1])
		return Untagged{Kind: "EXISTS", N: n, Text: t}
	}
	if m := recentRe.FindStringSubmatch(t); m != nil {
		n, _ := strconv.Atoi(m[1])
		return Untagged{Kind: "RECENT", N: n, Text: t}
	}
	if m := expungeRe.FindStringSubmatch(t); m != nil {
		n, _ := strconv.Atoi(m[1])
		return Untagged{Kind: "EXPUNGE", N: n, Text: t}
	}
	if m := fetchRe.FindStringSubmatch(t); m != nil {
		n, _ := strconv.Atoi(m[1])
		row := &FetchRow{Seq: n, Body: map[string][]byte{}, Items: map[string]string{}}
		body := m[2]
		if u := uidRe.FindStringSubmatch(body); u != nil {
			v, _ := strconv.ParseUint(u[1], 10, 32)
			row.UID = uint32(v)
		}
		if f := flagsRe.FindStringSubmatch(body); f != nil {
			row.HasFlags = true
			row.Flags = NormFlags(f[1])
		}
		// literals: items of the form NAME {n}~ in order
		li := 0
		for _, mm := range regexp.MustCompile(`([A-Za-z0-9.]+(?:\[[^\]]*\])?(?:<\d+>)?) \{\d+\}~`).FindAllStringSubmatch(body, -1) {
			if li < len(r.Lits) {
				row.Body[mm[1]] = r.Lits[li]
				li++
			}
		}
		return Untagged{Kind: "FETCH", N: n, Row: row, Text: t}
	}
	return Untagged{Kind: "OTHER", Text: t}
}

// Code extracts a response code value like [UIDNEXT 5] from untagged OK lines or the tagged line.
func (r Result) Code(name string) (string, bool) {
	re := regexp.MustCompile(`\[` + regexp.QuoteMeta(name) + `(?: ([^\]]*))?\]`)
	for _, l := range r.Lines() {
		if m := re.FindStringSubmatch(l); m != nil {
			return m[1], true
		}
	}
	return "", false
}

// HasBuffered reports whether unread bytes sit in the client's own buffer.
func (c *Client) HasBuffered() bool { return len(c.buf) > 0 }
