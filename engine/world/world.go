// Package world runs a real gluon.Server on an in-memory listener with harness connectors and gives the explorer
// deterministic, run-to-completion events on it.
package world

import (
	"context"
	"encoding/json"
	"fmt"
	"io"
	"os"
	"path/filepath"
	"sort"
	"strings"
	"sync/atomic"
	"time"

	"github.com/ProtonMail/gluon"
	"github.com/ProtonMail/gluon/db"
	"github.com/ProtonMail/gluon/imap"
	"github.com/ProtonMail/gluon/limits"
	"github.com/ProtonMail/gluon/store"
	"github.com/sirupsen/logrus"

	"verif/engine/imapc"
	"verif/engine/memnet"
	"verif/engine/vconn"
)

func init() {
	logrus.SetOutput(io.Discard)
	logrus.SetLevel(logrus.PanicLevel)
}

const Watchdog = 120 * time.Second

type UserCfg struct {
	Name, Pass string
}

type Config struct {
	Delim        string
	Limits       *limits.IMAP
	JailTime     time.Duration
	IdleBulk     time.Duration // gluon's IDLE bulk time (0 = every response is sent at once; gluon's default is 500 ms)
	Users        []UserCfg
	Hold         bool
	StoreBuilder store.Builder
	DBCI         db.ClientInterface
	UIDVStart    uint32
	UIDVGen      imap.UIDValidityGenerator // overrides the counter generator
	Parallel     bool                      // false => WithDisableParallelism
	Dir          string                    // use this directory (kept on Close) instead of a fresh temporary one
}

// CounterGen is a persistent, monotone UIDVALIDITY generator owned by the harness.
type CounterGen struct{ n uint32 }

func (g *CounterGen) Generate() (imap.UID, error) { return imap.UID(atomic.AddUint32(&g.n, 1)), nil }
func (g *CounterGen) Value() uint32               { return atomic.LoadUint32(&g.n) }

type User struct {
	ID   string
	Name string
	Pass string
	Conn *vconn.Conn
}

type Sess struct {
	C        *imapc.Client
	User     int   // index into Users, -1 if not authenticated
	StateID  int64 // 0 if not authenticated
	Selected string
	Idle     bool
	idleTag  string
	idleW0   uint64
	idleP0   uint64
	Dead     bool
}

type World struct {
	Cfg   Config
	Dir   string
	Srv   *gluon.Server
	Lis   *memnet.Listener
	Users []*User
	Sess  []*Sess
	Gen   *CounterGen
	ctx   context.Context
	stop  context.CancelFunc
	// AfterClose, if set, runs after Server.Close has returned and BEFORE the context that was given to Server.Serve
	// is cancelled (a closed server must not need that cancellation to release its goroutines).
	AfterClose func()
}

var worldSeq uint64

func baseDir() string {
	if st, err := os.Stat("/dev/shm"); err == nil && st.IsDir() {
		return "/dev/shm"
	}
	return os.TempDir()
}

func New(cfg Config) (*World, error) {
	if cfg.Delim == "" {
		cfg.Delim = "/"
	}
	if len(cfg.Users) == 0 {
		cfg.Users = []UserCfg{{"user", "pass"}}
	}
	n := atomic.AddUint64(&worldSeq, 1)
	dir := filepath.Join(baseDir(), fmt.Sprintf("verif-w-%d-%d", os.Getpid(), n))
	if cfg.Dir != "" {
		dir = cfg.Dir
	} else {
		_ = os.RemoveAll(dir)
	}
	if err := os.MkdirAll(dir, 0o700); err != nil {
		return nil, err
	}
	w := &World{Cfg: cfg, Dir: dir, Gen: &CounterGen{n: cfg.UIDVStart}}
	for i, u := range cfg.Users {
		w.Users = append(w.Users, &User{ID: fmt.Sprintf("uid-%d-%s", i, u.Name), Name: u.Name, Pass: u.Pass, Conn: vconn.New([]string{u.Name}, u.Pass)})
	}
	if err := w.start(); err != nil {
		w.Close()
		return nil, err
	}
	return w, nil
}

func (w *World) start() error {
	gluon.VerifReset()
	gluon.VerifSetHold(w.Cfg.Hold)
	opts := []gluon.Option{
		gluon.WithDataDir(filepath.Join(w.Dir, "store")),
		gluon.WithDatabaseDir(filepath.Join(w.Dir, "db")),
		gluon.WithDelimiter(w.Cfg.Delim),
		gluon.WithLoginJailTime(w.Cfg.JailTime),
		gluon.WithIdleBulkTime(w.Cfg.IdleBulk),
	}
	if w.Cfg.UIDVGen != nil {
		opts = append(opts, gluon.WithUIDValidityGenerator(w.Cfg.UIDVGen))
	} else {
		opts = append(opts, gluon.WithUIDValidityGenerator(w.Gen))
	}
	if w.Cfg.Limits != nil {
		opts = append(opts, gluon.WithIMAPLimits(*w.Cfg.Limits))
	}
	if w.Cfg.StoreBuilder != nil {
		opts = append(opts, gluon.WithStoreBuilder(w.Cfg.StoreBuilder))
	}
	if w.Cfg.DBCI != nil {
		opts = append(opts, gluon.WithDBClient(w.Cfg.DBCI))
	}
	if !w.Cfg.Parallel {
		opts = append(opts, gluon.WithDisableParallelism())
	}
	srv, err := gluon.New(opts...)
	if err != nil {
		return err
	}
	w.Srv = srv
	w.ctx, w.stop = context.WithCancel(context.Background())
	for _, u := range w.Users {
		u.Conn.Reopen()
		if _, err := srv.LoadUser(w.ctx, u.Conn, u.ID, []byte(u.Pass)); err != nil {
			return fmt.Errorf("LoadUser: %w", err)
		}
		// Sync: the INBOX (remote id "0") and every mailbox known to the remote model.
		ids := make([]string, 0)
		for id := range u.Conn.Mailboxes {
			ids = append(ids, string(id))
		}
		sort.Strings(ids)
		for _, id := range ids {
			m := u.Conn.Mailboxes[imap.MailboxID(id)]
			up, _ := u.Conn.Build(vconn.Spec{Kind: "MailboxCreated", Mbox: id, Name: m.Name})
			if r := u.Conn.Inject(up, Watchdog); r.Err != "" || !r.Done {
				return fmt.Errorf("sync mailbox %v: %+v", id, r)
			}
		}
	}
	w.Lis = memnet.Listen()
	return srv.Serve(w.ctx, w.Lis)
}

// Connect opens a new session and reads the greeting.
func (w *World) Connect() (*Sess, error) {
	end, err := w.Lis.Dial()
	if err != nil {
		return nil, err
	}
	c := imapc.New(end)
	c.Timeout = Watchdog
	r, err := c.ReadResp()
	if err != nil {
		return nil, err
	}
	if !strings.HasPrefix(r.Text, "* OK") {
		return nil, fmt.Errorf("bad greeting %q", r.Text)
	}
	s := &Sess{C: c, User: -1}
	w.Sess = append(w.Sess, s)
	return s, nil
}

// Login authenticates the session and records its state ID.
func (w *World) Login(s *Sess, user int) imapc.Result {
	before := w.stateIDs(user)
	u := w.Users[user]
	r := s.C.Cmd(fmt.Sprintf("LOGIN %s %s", u.Name, u.Pass))
	if r.OK() {
		after := w.stateIDs(user)
		for id := range after {
			if !before[id] {
				s.StateID = id
			}
		}
		s.User = user
	}
	return r
}

func (w *World) stateIDs(user int) map[int64]bool {
	out := map[int64]bool{}
	if w.Srv == nil {
		return out
	}
	for _, id := range w.Srv.VerifStateIDs(w.Users[user].ID) {
		out[id] = true
	}
	return out
}

type Msg struct {
	UID       uint32
	Internal  string
	Remote    string
	Flags     []string
	ToExpunge bool
}

type StateDump struct {
	StateID    int64
	Selected   bool
	MboxID     uint64
	MboxRemote string
	ReadOnly   bool
	Invalid    bool
	Idle       bool
	Msgs       []Msg
	Responders []string
	Held       []string
	Pushed     uint64
}

func (w *World) Dump(user int) []StateDump {
	var out []StateDump
	if w.Srv == nil {
		return nil
	}
	if err := json.Unmarshal(w.Srv.VerifDump(w.Users[user].ID), &out); err != nil {
		panic(err)
	}
	return out
}

func (w *World) DumpOf(s *Sess) (StateDump, bool) {
	if s.User < 0 {
		return StateDump{}, false
	}
	for _, d := range w.Dump(s.User) {
		if d.StateID == s.StateID {
			return d, true
		}
	}
	return StateDump{}, false
}

// Barrier waits until the session goroutine of s is back in its select loop.
func (w *World) Barrier(s *Sess) error {
	if s.User < 0 || s.Dead {
		return nil
	}
	_, err := w.Srv.VerifBarrier(w.Users[s.User].ID, s.StateID, Watchdog)
	return err
}

// Held returns the number of held updates for the session.
func (w *World) Held(s *Sess) int {
	if s.User < 0 || s.Dead {
		return 0
	}
	return w.Srv.VerifHeldCount(w.Users[s.User].ID, s.StateID)
}

// Deliver hands the oldest held update to the session; in IDLE it returns the lines pushed.
func (w *World) Deliver(s *Sess) ([]imapc.Resp, bool, error) {
	if s.User < 0 || s.Dead {
		return nil, false, nil
	}
	uid := w.Users[s.User].ID
	ok, err := w.Srv.VerifDeliverOne(uid, s.StateID, Watchdog)
	if err != nil || !ok {
		return nil, ok, err
	}
	if s.Idle {
		lines, err := w.idleCollect(s)
		return lines, true, err
	}
	return nil, true, nil
}

func (w *World) idleCollect(s *Sess) ([]imapc.Resp, error) {
	if w.Cfg.IdleBulk != 0 {
		// bulk mode: pushed responses are buffered by the server until its timer fires or IDLE ends
		return nil, nil
	}
	uid := w.Users[s.User].ID
	pushed := w.Srv.VerifPushed(uid, s.StateID) - s.idleP0
	want := s.idleW0 + pushed
	if !s.C.End.WaitPeerWrites(want, Watchdog) {
		return nil, fmt.Errorf("idle: expected %d server writes, have %d", want, s.C.End.PeerWrites())
	}
	var out []imapc.Resp
	for s.C.End.Buffered() > 0 || s.C.HasBuffered() {
		r, err := s.C.ReadResp()
		if err != nil {
			return out, err
		}
		out = append(out, r)
	}
	return out, nil
}

// IdleStart enters IDLE; returns the untagged lines sent on entry (pending responses).
func (w *World) IdleStart(s *Sess) ([]imapc.Resp, string, error) {
	tag := s.C.NextTag()
	if err := s.C.Send([]byte(tag + " IDLE\r\n")); err != nil {
		return nil, "", err
	}
	var out []imapc.Resp
	for {
		r, err := s.C.ReadResp()
		if err != nil {
			return out, "", err
		}
		if strings.HasPrefix(r.Text, tag+" ") {
			return out, r.Text, nil // refused
		}
		if strings.HasPrefix(r.Text, "+") {
			break
		}
		out = append(out, r)
	}
	s.Idle = true
	s.idleTag = tag
	if err := w.Barrier(s); err != nil {
		return out, "", err
	}
	for s.C.End.Buffered() > 0 || s.C.HasBuffered() {
		r, err := s.C.ReadResp()
		if err != nil {
			return out, "", err
		}
		out = append(out, r)
	}
	s.idleW0 = s.C.End.PeerWrites()
	s.idleP0 = w.Srv.VerifPushed(w.Users[s.User].ID, s.StateID)
	return out, "", nil
}

// IdleDone leaves IDLE; returns untagged lines and the tagged line.
func (w *World) IdleDone(s *Sess) ([]imapc.Resp, string, error) {
	if err := s.C.Send([]byte("DONE\r\n")); err != nil {
		return nil, "", err
	}
	var out []imapc.Resp
	for {
		r, err := s.C.ReadResp()
		if err != nil {
			return out, "", err
		}
		if strings.HasPrefix(r.Text, s.idleTag+" ") {
			s.Idle = false
			return out, r.Text, nil
		}
		out = append(out, r)
	}
}

// Inject applies one connector update for the user and returns its acknowledgement.
func (w *World) Inject(user int, s vconn.Spec) vconn.InjectResult {
	c := w.Users[user].Conn
	u, err := c.Build(s)
	if err != nil {
		return vconn.InjectResult{Err: "build: " + err.Error()}
	}
	return c.Inject(u, Watchdog)
}

// DrainAll delivers every held update to every live session until none is left. Returns lines pushed to idlers.
func (w *World) DrainAll() (map[*Sess][]imapc.Resp, error) {
	out := map[*Sess][]imapc.Resp{}
	for round := 0; round < 10000; round++ {
		progress := false
		for _, s := range w.Sess {
			for w.Held(s) > 0 {
				lines, ok, err := w.Deliver(s)
				if err != nil {
					return out, err
				}
				if !ok {
					break
				}
				out[s] = append(out[s], lines...)
				progress = true
			}
		}
		if !progress {
			return out, nil
		}
	}
	return out, fmt.Errorf("DrainAll: no fixpoint")
}

// Logout sends LOGOUT and waits for the connection to close.
func (w *World) Logout(s *Sess) imapc.Result {
	r := s.C.Cmd("LOGOUT")
	// the server closes the connection at the very end of the session's tear-down (after the state was released
	// and its deferred work — e.g. purging messages marked for deletion — is done)
	for r.Err == nil {
		if _, err := s.C.ReadResp(); err != nil {
			break
		}
	}
	w.waitGone(s)
	return r
}

// Drop closes the connection abruptly and waits until the server has released the state.
func (w *World) Drop(s *Sess) {
	_ = s.C.End.Close()
	w.waitGone(s)
}

func (w *World) waitGone(s *Sess) {
	s.Dead = true
	if s.User < 0 {
		return
	}
	deadline := time.Now().Add(Watchdog)
	for time.Now().Before(deadline) {
		if !w.stateIDs(s.User)[s.StateID] {
			return
		}
		time.Sleep(50 * time.Microsecond)
	}
}

// Restart closes the server and starts a new one on the same directories; all sessions are gone afterwards.
func (w *World) Restart() error {
	if err := w.Shutdown(); err != nil {
		return err
	}
	w.Sess = nil
	return w.start()
}

// Shutdown closes all client connections and the server.
func (w *World) Shutdown() error {
	if w.Srv == nil {
		return nil
	}
	for _, s := range w.Sess {
		_ = s.C.End.Close()
		s.Dead = true
	}
	ctx, cancel := context.WithTimeout(context.Background(), Watchdog)
	defer cancel()
	errc := make(chan error, 1)
	go func() { errc <- w.Srv.Close(ctx) }()
	var err error
	select {
	case err = <-errc:
	case <-time.After(Watchdog):
		err = fmt.Errorf("server Close did not return within %v", Watchdog)
	}
	if w.AfterClose != nil && err == nil {
		_ = w.Lis.Close() // the listener belongs to the caller of Serve: the accept loop ends with it
		w.AfterClose()
	}
	w.stop()
	_ = w.Lis.Close()
	w.Srv = nil
	return err
}

// Closed tells the world that the server has been closed by the caller (Server.Close panics when called twice):
// the client connections and the listener are released, Server.Close is not called again.
func (w *World) Closed() {
	if w.Srv == nil {
		return
	}
	for _, s := range w.Sess {
		_ = s.C.End.Close()
		s.Dead = true
	}
	if w.AfterClose != nil {
		_ = w.Lis.Close()
		w.AfterClose()
	}
	w.stop()
	_ = w.Lis.Close()
	w.Srv = nil
}

// Abandon gives the world up without closing the server (used when the server is known to be in a state in which
// Close cannot return, e.g. a session state the harness provoked it to leak): connections, listener and the Serve
// context are released, the directories removed; the server's goroutines stay for the rest of the process.
func (w *World) Abandon() {
	if w.Srv != nil {
		for _, s := range w.Sess {
			_ = s.C.End.Close()
			s.Dead = true
		}
		w.stop()
		_ = w.Lis.Close()
		w.Srv = nil
	}
	if w.Cfg.Dir == "" {
		_ = os.RemoveAll(w.Dir)
	}
}

func (w *World) Close() {
	if w.Srv != nil {
		_ = w.Shutdown()
	}
	if w.Cfg.Dir == "" {
		_ = os.RemoveAll(w.Dir)
	}
}

// DB returns the database client of a user.
func (w *World) DB(user int) db.Client { return w.Srv.VerifDB(w.Users[user].ID) }
