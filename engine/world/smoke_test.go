package world

import (
	"fmt"
	"testing"
	"time"

	"verif/engine/vconn"
)

func TestSmoke(t *testing.T) {
	t0 := time.Now()
	w, err := New(Config{Hold: true})
	if err != nil {
		t.Fatal(err)
	}
	defer w.Close()
	fmt.Println("new world", time.Since(t0))
	o, _ := w.Connect()
	a, _ := w.Connect()
	fmt.Println(w.Login(o, 0).Lines())
	fmt.Println(w.Login(a, 0).Lines())
	fmt.Println(o.C.Cmd("SELECT INBOX").Lines())
	fmt.Println(a.C.Cmd("SELECT INBOX").Lines())
	fmt.Println("setup", time.Since(t0))
	r := a.C.CmdLit(`APPEND INBOX (\Seen)`, vconn.MakeLiteral("k1"), "")
	fmt.Println(r.Lines())
	fmt.Println("held o", w.Held(o), "held a", w.Held(a))
	fmt.Println(o.C.Cmd("NOOP").Lines())
	_, ok, err := w.Deliver(o)
	fmt.Println("deliver", ok, err)
	d, _ := w.DumpOf(o)
	fmt.Printf("%+v\n", d)
	fmt.Println(o.C.Cmd("NOOP").Lines())
	fmt.Println(o.C.Cmd("UID FETCH 1:* (FLAGS BODY.PEEK[HEADER.FIELDS (X-Verif-Key)])").Lines())
	pend, _, err := w.IdleStart(o)
	fmt.Println("idle", pend, err)
	fmt.Println(a.C.Cmd(`STORE 1 +FLAGS (\Flagged)`).Lines())
	lines, ok, err := w.Deliver(o)
	fmt.Println("deliver idle", lines, ok, err)
	fmt.Println(w.IdleDone(o))
	fmt.Println(w.Users[0].Conn.Canon())
	t1 := time.Now()
	fmt.Println(w.Restart(), time.Since(t1))
	fmt.Println("total", time.Since(t0))
}
