// Package report writes evidence files, matches violations against the committed known-findings file and prints
// the VIOLATION / KNOWN-FINDING lines of the check interface.
package report

import (
	"crypto/sha256"
	"encoding/hex"
	"encoding/json"
	"fmt"
	"os"
	"path/filepath"
	"sort"
	"strconv"
	"time"
)

// Root is the verification directory (the working directory of the check script).
var Root = func() string {
	if d, err := os.Getwd(); err == nil {
		return d
	}
	return "/verif"
}()

type Finding struct {
	Property  string `json:"property"`
	Signature string `json:"signature"` // "<clause>/<sig>"
	Status    string `json:"status"`    // "known" | "fixed"
	Commit    string `json:"commit,omitempty"`
	What      string `json:"what"`
}

type V struct {
	Prop   string
	Clause string
	Sig    string
	Msg    string
	Replay any // serialisable artefact (event list, schedule, input)
}

func (v V) Signature() string { return v.Clause + "/" + v.Sig }

type Check struct {
	Prop        string
	Tier        string
	Seed        int64
	Level       string
	Start       time.Time
	Deadline    time.Time
	Coverage    map[string]any
	Assumptions []string
	viol        []V
	seenSig     map[string]bool
	known       []Finding
	knownHit    map[string]int
	// MergeKey: when set, Finish merges this check's coverage into the existing evidence file of the property
	// under coverage[MergeKey] instead of replacing the file (used for a second part of the same property).
	MergeKey string
}

func Tier() string {
	t := os.Getenv("VERIF_TIER")
	if t == "" {
		t = "quick"
	}
	return t
}

func Seed() int64 {
	n, _ := strconv.ParseInt(os.Getenv("VERIF_SEED"), 10, 64)
	return n
}

func New(prop, tier, level string, budget time.Duration) *Check {
	c := &Check{Prop: prop, Tier: tier, Seed: Seed(), Level: level, Start: time.Now(), Coverage: map[string]any{}, seenSig: map[string]bool{}, knownHit: map[string]int{}}
	if budget > 0 {
		c.Deadline = c.Start.Add(budget)
	}
	b, err := os.ReadFile(filepath.Join(Root, "known_findings.json"))
	if err == nil {
		var all []Finding
		if err := json.Unmarshal(b, &all); err != nil {
			fmt.Fprintln(os.Stderr, "known_findings.json:", err)
		}
		c.known = all
	}
	return c
}

// Add records a violation (deduplicated by signature; the first witness is kept).
func (c *Check) Add(v V) {
	if v.Prop == "" {
		v.Prop = c.Prop
	}
	key := v.Prop + "|" + v.Signature()
	if c.seenSig[key] {
		return
	}
	c.seenSig[key] = true
	c.viol = append(c.viol, v)
}

func (c *Check) Violations() []V { return c.viol }

func (c *Check) isKnown(v V) (Finding, bool) {
	for _, f := range c.known {
		if f.Status == "known" && f.Property == v.Prop && f.Signature == v.Signature() {
			return f, true
		}
	}
	return Finding{}, false
}

// Finish writes the evidence file and prints the verdict lines; it returns the process exit code.
func (c *Check) Finish() int {
	exit := 0
	var unknown, knownHits int
	sort.SliceStable(c.viol, func(i, j int) bool { return c.viol[i].Signature() < c.viol[j].Signature() })
	var knownList []string
	for _, v := range c.viol {
		if f, ok := c.isKnown(v); ok {
			knownHits++
			fmt.Printf("KNOWN-FINDING: property=%s %s [%s]\n", v.Prop, f.What, v.Signature())
			knownList = append(knownList, v.Signature())
			continue
		}
		unknown++
		h := sha256.Sum256([]byte(v.Signature()))
		name := fmt.Sprintf("%s-%s.json", v.Prop, hex.EncodeToString(h[:5]))
		path := filepath.Join(Root, "replays", name)
		_ = os.MkdirAll(filepath.Dir(path), 0o755)
		art := map[string]any{"property": v.Prop, "clause": v.Clause, "signature": v.Signature(), "message": v.Msg, "replay": v.Replay, "tier": c.Tier}
		b, _ := json.MarshalIndent(art, "", " ")
		_ = os.WriteFile(path, b, 0o644)
		fmt.Printf("  violation detail: %s: %s\n", v.Signature(), v.Msg)
		fmt.Printf("VIOLATION property=%s replay=%s\n", v.Prop, path)
		exit = 1
	}
	c.Coverage["known_findings_hit"] = knownList
	ev := map[string]any{
		"property_id": c.Prop,
		"tier":        c.Tier,
		"seed":        c.Seed,
		"level":       c.Level,
		"coverage":    c.Coverage,
		"assumptions": c.Assumptions,
		"wall_s":      time.Since(c.Start).Seconds(),
		"violations":  unknown,
	}
	if c.MergeKey != "" {
		var old map[string]any
		if ob, err := os.ReadFile(filepath.Join(evidenceDir(), c.Prop+".json")); err == nil && json.Unmarshal(ob, &old) == nil {
			if cov, ok := old["coverage"].(map[string]any); ok {
				cov[c.MergeKey] = c.Coverage
				if ex, ok := c.Coverage["exhaustive"].(bool); ok && !ex {
					cov["exhaustive"] = false
				}
			}
			if v, ok := old["violations"].(float64); ok {
				old["violations"] = int(v) + unknown
			}
			if w, ok := old["wall_s"].(float64); ok {
				old["wall_s"] = w + time.Since(c.Start).Seconds()
			}
			if as, ok := old["assumptions"].([]any); ok {
				for _, a := range c.Assumptions {
					as = append(as, a)
				}
				old["assumptions"] = as
			}
			ev = old
		}
	}
	b, _ := json.MarshalIndent(ev, "", " ")
	_ = os.MkdirAll(evidenceDir(), 0o755)
	if err := os.WriteFile(filepath.Join(evidenceDir(), c.Prop+".json"), b, 0o644); err != nil {
		fmt.Fprintln(os.Stderr, "evidence:", err)
		return 2
	}
	fmt.Printf("%s %s: %d violation(s), %d known finding(s), %.1fs\n", c.Prop, c.Tier, unknown, knownHits, time.Since(c.Start).Seconds())
	return exit
}

// evidenceDir is <root>/evidence; VERIF_EVIDENCE_DIR redirects it (runs against a candidate change must not overwrite the
// evidence of the tree that is registered).
func evidenceDir() string {
	if d := os.Getenv("VERIF_EVIDENCE_DIR"); d != "" {
		return d
	}
	return filepath.Join(Root, "evidence")
}
