// Package enumt holds the data types exchanged between the ENUM coordinator (checks.RunEnum) and the batch
// functions that run inside worker processes (explore.RegisterCall).
package enumt

import "encoding/json"

// Chunk is what a batch function receives: common parameters plus a list of cases.
type Chunk struct {
	Common json.RawMessage   `json:"common"`
	Cases  []json.RawMessage `json:"cases"`
}

// Viol is one violation found by a batch function. Sig is the witness class used to match known findings:
// fine enough that a different defect gets a different signature, coarse enough that the many inputs exhibiting
// one defect collapse to one.
type Viol struct {
	Prop   string `json:"prop,omitempty"`
	Clause string `json:"clause"`
	Sig    string `json:"sig"`
	Msg    string `json:"msg"`
	Input  any    `json:"input"`
}

// Result is what a batch function returns for a chunk.
type Result struct {
	Evaluations int            `json:"evaluations"`
	Outcomes    []string       `json:"outcomes"` // distinct NON-TRIVIAL outcome keys seen in this chunk
	Viol        []Viol         `json:"viol,omitempty"`
	Samples     []any          `json:"samples,omitempty"`
	Counters    map[string]int `json:"counters,omitempty"`
}

// ParseChunk decodes the raw parameters of a batch call.
func ParseChunk(raw json.RawMessage) (Chunk, error) {
	var c Chunk
	err := json.Unmarshal(raw, &c)
	return c, err
}
