// Package vconn is the harness connector: a deterministic remote model whose calls answer from an explorer-chosen
// fault schedule and whose "echo" updates are recorded instead of being sent, so that their delivery is an explicit
// event.
package vconn

import (
	"context"
	"errors"
	"fmt"
	"sort"
	"strings"
	"sync"
	"time"

	"github.com/ProtonMail/gluon/connector"
	"github.com/ProtonMail/gluon/imap"
)

type RMailbox struct {
	ID   imap.MailboxID
	Name []string
}

type RMessage struct {
	ID      imap.MessageID
	Literal []byte
	Flags   imap.FlagSet
	Date    time.Time
	Mboxes  map[imap.MailboxID]bool
}

// Spec is a data description of a connector update (so it can be rebuilt for re-delivery and serialised).
type Spec struct {
	Kind    string   `json:"k"`
	Mbox    string   `json:"mb,omitempty"`
	Name    []string `json:"name,omitempty"`
	Msg     string   `json:"msg,omitempty"`
	Msgs    []string `json:"msgs,omitempty"` // for batches: message ids
	Mboxes  []string `json:"mbs,omitempty"`
	Flags   []string `json:"fl,omitempty"`
	Key     string   `json:"key,omitempty"` // literal key (see MakeLiteral)
	Keys    []string `json:"keys,omitempty"`
	Ignore  bool     `json:"ign,omitempty"`
	Allow   bool     `json:"allow,omitempty"`
	NewID   string   `json:"newid,omitempty"`
	IntID   string   `json:"intid,omitempty"`
	IntMbox uint64   `json:"intmb,omitempty"`
	Lit     string   `json:"lit,omitempty"`  // explicit message bytes (overrides Key)
	Date    string   `json:"date,omitempty"` // internal date, RFC 3339
}

func (s Spec) date() time.Time {
	if s.Date != "" {
		if t, err := time.Parse(time.RFC3339, s.Date); err == nil {
			return t
		}
	}
	return time.Date(2006, 1, 2, 12, 0, 0, 0, time.UTC)
}

func (s Spec) String() string {
	var b strings.Builder
	b.WriteString(s.Kind)
	if s.Mbox != "" {
		b.WriteString(" mb=" + s.Mbox)
	}
	if len(s.Name) > 0 {
		b.WriteString(" name=" + strings.Join(s.Name, "/"))
	}
	if s.Msg != "" {
		b.WriteString(" msg=" + s.Msg)
	}
	if len(s.Msgs) > 0 {
		b.WriteString(" msgs=" + strings.Join(s.Msgs, ","))
	}
	if s.Mboxes != nil {
		b.WriteString(" mbs=[" + strings.Join(s.Mboxes, ",") + "]")
	}
	if s.Flags != nil {
		b.WriteString(" fl=[" + strings.Join(s.Flags, ",") + "]")
	}
	if s.Key != "" {
		b.WriteString(" key=" + s.Key)
	}
	if s.Ignore {
		b.WriteString(" ignoreUnknown")
	}
	if s.Allow {
		b.WriteString(" allowCreate")
	}
	if s.NewID != "" {
		b.WriteString(" newid=" + s.NewID)
	}
	return b.String()
}

// MakeLiteral builds the message bytes for a harness key. The key is carried in the X-Verif-Key header.
func MakeLiteral(key string) []byte {
	if strings.HasPrefix(key, "u") {
		// a valid message whose content hash cannot be computed: its text part declares base64 but is not decodable
		return []byte("From: sender-" + key + "@example.org\r\nTo: rcpt@example.org\r\nSubject: msg " + key +
			"\r\nX-Verif-Key: " + key + "\r\nDate: Mon, 02 Jan 2006 12:00:00 +0000\r\nMIME-Version: 1.0\r\nContent-Type: text/plain; charset=utf-8\r\n" +
			"Content-Transfer-Encoding: base64\r\n\r\n%%% body of " + key + " is not base64 %%%\r\n")
	}
	if strings.HasPrefix(key, "v") {
		// declared multipart, but no boundary parameter: the parts cannot be enumerated
		return []byte("From: sender-" + key + "@example.org\r\nTo: rcpt@example.org\r\nSubject: msg " + key +
			"\r\nX-Verif-Key: " + key + "\r\nDate: Mon, 02 Jan 2006 12:00:00 +0000\r\nMIME-Version: 1.0\r\nContent-Type: multipart/mixed\r\n\r\nbody of " + key + "\r\n")
	}
	return []byte("From: sender-" + key + "@example.org\r\nTo: rcpt@example.org\r\nSubject: msg " + key +
		"\r\nX-Verif-Key: " + key + "\r\nDate: Mon, 02 Jan 2006 12:00:00 +0000\r\n\r\nbody of " + key + "\r\n")
}

var DefaultFlags = imap.NewFlagSet(imap.FlagSeen, imap.FlagFlagged, imap.FlagDeleted)

type Conn struct {
	mu sync.Mutex

	Usernames []string
	Password  []byte

	updateCh chan imap.Update

	Mailboxes map[imap.MailboxID]*RMailbox
	Messages  map[imap.MessageID]*RMessage
	nextMbox  int
	nextMsg   int

	// Echoes holds the specs of the updates a real connector would send back for the client actions so far.
	Echoes []Spec
	// Faults maps a call kind to a FIFO of answers ("ok" is the default when empty).
	Faults map[string][]string
	// Sticky maps a call kind to the answer given whenever its FIFO is empty (instead of "ok").
	Sticky map[string]string
	// Calls is a log of the remote calls made.
	Calls []string

	Visibility map[imap.MailboxID]imap.MailboxVisibility

	closed     bool
	quit       chan struct{} // closed by Close: the update channel itself is never closed (an Inject may be sending)
	noLiterals bool
}

func New(usernames []string, password string) *Conn {
	c := &Conn{
		Usernames:  usernames,
		Password:   []byte(password),
		updateCh:   make(chan imap.Update, 1024),
		quit:       make(chan struct{}),
		Mailboxes:  map[imap.MailboxID]*RMailbox{},
		Messages:   map[imap.MessageID]*RMessage{},
		Faults:     map[string][]string{},
		Visibility: map[imap.MailboxID]imap.MailboxVisibility{},
	}
	c.Mailboxes["0"] = &RMailbox{ID: "0", Name: []string{imap.Inbox}}
	return c
}

// Reopen prepares the connector for a restarted server (fresh update channel); the remote model is kept.
func (c *Conn) Reopen() {
	c.mu.Lock()
	defer c.mu.Unlock()
	c.updateCh = make(chan imap.Update, 1024)
	c.quit = make(chan struct{})
	c.closed = false
}

func (c *Conn) answer(kind string) string {
	q := c.Faults[kind]
	if len(q) == 0 {
		if a, ok := c.Sticky[kind]; ok {
			return a
		}
		return "ok"
	}
	a := q[0]
	c.Faults[kind] = q[1:]
	return a
}

// pushEcho records an echo. Like a real remote (and the dummy connector) it keeps only the latest refresh of a
// message's mailboxes / flags or of a mailbox name: several changes between two polls yield one update with the
// latest state.
func (c *Conn) pushEcho(s Spec) {
	switch s.Kind {
	case "MessageMailboxesUpdated", "MessageFlagsUpdated":
		out := c.Echoes[:0:0]
		for _, e := range c.Echoes {
			if e.Kind == s.Kind && e.Msg == s.Msg {
				continue
			}
			out = append(out, e)
		}
		c.Echoes = out
	case "MailboxUpdated":
		out := c.Echoes[:0:0]
		for _, e := range c.Echoes {
			if e.Kind == s.Kind && e.Mbox == s.Mbox {
				continue
			}
			out = append(out, e)
		}
		c.Echoes = out
	}
	c.Echoes = append(c.Echoes, s)
}

// SetFault appends an answer for the next call of the given kind.
func (c *Conn) SetFault(kind, answer string) {
	c.mu.Lock()
	defer c.mu.Unlock()
	c.Faults[kind] = append(c.Faults[kind], answer)
}

var ErrInjected = errors.New("vconn: injected remote failure")

func (c *Conn) Init(ctx context.Context, cache connector.IMAPState) error { return nil }

func (c *Conn) Authorize(ctx context.Context, username string, password []byte) bool {
	if string(password) != string(c.Password) {
		return false
	}
	for _, u := range c.Usernames {
		if u == username {
			return true
		}
	}
	return false
}

func (c *Conn) mboxOf(id imap.MailboxID) imap.Mailbox {
	m := c.Mailboxes[id]
	return imap.Mailbox{ID: m.ID, Name: append([]string(nil), m.Name...), Flags: DefaultFlags, PermanentFlags: DefaultFlags, Attributes: imap.NewFlagSet()}
}

func (c *Conn) CreateMailbox(ctx context.Context, cache connector.IMAPStateWrite, name []string) (imap.Mailbox, error) {
	c.mu.Lock()
	defer c.mu.Unlock()
	c.Calls = append(c.Calls, "CreateMailbox "+strings.Join(name, "/"))
	if c.answer("CreateMailbox") != "ok" {
		return imap.Mailbox{}, ErrInjected
	}
	c.nextMbox++
	id := imap.MailboxID(fmt.Sprintf("mb%d", c.nextMbox))
	c.Mailboxes[id] = &RMailbox{ID: id, Name: append([]string(nil), name...)}
	c.pushEcho(Spec{Kind: "MailboxCreated", Mbox: string(id), Name: name})
	return c.mboxOf(id), nil
}

func (c *Conn) GetMessageLiteral(ctx context.Context, id imap.MessageID) ([]byte, error) {
	c.mu.Lock()
	defer c.mu.Unlock()
	c.Calls = append(c.Calls, "GetMessageLiteral "+string(id))
	m, ok := c.Messages[id]
	if !ok || c.noLiterals {
		return nil, errors.New("no such message")
	}
	return m.Literal, nil
}

func (c *Conn) GetMailboxVisibility(ctx context.Context, mboxID imap.MailboxID) imap.MailboxVisibility {
	c.mu.Lock()
	defer c.mu.Unlock()
	if v, ok := c.Visibility[mboxID]; ok {
		return v
	}
	return imap.Visible
}

func (c *Conn) UpdateMailboxName(ctx context.Context, cache connector.IMAPStateWrite, mboxID imap.MailboxID, newName []string) error {
	c.mu.Lock()
	defer c.mu.Unlock()
	c.Calls = append(c.Calls, "UpdateMailboxName "+string(mboxID)+" "+strings.Join(newName, "/"))
	if c.answer("UpdateMailboxName") != "ok" {
		return ErrInjected
	}
	if m, ok := c.Mailboxes[mboxID]; ok {
		m.Name = append([]string(nil), newName...)
	}
	c.pushEcho(Spec{Kind: "MailboxUpdated", Mbox: string(mboxID), Name: newName})
	return nil
}

func (c *Conn) DeleteMailbox(ctx context.Context, cache connector.IMAPStateWrite, mboxID imap.MailboxID) error {
	c.mu.Lock()
	defer c.mu.Unlock()
	c.Calls = append(c.Calls, "DeleteMailbox "+string(mboxID))
	if c.answer("DeleteMailbox") != "ok" {
		return ErrInjected
	}
	delete(c.Mailboxes, mboxID)
	for _, m := range c.Messages {
		delete(m.Mboxes, mboxID)
	}
	c.pushEcho(Spec{Kind: "MailboxDeleted", Mbox: string(mboxID)})
	return nil
}

func (c *Conn) msgSpec(kind string, id imap.MessageID) Spec {
	m := c.Messages[id]
	s := Spec{Kind: kind, Msg: string(id), Mboxes: []string{}, Flags: []string{}}
	for mb := range m.Mboxes {
		s.Mboxes = append(s.Mboxes, string(mb))
	}
	sort.Strings(s.Mboxes)
	s.Flags = append(s.Flags, m.Flags.ToSlice()...)
	sort.Strings(s.Flags)
	return s
}

func (c *Conn) CreateMessage(ctx context.Context, cache connector.IMAPStateWrite, mboxID imap.MailboxID, literal []byte, flags imap.FlagSet, date time.Time) (imap.Message, []byte, error) {
	c.mu.Lock()
	defer c.mu.Unlock()
	c.Calls = append(c.Calls, "CreateMessage "+string(mboxID))
	switch c.answer("CreateMessage") {
	case "fail":
		return imap.Message{}, nil, ErrInjected
	case "fail-size":
		return imap.Message{}, nil, connector.ErrMessageSizeExceedsLimits
	}
	c.nextMsg++
	id := imap.MessageID(fmt.Sprintf("rm%d", c.nextMsg))
	c.Messages[id] = &RMessage{ID: id, Literal: append([]byte(nil), literal...), Flags: flags.Clone(), Date: date, Mboxes: map[imap.MailboxID]bool{mboxID: true}}
	c.pushEcho(c.msgSpec("MessagesCreated", id))
	return imap.Message{ID: id, Flags: flags, Date: date}, literal, nil
}

func sorted(ids []imap.MessageID) []imap.MessageID {
	out := append([]imap.MessageID(nil), ids...)
	sort.Slice(out, func(i, j int) bool { return out[i] < out[j] })
	return out
}

func (c *Conn) AddMessagesToMailbox(ctx context.Context, cache connector.IMAPStateWrite, messageIDs []imap.MessageID, mboxID imap.MailboxID) error {
	c.mu.Lock()
	defer c.mu.Unlock()
	messageIDs = sorted(messageIDs)
	c.Calls = append(c.Calls, fmt.Sprintf("AddMessagesToMailbox %v %v", messageIDs, mboxID))
	if c.answer("AddMessagesToMailbox") != "ok" {
		return ErrInjected
	}
	for _, id := range messageIDs {
		if m, ok := c.Messages[id]; ok {
			m.Mboxes[mboxID] = true
			c.pushEcho(c.msgSpec("MessageMailboxesUpdated", id))
		}
	}
	return nil
}

func (c *Conn) RemoveMessagesFromMailbox(ctx context.Context, cache connector.IMAPStateWrite, messageIDs []imap.MessageID, mboxID imap.MailboxID) error {
	c.mu.Lock()
	defer c.mu.Unlock()
	messageIDs = sorted(messageIDs)
	c.Calls = append(c.Calls, fmt.Sprintf("RemoveMessagesFromMailbox %v %v", messageIDs, mboxID))
	if c.answer("RemoveMessagesFromMailbox") != "ok" {
		return ErrInjected
	}
	for _, id := range messageIDs {
		if m, ok := c.Messages[id]; ok {
			delete(m.Mboxes, mboxID)
			c.pushEcho(c.msgSpec("MessageMailboxesUpdated", id))
		}
	}
	return nil
}

func (c *Conn) MoveMessages(ctx context.Context, cache connector.IMAPStateWrite, messageIDs []imap.MessageID, mboxFromID, mboxToID imap.MailboxID) (bool, error) {
	c.mu.Lock()
	defer c.mu.Unlock()
	messageIDs = sorted(messageIDs)
	c.Calls = append(c.Calls, fmt.Sprintf("MoveMessages %v %v->%v", messageIDs, mboxFromID, mboxToID))
	ans := c.answer("MoveMessages")
	if ans == "fail" {
		return false, ErrInjected
	}
	for _, id := range messageIDs {
		if m, ok := c.Messages[id]; ok {
			if ans != "copied" {
				delete(m.Mboxes, mboxFromID)
			}
			m.Mboxes[mboxToID] = true
			c.pushEcho(c.msgSpec("MessageMailboxesUpdated", id))
		}
	}
	return ans != "copied", nil
}

func (c *Conn) mark(kind string, messageIDs []imap.MessageID, flag string, on bool) error {
	c.mu.Lock()
	defer c.mu.Unlock()
	messageIDs = sorted(messageIDs)
	c.Calls = append(c.Calls, fmt.Sprintf("%s %v %v", kind, messageIDs, on))
	if c.answer(kind) != "ok" {
		return ErrInjected
	}
	for _, id := range messageIDs {
		if m, ok := c.Messages[id]; ok {
			m.Flags.SetOnSelf(flag, on)
			c.pushEcho(c.msgSpec("MessageFlagsUpdated", id))
		}
	}
	return nil
}

func (c *Conn) MarkMessagesSeen(ctx context.Context, cache connector.IMAPStateWrite, messageIDs []imap.MessageID, seen bool) error {
	return c.mark("MarkMessagesSeen", messageIDs, imap.FlagSeen, seen)
}

func (c *Conn) MarkMessagesFlagged(ctx context.Context, cache connector.IMAPStateWrite, messageIDs []imap.MessageID, flagged bool) error {
	return c.mark("MarkMessagesFlagged", messageIDs, imap.FlagFlagged, flagged)
}

func (c *Conn) MarkMessagesForwarded(ctx context.Context, cache connector.IMAPStateWrite, messageIDs []imap.MessageID, forwarded bool) error {
	return c.mark("MarkMessagesForwarded", messageIDs, "$Forwarded", forwarded)
}

func (c *Conn) GetUpdates() <-chan imap.Update {
	c.mu.Lock()
	defer c.mu.Unlock()
	return c.updateCh
}

func (c *Conn) Close(ctx context.Context) error {
	c.mu.Lock()
	defer c.mu.Unlock()
	if !c.closed {
		c.closed = true
		close(c.quit)
	}
	return nil
}

// ---------------------------------------------------------------------------------------------------------------

// Build turns a spec into a fresh update object. It also applies the spec to the remote model where the spec
// describes a remote-originated change (Apply=true).
func (c *Conn) Build(s Spec) (imap.Update, error) {
	fl := imap.NewFlagSetFromSlice(s.Flags)
	mbs := make([]imap.MailboxID, 0, len(s.Mboxes))
	for _, m := range s.Mboxes {
		mbs = append(mbs, imap.MailboxID(m))
	}
	switch s.Kind {
	case "MailboxCreated":
		return imap.NewMailboxCreated(imap.Mailbox{ID: imap.MailboxID(s.Mbox), Name: s.Name, Flags: DefaultFlags, PermanentFlags: DefaultFlags, Attributes: imap.NewFlagSet()}), nil
	case "MailboxUpdated":
		return imap.NewMailboxUpdated(imap.MailboxID(s.Mbox), s.Name), nil
	case "MailboxDeleted":
		return imap.NewMailboxDeleted(imap.MailboxID(s.Mbox)), nil
	case "MailboxIDChanged":
		return imap.NewMailboxIDChanged(imap.InternalMailboxID(s.IntMbox), imap.MailboxID(s.NewID)), nil
	case "MessagesCreated":
		ids := s.Msgs
		keys := s.Keys
		if s.Msg != "" {
			ids = []string{s.Msg}
			keys = []string{s.Key}
		}
		var ms []*imap.MessageCreated
		for i, id := range ids {
			var lit []byte
			if s.Lit != "" {
				lit = []byte(s.Lit)
			} else if i < len(keys) && keys[i] != "" {
				lit = MakeLiteral(keys[i])
			} else if rm, ok := c.Messages[imap.MessageID(id)]; ok {
				lit = rm.Literal
			} else {
				lit = MakeLiteral(id)
			}
			pm, err := imap.NewParsedMessage(lit)
			if err != nil {
				return nil, err
			}
			ms = append(ms, &imap.MessageCreated{
				Message:       imap.Message{ID: imap.MessageID(id), Flags: fl.Clone(), Date: s.date()},
				Literal:       lit,
				MailboxIDs:    mbs,
				ParsedMessage: pm,
			})
		}
		return imap.NewMessagesCreated(s.Ignore, ms...), nil
	case "MessageMailboxesUpdated":
		return imap.NewMessageMailboxesUpdated(imap.MessageID(s.Msg), mbs, fl), nil
	case "MessageFlagsUpdated":
		return imap.NewMessageFlagsUpdated(imap.MessageID(s.Msg), fl), nil
	case "MessageDeleted":
		return imap.NewMessagesDeleted(imap.MessageID(s.Msg)), nil
	case "MessageIDChanged":
		iid, err := imap.InternalMessageIDFromString(s.IntID)
		if err != nil {
			return nil, err
		}
		return imap.NewMessageIDChanged(iid, imap.MessageID(s.NewID)), nil
	case "MessageUpdated":
		var lit []byte
		if s.Lit != "" {
			lit = []byte(s.Lit)
		} else if s.Key != "" {
			lit = MakeLiteral(s.Key)
		} else if rm, ok := c.Messages[imap.MessageID(s.Msg)]; ok {
			lit = rm.Literal
		} else {
			lit = MakeLiteral(s.Msg)
		}
		pm, err := imap.NewParsedMessage(lit)
		if err != nil {
			return nil, err
		}
		return imap.NewMessageUpdated(imap.Message{ID: imap.MessageID(s.Msg), Flags: fl, Date: s.date()}, lit, mbs, pm, s.Allow), nil
	case "UIDValidityBumped":
		return imap.NewUIDValidityBumped(), nil
	case "Noop":
		return imap.NewNoop(), nil
	}
	return nil, fmt.Errorf("vconn: unknown spec kind %q", s.Kind)
}

// NoteRemote records a remote-originated change in the remote model (so GetMessageLiteral etc. agree).
func (c *Conn) NoteRemote(s Spec) {
	c.mu.Lock()
	defer c.mu.Unlock()
	switch s.Kind {
	case "MailboxCreated":
		c.Mailboxes[imap.MailboxID(s.Mbox)] = &RMailbox{ID: imap.MailboxID(s.Mbox), Name: s.Name}
	case "MailboxUpdated":
		if m, ok := c.Mailboxes[imap.MailboxID(s.Mbox)]; ok {
			m.Name = s.Name
		}
	case "MailboxDeleted":
		delete(c.Mailboxes, imap.MailboxID(s.Mbox))
	case "MessagesCreated", "MessageUpdated":
		ids, keys := s.Msgs, s.Keys
		if s.Msg != "" {
			ids, keys = []string{s.Msg}, []string{s.Key}
		}
		for i, id := range ids {
			lit := MakeLiteral(id)
			if s.Lit != "" {
				lit = []byte(s.Lit)
			} else if i < len(keys) && keys[i] != "" {
				lit = MakeLiteral(keys[i])
			}
			rm, ok := c.Messages[imap.MessageID(id)]
			if !ok {
				rm = &RMessage{ID: imap.MessageID(id), Mboxes: map[imap.MailboxID]bool{}}
				c.Messages[imap.MessageID(id)] = rm
				rm.Literal = lit
			} else if s.Kind == "MessageUpdated" {
				rm.Literal = lit
			}
			rm.Flags = imap.NewFlagSetFromSlice(s.Flags)
			if s.Kind == "MessageUpdated" {
				rm.Mboxes = map[imap.MailboxID]bool{}
			}
			for _, mb := range s.Mboxes {
				rm.Mboxes[imap.MailboxID(mb)] = true
			}
		}
	case "MessageMailboxesUpdated":
		if rm, ok := c.Messages[imap.MessageID(s.Msg)]; ok {
			rm.Mboxes = map[imap.MailboxID]bool{}
			for _, mb := range s.Mboxes {
				rm.Mboxes[imap.MailboxID(mb)] = true
			}
			rm.Flags = imap.NewFlagSetFromSlice(s.Flags)
		}
	case "MessageFlagsUpdated":
		if rm, ok := c.Messages[imap.MessageID(s.Msg)]; ok {
			rm.Flags = imap.NewFlagSetFromSlice(s.Flags)
		}
	case "MessageDeleted":
		delete(c.Messages, imap.MessageID(s.Msg))
	}
}

// Result of injecting one update.
type InjectResult struct {
	Err      string // error text ("" = success)
	Done     bool   // waiter completed
	TimedOut bool
}

// Inject sends one update through the connector channel and waits for its waiter.
func (c *Conn) Inject(u imap.Update, timeout time.Duration) InjectResult {
	c.mu.Lock()
	ch := c.updateCh
	quit := c.quit
	closed := c.closed
	c.mu.Unlock()
	if closed {
		return InjectResult{Err: "connector closed"}
	}
	ctx, cancel := context.WithTimeout(context.Background(), timeout)
	defer cancel()
	select {
	case ch <- u:
	case <-quit:
		return InjectResult{Err: "connector closed"}
	case <-ctx.Done():
		return InjectResult{TimedOut: true}
	}
	// the server stops reading updates when the user is removed / the server closed: an update that is still in the
	// channel then is never acknowledged, which is not the server's fault
	done := make(chan struct{})
	var err error
	var ok bool
	go func() { err, ok = u.WaitContext(ctx); close(done) }()
	select {
	case <-done:
	case <-quit:
		cancel()
		<-done
		return InjectResult{Err: "connector closed"}
	}
	if ctx.Err() != nil {
		return InjectResult{TimedOut: true}
	}
	res := InjectResult{Done: true}
	if ok && err != nil {
		res.Err = err.Error()
	}
	return res
}

// PopEcho removes and returns the k-th pending echo.
func (c *Conn) PopEcho(k int) (Spec, bool) {
	c.mu.Lock()
	defer c.mu.Unlock()
	if k < 0 || k >= len(c.Echoes) {
		return Spec{}, false
	}
	s := c.Echoes[k]
	c.Echoes = append(c.Echoes[:k:k], c.Echoes[k+1:]...)
	return s, true
}

func (c *Conn) ClearEchoes() {
	c.mu.Lock()
	defer c.mu.Unlock()
	c.Echoes = nil
}

// Canon renders the remote model deterministically.
func (c *Conn) Canon() string {
	c.mu.Lock()
	defer c.mu.Unlock()
	var mb []string
	for id, m := range c.Mailboxes {
		mb = append(mb, string(id)+"="+strings.Join(m.Name, "/"))
	}
	sort.Strings(mb)
	var ms []string
	for id, m := range c.Messages {
		var in []string
		for b := range m.Mboxes {
			in = append(in, string(b))
		}
		sort.Strings(in)
		fl := m.Flags.ToSlice()
		sort.Strings(fl)
		ms = append(ms, fmt.Sprintf("%s in %v fl %v", id, in, fl))
	}
	sort.Strings(ms)
	var ec []string
	for _, e := range c.Echoes {
		ec = append(ec, e.String())
	}
	var fk []string
	for k, v := range c.Faults {
		if len(v) > 0 {
			fk = append(fk, k+":"+strings.Join(v, ","))
		}
	}
	sort.Strings(fk)
	return fmt.Sprintf("mb%v ms%v echo%v faults%v", mb, ms, ec, fk)
}

// ForgetLiterals makes GetMessageLiteral fail for every message from now on (the remote model keeps ids and flags).
func (c *Conn) ForgetLiterals() {
	c.mu.Lock()
	defer c.mu.Unlock()
	c.noLiterals = true
}
