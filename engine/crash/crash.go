// Package crash makes every message-store call and every database interface call / commit a numbered step, at which
// the process can be killed or the step made to fail (C07).
package crash

import (
	"context"
	"errors"
	"fmt"
	"io"
	"os"
	"reflect"
	"runtime"
	"strings"
	"sync"
	"syscall"

	"github.com/ProtonMail/gluon/db"
	"github.com/ProtonMail/gluon/imap"
	"github.com/ProtonMail/gluon/store"
)

var ErrInjected = errors.New("crash: injected step failure")

// Gated is a goroutine parked at the start of a database transaction (transaction-level scheduling, C17).
type Gated struct {
	Name   string
	GID    int64  // goroutine that is parked (only with Hook.Track)
	Frame  string // innermost gluon frames of the parked goroutine (only with Hook.Track)
	Parent int64  // goroutine that created the parked one (0 if unknown)
	ch     chan struct{}
}

// Release lets the parked transaction proceed.
func (g *Gated) Release() { close(g.ch) }

type Hook struct {
	// GateOn: when set, every Read / Write of the database client parks at its start until released.
	GateOn bool
	// Track: record the goroutine id (and, when parking, the gluon frames) of every transaction start.
	Track      bool
	LastGID    int64
	LastParent int64
	pending    []*Gated
	mu         sync.Mutex
	Enabled    bool
	Mode       string // "count" | "kill" | "error"
	At         int    // 1-based step at which to act
	N          int    // steps seen while enabled
	Names      []string
	Fired      bool
}

func init() {
	if n := reflect.TypeOf((*db.ReadOnly)(nil)).Elem().NumMethod(); n != NumReadOnlyMethods {
		panic(fmt.Sprintf("crash: db.ReadOnly has %d methods, generated wrapper covers %d (re-run tools/gendbwrap)", n, NumReadOnlyMethods))
	}
	if n := reflect.TypeOf((*db.Transaction)(nil)).Elem().NumMethod(); n != NumTransactionMethods {
		panic(fmt.Sprintf("crash: db.Transaction has %d methods, generated wrapper covers %d (re-run tools/gendbwrap)", n, NumTransactionMethods))
	}
}

// Step is called before every hooked operation.
func (h *Hook) Step(name string) error {
	h.mu.Lock()
	defer h.mu.Unlock()
	if !h.Enabled {
		return nil
	}
	h.N++
	h.Names = append(h.Names, name)
	if h.N != h.At || h.Fired {
		return nil
	}
	switch h.Mode {
	case "kill":
		h.Fired = true
		_ = os.Stdout.Sync()
		_ = syscall.Kill(os.Getpid(), syscall.SIGKILL)
		select {} // never returns
	case "error":
		h.Fired = true
		return fmt.Errorf("%w at step %d (%s)", ErrInjected, h.N, name)
	}
	return nil
}

func (h *Hook) Arm(mode string, at int) {
	h.mu.Lock()
	defer h.mu.Unlock()
	h.Enabled, h.Mode, h.At, h.N, h.Names, h.Fired = true, mode, at, 0, nil, false
}

func (h *Hook) Disarm() (int, []string) {
	h.mu.Lock()
	defer h.mu.Unlock()
	h.Enabled = false
	return h.N, h.Names
}

// ---------------------------------------------------------------------------------------------------------------

type clientWrap struct {
	db.Client
	h *Hook
}

// gate parks the calling goroutine until the explorer releases it.
func (h *Hook) gate(name string) {
	h.mu.Lock()
	var gid int64
	var frame string
	var parent int64
	if h.Track {
		gid, frame, parent = whoAmI()
		h.LastGID, h.LastParent = gid, parent
	}
	if !h.GateOn {
		h.mu.Unlock()
		return
	}
	g := &Gated{Name: name, GID: gid, Frame: frame, Parent: parent, ch: make(chan struct{})}
	h.pending = append(h.pending, g)
	h.mu.Unlock()
	<-g.ch
}

// whoAmI returns the id of the calling goroutine, the gluon functions on its stack (innermost first) and the id
// of the goroutine that created it.
func whoAmI() (int64, string, int64) {
	buf := make([]byte, 32768)
	buf = buf[:runtime.Stack(buf, false)]
	var gid, parent int64
	_, _ = fmt.Sscanf(string(buf), "goroutine %d ", &gid)
	var fs []string
	for _, ln := range strings.Split(string(buf), "\n") {
		if strings.HasPrefix(ln, "created by ") {
			if i := strings.LastIndex(ln, " in goroutine "); i > 0 {
				_, _ = fmt.Sscanf(ln[i:], " in goroutine %d", &parent)
			}
			continue
		}
		if strings.HasPrefix(ln, "github.com/ProtonMail/gluon") {
			if i := strings.LastIndex(ln, "("); i > 0 {
				ln = ln[:i]
			}
			fs = append(fs, strings.TrimPrefix(ln, "github.com/ProtonMail/gluon"))
		}
	}
	return gid, strings.Join(fs, " < "), parent
}

// SetGate switches transaction gating on or off; switching it off releases everything that is parked.
func (h *Hook) SetGate(on bool) {
	h.mu.Lock()
	h.GateOn = on
	p := h.pending
	if !on {
		h.pending = nil
	}
	h.mu.Unlock()
	if !on {
		for _, g := range p {
			g.Release()
		}
	}
}

// TakePending removes and returns the parked transactions that have arrived so far.
func (h *Hook) TakePending() []*Gated {
	h.mu.Lock()
	defer h.mu.Unlock()
	p := h.pending
	h.pending = nil
	return p
}

func (c clientWrap) Read(ctx context.Context, op func(context.Context, db.ReadOnly) error) error {
	c.h.gate("READ")
	return c.Client.Read(ctx, func(ctx context.Context, ro db.ReadOnly) error {
		return op(ctx, roWrap{ReadOnly: ro, h: c.h})
	})
}

func (c clientWrap) Write(ctx context.Context, op func(context.Context, db.Transaction) error) error {
	c.h.gate("WRITE")
	err := c.Client.Write(ctx, func(ctx context.Context, tx db.Transaction) error {
		if err := op(ctx, txWrap{Transaction: tx, h: c.h}); err != nil {
			return err
		}
		return c.h.Step("db.COMMIT")
	})
	if err == nil {
		_ = c.h.stepKillOnly("db.after-COMMIT")
	}
	return err
}

// stepKillOnly is a boundary at which only the kill mode acts (an error cannot be returned from here).
func (h *Hook) stepKillOnly(name string) error {
	h.mu.Lock()
	mode := h.Mode
	h.mu.Unlock()
	if mode == "error" {
		h.mu.Lock()
		if h.Enabled {
			h.N++
			h.Names = append(h.Names, name)
		}
		h.mu.Unlock()
		return nil
	}
	return h.Step(name)
}

type CI struct {
	Inner db.ClientInterface
	H     *Hook
}

func (ci CI) New(path string, userID string) (db.Client, bool, error) {
	c, isNew, err := ci.Inner.New(path, userID)
	if err != nil {
		return nil, false, err
	}
	return clientWrap{Client: c, h: ci.H}, isNew, nil
}

func (ci CI) Delete(path string, userID string) error { return ci.Inner.Delete(path, userID) }

// ---------------------------------------------------------------------------------------------------------------

type storeWrap struct {
	inner store.Store
	h     *Hook
}

func (s storeWrap) Get(id imap.InternalMessageID) ([]byte, error) {
	if err := s.h.Step("store.Get"); err != nil {
		return nil, err
	}
	return s.inner.Get(id)
}

func (s storeWrap) Set(id imap.InternalMessageID, r io.Reader) error {
	if err := s.h.Step("store.Set"); err != nil {
		return err
	}
	return s.inner.Set(id, r)
}

func (s storeWrap) Delete(ids ...imap.InternalMessageID) error {
	if err := s.h.Step("store.Delete"); err != nil {
		return err
	}
	return s.inner.Delete(ids...)
}

func (s storeWrap) List() ([]imap.InternalMessageID, error) {
	if err := s.h.Step("store.List"); err != nil {
		return nil, err
	}
	return s.inner.List()
}

func (s storeWrap) Close() error { return s.inner.Close() }

type StoreBuilder struct {
	Inner store.Builder
	H     *Hook
}

func (b StoreBuilder) New(dir, userID string, passphrase []byte) (store.Store, error) {
	st, err := b.Inner.New(dir, userID, passphrase)
	if err != nil {
		return nil, err
	}
	return storeWrap{inner: st, h: b.H}, nil
}

func (b StoreBuilder) Delete(dir, userID string) error { return b.Inner.Delete(dir, userID) }
