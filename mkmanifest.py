#!/usr/bin/env python3
# Generates MANIFEST.json from the table below (single source of truth for the check registry).
import json
HOOKS = ["d9dd131", "17b43f7", "cff2827"]
checks = {
 "C03": dict(level="model_checking", engine="E1",
   text="Exhaustive BFS over command histories (APPEND incl. \\Deleted, STORE +/-/=, EXPUNGE, UID EXPUNGE, CLOSE+SELECT, COPY/MOVE to the same / another / an already-holding mailbox, from two sessions) of the real server against a Go reference model (flags shared per message, \\Deleted per mailbox, re-add at end); after EVERY transition every mailbox is read through a fresh EXAMINE session (order, flags, exact bytes) and compared with the model; NO/BAD must leave everything unchanged.",
   note="Bounds: 2 sessions, 3 mailboxes, 4 initial messages, depth 3 (quick) / 5 (thorough) per family. Each command is preceded by NOOP so that sequence numbers refer to the current mailbox (stale views are C01/C02/C05's subject). The statement-batching-limit grid is part of C08.",
   technique="explicit-state BFS over command histories of the implementation against a reference model", design="3/C03"),
 "C17": dict(level="model_checking", engine="E1",
   text="Exhaustive BFS, per limit configuration (max mailboxes / messages per mailbox / UID), over histories of APPEND, multi-message COPY and MOVE, CREATE with implicit parents, RENAME creating superiors, EXPUNGE and connector batches / mailbox creations that approach the limits from below, on the real server; after every transition: no maximum exceeded, a refused operation left every targeted mailbox exactly as before (all-or-nothing), and an operation that fits every limit with a margin of one was accepted.",
   note="Sequential histories (2 sessions issue commands one at a time). Concurrent approaches to a limit (check-then-act across transactions) are not explored by this check; see DESIGN.md.",
   technique="explicit-state BFS over event histories of the implementation per limit configuration", design="3/C17"),
 "C18": dict(level="model_checking", engine="E1",
   text="Exhaustive BFS over command sequences (one representative of every command incl. UID forms, APPEND and IDLE, five LOGIN variants; 39 events) of one session on a real two-user server: a command×state table decides which commands must be refused; refused commands must leave both users' mailboxes unchanged; an authenticated session never changes, selects or lists anything of the other user; wrong credentials never authenticate. The jail clause enumerates all 4-attempt login sequences with three consecutive failures and checks a lower bound on the reply time.",
   note="Bounds: depth 4 (quick) / 6 (thorough); STARTTLS not exercised. The jail oracle is a lower bound measured from the SENDING of the third failure, so scheduling delay cannot cause an alarm.",
   technique="explicit-state BFS over command sequences of the implementation against a state/permission table", design="3/C18"),
 "C20": dict(level="model_checking", engine="E1",
   text="Exhaustive BFS over histories of APPEND (same and different bytes, to INBOX / another mailbox / the recovery mailbox), explorer-chosen remote answers (create-message ok / fail / fail-size) bounded by a deviation count, COPY/MOVE out of the recovery mailbox, EXPUNGE there, forbidden namespace operations on it (mixed case), LIST and server RESTART; after every transition: OK => message in the target under the announced UID, non-size NO => exact bytes in the recovery mailbox once per distinct message, the recovery mailbox is listed iff non-empty, forbidden operations refused.",
   note="Bounds: depth 4 / 5, at most 2 / 3 injected remote failures per history.",
   technique="explicit-state BFS over event histories with a fault alphabet (deviation-bounded)", design="3/C20"),
 "C07": dict(level="fault_enumeration", engine="CRASH",
   text="For every operation (APPEND, COPY, MOVE, STORE, EXPUNGE, CREATE, DELETE, RENAME incl. INBOX, SUBSCRIBE/UNSUBSCRIBE, connector batch creation / message replacement / deletion / move, logout purging a message marked for deletion) the message store and the database interface of a real server are wrapped (wrappers generated from /repo/db/ops*.go at build time, all 69 methods) so that every store call, every database call, every commit and the point right after it is a numbered step; for EVERY step the process is SIGKILLed or the step returns an error; the server is then restarted in another process on the same directories and each mailbox must be in the state before or after the operation (after, if the client saw OK), every listed message must have its exact bytes, no message that exists before and after may vanish, no unreferenced cache file or deletion mark may remain, and a failing step must not kill or wedge the server.",
   note="Process death and failing steps are enumerated; power loss (dropped unsynced pages) is not. Quick: 7 operations (one per mechanism); thorough: all 16.",
   technique="exhaustive crash-point / failing-step enumeration with restart in a fresh process", design="3/C07"),
 "C08": dict(level="model_checking", engine="ENUM",
   text="The real SQLite index is driven through the public db interface against an in-memory relational model: all 69 methods over tiny argument domains, ALL committed operation sequences of length <=2 (quick) / <=3-4 (thorough) over a 146-instance write alphabet from 4 seed states with result and full read-back (all 40 read methods) compared after every operation; every operation and in-transaction pair additionally aborted (read-back must equal the pre-state); every list-valued argument at lengths {0,1,2,L/2-1..L/2+1,L-1..L+1,2L-1..2L+1} around the statement-batching limit L.",
   note="Out-of-precondition calls (unknown ids, adding twice, ...) accept 'error without trace' or 'model effect'. A reflection check makes the run an engine error if the harness stops covering exactly the interface's methods.",
   technique="explicit-state exploration of operation sequences of the implementation against a relational reference model", design="3/C08"),
 "C09": dict(level="fault_enumeration", engine="ENUM",
   text="Bounded-exhaustive enumeration on the real store: every size around every multiple of the cipher block size x compressibility x scenario (fresh, overwrite, neighbour untouched, delete, list, failing writer), and for reference files EVERY truncation length and EVERY single-byte alteration, block-level operations and foreign passphrases; oracle: Get returns exactly the stored bytes or an error.",
   note="Sequential part only so far (the interleaving part is listed in DESIGN.md as pending). crypto/rand is pinned while base files are written so that files are byte-identical in every run.",
   technique="exhaustive enumeration of sizes and of all single-fault corruptions of stored files", design="3/C09"),
 "C10": dict(level="exploration", engine="ENUM",
   text="A generator derived from the RFC 3501/2971/4315/6851/2177/3691 grammar builds the expected command.Command and its wire text together for every supported command; all ATOM-CHAR classes, every legal string encoding (atom/quoted/literal), sequence sets <=3, flag lists, all fetch attributes / sections / partials, search trees to depth 2 (3 over representatives), date grids, keyword letter cases, and every chunking of the byte stream (whole, byte-wise, every 2-way split, 3-way splits for short commands in thorough) are parsed through the production reader stack; oracle reflect.DeepEqual(parsed, expected).",
   note="Parser level (imap/command.Parser through bufio + InputCollector + Scanner with the literal-continuation callback). 20M evaluations quick, ~300M thorough.",
   technique="bounded-exhaustive enumeration of grammar derivations x encodings x stream chunkings against a constructed expected value", design="3/C10"),
 "C13": dict(level="exploration", engine="ENUM",
   text="Messages generated with byte offsets known by construction (all MIME trees of depth <=2 over text/plain, text/html, octet-stream, message/rfc822; folded / duplicate / empty-valued headers; LF-only; 8-bit; sizes across the store's block boundaries) are APPENDed to a real server and EVERY section spec is fetched: [], HEADER, TEXT, every part path and one past each end, .MIME/.HEADER/.TEXT, HEADER.FIELDS / .NOT for every subset of <=2 fields, RFC822*, and partials over an offset/length grid incl. 2^63-1; oracle from the generator's offsets; a strict response parser enforces literal framing.",
   note="The connector's copy of each message is dropped after APPEND so that a store read error cannot be healed by a silent re-download. Choices the RFC leaves open are accepted (listed in the evidence).",
   technique="bounded-exhaustive enumeration of (message shape, section spec) pairs against offsets known by construction", design="3/C13"),
 "C14": dict(level="model_checking", engine="E1",
   text="Exhaustive BFS over histories of CREATE / DELETE / RENAME / SUBSCRIBE / UNSUBSCRIBE from two sessions and connector mailbox updates on the real server against a reference hierarchy model (implicit parents, inferiors carried by RENAME, INBOX rules, protected recovery mailbox, deleted subscriptions); after every transition the server's namespace must equal the model, refusals required by the rules must happen, and on every reached state LIST and LSUB for every pattern over {%,*,a,b,delimiter,.} up to the reported length x 3 references are compared with an RFC 3501 matcher (\\Noselect for names that exist only as parents).",
   note="Bounds: names of depth <=3, depth 2 (quick) / 4 (thorough), delimiters / and . (quick) plus \\ | ] ^ (thorough).",
   technique="explicit-state BFS over namespace histories of the implementation against a reference model, with a LIST/LSUB matcher check-extension on every state", design="3/C14"),
 "C15": dict(level="exploration", engine="ENUM",
   text="All search-key trees of depth <=2 over 49 key instances (NOT, OR, juxtaposition, parenthesised lists), depth-3 shapes over representatives, SEARCH and UID SEARCH, quoted/literal/charset encodings, against fresh / stale (unannounced expunge) / pending (unannounced arrival) views of a real server; a reference evaluator over the session's own rows decides the expected result for every expression.",
   note="Finite key/argument alphabet over a 5-message fixture; internal dates at 12:00 UTC so that time-zone interpretation is not judged.",
   technique="bounded-exhaustive enumeration of search expressions against a reference evaluator", design="3/C15"),
 "C16": dict(level="exploration", engine="ENUM",
   text="Every message set over the number alphabet {1,2,3,n,n+1,2^31,2^32-1,2^32,2^32+1,2^63-1,2^63,2^64+1,*} (singles, ranges, unions, overlapping triples) against views of size 0/1/3 with UID gaps, in FETCH, STORE, SEARCH, COPY, MOVE, UID EXPUNGE and their UID forms on a real server; expected selection computed by an RFC 3501 resolver as a set; beyond-count numbers must give BAD.",
   note="'*' in an empty mailbox and UID n:* above the highest UID are not judged; UIDs >= 2^32 may be refused.",
   technique="bounded-exhaustive enumeration of message sets against an RFC 3501 resolver", design="3/C16"),
 "C02": dict(level="model_checking", engine="E1",
   text="Same transition system as C01 (real server, explicit update delivery). On EVERY reached state the check-extension QUIESCE delivers all held updates to all sessions (real ApplyUpdate), issues NOOP and compares the session's rows with a freshly opened EXAMINE session (UID order and flags, \\Recent ignored). Because the extension runs after every prefix, every placement of the observer's flushes relative to the other parties' steps within the depth is covered.",
   note="Bounds as C01 plus a connector-heavy family. Known findings (ordering defect when a session acts on a message while an older update about it is undelivered) are listed in known_findings.json and matched by discrepancy class + the stale-own-action witness, so other convergence failures are still reported.",
   technique="explicit-state BFS over event histories of the implementation with a quiescence check-extension on every state", design="3/C02"),
 "C04": dict(level="model_checking", engine="E1",
   text="Exhaustive BFS over histories of appends, copies, moves, expunge of the highest UID, failing commands, mailbox delete/re-create, renames, connector additions, UIDVALIDITY bumps and server RESTARTs on the real server; the oracle state carried along every path (UID -> message per mailbox name and UIDVALIDITY, highest UID ever assigned, last UIDNEXT, UIDVALIDITY history per name) is checked after every transition through a fresh session, and APPENDUID/COPYUID announcements are compared with what a fresh session finds.",
   note="Bounds: 2 sessions, 2-3 mailboxes, depth 3 (quick) / 5 (thorough) over a 17-event alphabet. UIDVALIDITY values come from a harness-owned persistent counter (decides gluon's plumbing); the clock-based generator's interleavings are a separate scheduler check (see DESIGN.md).",
   technique="explicit-state BFS over event histories of the implementation with a history-carrying oracle", design="3/C04"),
 "C06": dict(level="model_checking", engine="E1",
   text="Exhaustive BFS over lists of connector updates (every kind x valid / unknown id / protected mailbox / duplicate, ~45 instances) interleaved with client commands and echo deliveries on the real server; every update must be acknowledged (a second Done would panic and kill the worker), a following Noop must still be processed, a valid update's effect on fresh views must equal the reference semantics, and on every reached state every restatement of the current state (echo of the last client action, duplicate of the last update, updates synthesised from the state) must be invisible: no EXISTS/EXPUNGE/FETCH and identical fresh views incl. UIDs.",
   note="Bounds: 1 observer, 2-3 mailboxes, depth 3 (quick) / 4 (thorough) per family. Updates that refer to unknown, protected or deleted ids are judged for acknowledgement and liveness only; if such an update is accepted with an effect, effects are no longer compared on that path.",
   technique="explicit-state BFS over update histories of the implementation against reference update semantics, with a replay check-extension on every state", design="3/C06"),
 "C05": dict(level="model_checking", engine="E1",
   text="Exhaustive BFS over removal-heavy histories (connector/other-session removals, re-adds, moves out and back) with the observer's next command ranging over every command kind; a wire monitor checks that no EXPUNGE arrives inside FETCH/STORE/SEARCH (incl. UID forms), that held-back removals are flagged with [EXPUNGEISSUED], that after every permitting command no delivered removal is left unannounced, and (through the mirror and the quiescence oracle) that remove/re-add pairs are announced in order.",
   note="Bounds: <=3 sessions, 2 mailboxes, depth 4/6. Held-back removals are read from the responder queue through the verif dump hook.",
   technique="explicit-state BFS over event histories of the implementation with a wire monitor", design="3/C05"),
 "C01": dict(level="model_checking", engine="E1",
   text="Exhaustive explicit-state search (BFS, canonical-state hashing) over all event histories up to the reported depth of the real server: session commands, connector updates and explicit delivery of every queued state update; on every reached state a client-side mirror built only from untagged EXISTS/EXPUNGE/FETCH is compared with the server's own answer (probe). Bounded model checking of the implementation is the right level because the property quantifies over histories and delivery schedules, which are finite once delivery is an explicit event.",
   note="Bounds: <=3 sessions, 2 mailboxes, 3 initial messages, depth 4 (quick) / 6 (thorough) per alphabet family, union alphabet to depth 2/4. Trusted: verif hold/deliver hooks (build tag verif) faithfully replace the Go select between update queue and command channel; \\Recent not compared.",
   technique="explicit-state BFS over event histories of the implementation (replay-based successors, hashed canonical states)", design="3/C01"),
}
na = {
}
allids = ["C%02d" % i for i in range(1, 21)]
m = {
 "version": 1,
 "setup_cmd": "./setup.sh",
 "hooks": {
   "guard": "verif",
   "enable": "go build -tags verif (hooks in internal/state/verif_on.go, internal/backend/backend_verif.go, verif_export.go; call sites in internal/state/state.go compile to no-ops without the tag)",
   "baseline_off_cmd": "cd /repo && go test -mod=mod -json -vet=off -count=1 -timeout 25m ./...",
   "source_commits": HOOKS,
   "add_only": True,
 },
 "engines": [
   {"name": "ENUM", "path": "checks/enum.go", "serves_properties": [k for k,v in checks.items() if v["engine"]=="ENUM"], "kind_free_text": "bounded-exhaustive enumeration of inputs / faults, executed in worker child processes against the real code; a chunk whose worker dies is bisected to the single case"},
   {"name": "CRASH", "path": "engine/crash + scen/crash07 + tools/gendbwrap", "serves_properties": ["C07"], "kind_free_text": "step-boundary enumeration: generated wrappers make every store / db-interface call and commit a numbered step; each (operation, step, kill|error) runs in a child process and is checked after a restart in another process"},
   {"name": "E1", "path": "engine/explore", "serves_properties": [k for k,v in checks.items() if v["engine"]=="E1"], "kind_free_text": "explicit-state BFS over event histories of a real gluon.Server (in-memory listener, harness connector, hold/deliver hooks); successors by replay in worker child processes; canonical-state hashing; violations re-run 5x and delta-minimised"},
 ],
 "checks": [],
 "not_applicable": [],
 "notes": "All checks: ./check <id> <tier>. Known findings: known_findings.json. See DESIGN.md.",
}
for pid in allids:
    if pid in checks:
        c = checks[pid]
        m["checks"].append({
          "property_id": pid,
          "quick_cmd": "./check %s quick" % pid,
          "thorough_cmd": "./check %s thorough" % pid,
          "evidence_file": "/verif/evidence/%s.json" % pid,
          "replay_cmd_template": "./replay {path}",
          "engine": c["engine"],
          "level_claimed": {"category": c["level"], "text": c["text"], "design_ref": c["design"]},
          "level_note": c["note"],
          "technique": c["technique"],
        })
    else:
        m["not_applicable"].append({"property_id": pid, "reason": na.get(pid, "check not built yet in this round (planned, see DESIGN.md section 3)")})
json.dump(m, open("/verif/MANIFEST.json", "w"), indent=1)
print("wrote MANIFEST.json:", len(m["checks"]), "checks,", len(m["not_applicable"]), "not applicable")
