//go:build sch

// Package vtime mirrors the parts of package time used by the UIDVALIDITY generator; Now is answered by the
// explorer through a harness-installed clock.
package vtime

import (
	"time"

	"github.com/ProtonMail/gluon/verifshim/sched"
)

type Time = time.Time
type Duration = time.Duration
type Month = time.Month

var UTC = time.UTC

const (
	Second = time.Second
)

func Date(year int, month Month, day, hour, min, sec, nsec int, loc *time.Location) Time {
	return time.Date(year, month, day, hour, min, sec, nsec, loc)
}

// Clock is installed by the harness: it is called (as a scheduling point) for every Now under an exploration.
var Clock func() time.Time

func Now() Time {
	if s := sched.Active(); s != nil && Clock != nil {
		s.Point("time.Now", nil)
		return Clock()
	}
	return time.Now()
}
