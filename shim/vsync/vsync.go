//go:build sch

// Package vsync mirrors the parts of package sync that gluon uses. Under an active exploration every blocking
// operation is a scheduling point with model-level lock state (so enabledness is computed, never observed);
// outside an exploration the real primitives are used.
package vsync

import (
	"sync"

	"github.com/ProtonMail/gluon/verifshim/sched"
)

type Locker = sync.Locker
type Once = sync.Once
type Map = sync.Map

type Mutex struct {
	real   sync.Mutex
	locked bool
}

func (m *Mutex) Lock() {
	if s := sched.Active(); s != nil && s.Point("Mutex.Lock", func() bool { return !m.locked }) {
		m.locked = true
		return
	}
	m.real.Lock()
}

func (m *Mutex) Unlock() {
	if s := sched.Active(); s != nil && m.locked {
		m.locked = false
		return
	}
	m.real.Unlock()
}

func (m *Mutex) TryLock() bool {
	if s := sched.Active(); s != nil && s.Point("Mutex.TryLock", nil) {
		if m.locked {
			return false
		}
		m.locked = true
		return true
	}
	return m.real.TryLock()
}

type RWMutex struct {
	real    sync.RWMutex
	writer  bool
	readers int
	model   bool
}

func (m *RWMutex) Lock() {
	if s := sched.Active(); s != nil && s.Point("RWMutex.Lock", func() bool { return !m.writer && m.readers == 0 }) {
		m.writer, m.model = true, true
		return
	}
	m.real.Lock()
}

func (m *RWMutex) Unlock() {
	if s := sched.Active(); s != nil && m.model && m.writer {
		m.writer = false
		return
	}
	m.real.Unlock()
}

func (m *RWMutex) RLock() {
	if s := sched.Active(); s != nil && s.Point("RWMutex.RLock", func() bool { return !m.writer }) {
		m.readers++
		m.model = true
		return
	}
	m.real.RLock()
}

func (m *RWMutex) RUnlock() {
	if s := sched.Active(); s != nil && m.model && m.readers > 0 {
		m.readers--
		return
	}
	m.real.RUnlock()
}

type WaitGroup struct {
	real sync.WaitGroup
	n    int
	used bool
}

func (w *WaitGroup) Add(d int) {
	if sched.Active() != nil {
		w.n += d
		w.used = true
		return
	}
	w.real.Add(d)
}

func (w *WaitGroup) Done() { w.Add(-1) }

func (w *WaitGroup) Wait() {
	if s := sched.Active(); s != nil && s.Point("WaitGroup.Wait", func() bool { return w.n <= 0 }) {
		return
	}
	if w.used {
		return
	}
	w.real.Wait()
}

type Cond struct {
	L       Locker
	real    *sync.Cond
	waiters []*waiter
}

type waiter struct{ woken bool }

func NewCond(l Locker) *Cond { return &Cond{L: l, real: sync.NewCond(l)} }

func (c *Cond) Wait() {
	if s := sched.Active(); s != nil {
		w := &waiter{}
		c.waiters = append(c.waiters, w)
		c.L.Unlock()
		if s.Point("Cond.Wait", func() bool { return w.woken }) {
			c.L.Lock()
			return
		}
		// not a scheduled goroutine: fall through to the real primitive is impossible here (lock state is
		// modelled); treat as woken
		c.L.Lock()
		return
	}
	c.real.Wait()
}

func (c *Cond) Signal() {
	if sched.Active() != nil {
		for _, w := range c.waiters {
			if !w.woken {
				w.woken = true
				break
			}
		}
		c.prune()
		return
	}
	c.real.Signal()
}

func (c *Cond) Broadcast() {
	if sched.Active() != nil {
		for _, w := range c.waiters {
			w.woken = true
		}
		c.waiters = nil
		return
	}
	c.real.Broadcast()
}

func (c *Cond) prune() {
	var out []*waiter
	for _, w := range c.waiters {
		if !w.woken {
			out = append(out, w)
		}
	}
	c.waiters = out
}

// Pool: whether Get hands back a pooled object or a fresh one is an explorer choice (in the real sync.Pool it
// depends on per-P caches and the garbage collector).
type Pool struct {
	New   func() any
	items []any
	real  sync.Pool
}

func (p *Pool) Get() any {
	if s := sched.Active(); s != nil {
		if len(p.items) > 0 {
			if s.Choose("Pool.Get(pooled|fresh)", 2) == 0 {
				x := p.items[len(p.items)-1]
				p.items = p.items[:len(p.items)-1]
				return x
			}
		}
		if p.New != nil {
			return p.New()
		}
		return nil
	}
	if p.real.New == nil {
		p.real.New = p.New
	}
	return p.real.Get()
}

func (p *Pool) Put(x any) {
	if sched.Active() != nil {
		p.items = append(p.items, x)
		return
	}
	p.real.Put(x)
}

// PoolItems exposes the pooled objects (for invariants).
func (p *Pool) PoolItems() []any { return p.items }
