//go:build sch

// Package sched is a cooperative scheduler for systematic (stateless, depth-first, preemption-bounded) exploration
// of thread interleavings. Shimmed synchronisation primitives (vsync, vatomic, vtime) call Point before each
// operation; exactly one registered thread runs at a time and the explorer decides who goes next.
//
// It is mapped INTO the gluon module path by `go build -overlay` (github.com/ProtonMail/gluon/verifshim/sched), so
// that gluon source files whose imports were rewritten can use it.
package sched

import (
	"bytes"
	"fmt"
	"runtime"
	"strconv"
	"sync"
)

type Thread struct {
	spawned  bool // registered by the code under test (not wrapped in the harness' recover)
	goid     int64
	ID       int
	Name     string
	resume   chan bool // true = go on, false = abort
	enabled  func() bool
	opName   string
	finished bool
	parked   bool
}

// PointRec is one scheduling decision.
type PointRec struct {
	Enabled []int  // thread ids (or choice indices) in canonical order: running thread first if enabled
	Chosen  int    // index into Enabled
	Running int    // id of the thread that was running before this point (-1 none)
	RunStillEnabled bool
	Kind    string // "thread" | "choice"
	Ops     []string
}

type Sched struct {
	mu       sync.Mutex
	cond     *sync.Cond
	threads  []*Thread
	byGoid   map[int64]*Thread
	running  *Thread
	prefix   []int
	Trace    []PointRec
	Choices  []int
	aborted  bool
	Deadlock bool
	DeadInfo string
	Diverged string
	expect   int // threads expected to register before the next decision
	steps    int
	MaxSteps int
	Livelock bool
	Log      []string
}

var (
	activeMu sync.RWMutex
	active   *Sched
)

// Active returns the scheduler of the current exploration (nil outside one).
func Active() *Sched {
	activeMu.RLock()
	defer activeMu.RUnlock()
	return active
}

func goid() int64 {
	var buf [64]byte
	n := runtime.Stack(buf[:], false)
	// "goroutine 123 ["
	f := bytes.Fields(buf[:n])
	id, _ := strconv.ParseInt(string(f[1]), 10, 64)
	return id
}

func goroutineAlive(id int64) bool {
	buf := make([]byte, 1<<16)
	for {
		n := runtime.Stack(buf, true)
		if n < len(buf) {
			buf = buf[:n]
			break
		}
		buf = make([]byte, 2*len(buf))
	}
	return bytes.Contains(buf, []byte(fmt.Sprintf("goroutine %d [", id)))
}

func New(prefix []int) *Sched {
	s := &Sched{byGoid: map[int64]*Thread{}, prefix: prefix, MaxSteps: 100000}
	s.cond = sync.NewCond(&s.mu)
	return s
}

// Go starts a harness thread. It is registered immediately and waits at its start point.
func (s *Sched) Go(name string, fn func()) {
	s.mu.Lock()
	t := &Thread{ID: len(s.threads), Name: name, resume: make(chan bool, 1)}
	s.threads = append(s.threads, t)
	t.parked = true
	t.enabled = func() bool { return true }
	t.opName = "start"
	s.mu.Unlock()
	go func() {
		s.mu.Lock()
		s.byGoid[goid()] = t
		s.mu.Unlock()
		if ok := <-t.resume; !ok {
			s.finish(t)
			return
		}
		defer s.finish(t)
		defer func() {
			if r := recover(); r != nil {
				if _, isAbort := r.(abortSignal); isAbort {
					return
				}
				s.mu.Lock()
				s.Log = append(s.Log, fmt.Sprintf("thread %s panicked: %v", t.Name, r))
				s.mu.Unlock()
				panic(r)
			}
		}()
		fn()
	}()
}

type abortSignal struct{}

func (s *Sched) finish(t *Thread) {
	s.mu.Lock()
	t.finished = true
	t.parked = false
	if s.running == t {
		s.running = nil
	}
	s.cond.Broadcast()
	s.mu.Unlock()
}

// ExpectSpawn allows n goroutines started by the code under test to register (at their first shim operation).
func (s *Sched) ExpectSpawn(n int) {
	s.mu.Lock()
	s.expect += n
	s.mu.Unlock()
}

// AwaitSpawn is called by the (running) thread whose code started the goroutines: it returns once all expected
// goroutines have registered and parked, so that every later decision sees them. The caller stays the running
// thread meanwhile, so no decision is taken before.
func (s *Sched) AwaitSpawn() {
	s.mu.Lock()
	defer s.mu.Unlock()
	for {
		ok := s.expect == 0
		for _, t := range s.threads {
			if t.spawned && !t.parked && !t.finished {
				ok = false
			}
		}
		if ok {
			return
		}
		s.cond.Wait()
	}
}

// current returns the thread of the calling goroutine, registering it if it is an expected spawn.
func (s *Sched) current() *Thread {
	id := goid()
	s.mu.Lock()
	defer s.mu.Unlock()
	if t, ok := s.byGoid[id]; ok {
		return t
	}
	if s.expect <= 0 {
		return nil
	}
	s.expect--
	t := &Thread{ID: len(s.threads), Name: fmt.Sprintf("spawned-%d", len(s.threads)), resume: make(chan bool, 1), spawned: true, goid: id}
	s.threads = append(s.threads, t)
	s.byGoid[id] = t
	return t
}

// Point announces the next operation of the calling thread and blocks until the scheduler lets it run.
// enabled may be nil (always enabled). It returns false if the calling goroutine is not under the scheduler.
func (s *Sched) Point(op string, enabled func() bool) bool {
	t := s.current()
	if t == nil {
		return false
	}
	if enabled == nil {
		enabled = func() bool { return true }
	}
	s.mu.Lock()
	if s.aborted {
		s.mu.Unlock()
		if t.spawned {
			select {} // park for good: unwinding a goroutine of the code under test would kill the process
		}
		panic(abortSignal{})
	}
	t.enabled = enabled
	t.opName = op
	t.parked = true
	if s.running == t {
		// keep s.running so that the decision knows who ran last
	}
	s.cond.Broadcast()
	s.mu.Unlock()
	if ok := <-t.resume; !ok {
		if t.spawned {
			s.finish(t)
			select {}
		}
		panic(abortSignal{})
	}
	return true
}

// Choose is an explorer-controlled data choice among n alternatives (e.g. what sync.Pool.Get returns).
func (s *Sched) Choose(what string, n int) int {
	if n <= 1 {
		return 0
	}
	s.mu.Lock()
	defer s.mu.Unlock()
	idx := 0
	pos := len(s.Choices)
	if pos < len(s.prefix) {
		idx = s.prefix[pos]
		if idx >= n {
			s.Diverged = fmt.Sprintf("choice %d at position %d out of range (%d alternatives for %s)", idx, pos, n, what)
			idx = 0
		}
	}
	en := make([]int, n)
	for i := range en {
		en[i] = i
	}
	s.Trace = append(s.Trace, PointRec{Enabled: en, Chosen: idx, Running: -1, Kind: "choice", Ops: []string{what}})
	s.Choices = append(s.Choices, idx)
	return idx
}

// Run drives the execution until every thread has finished, or nothing can run (deadlock).
func (s *Sched) Run() {
	activeMu.Lock()
	active = s
	activeMu.Unlock()
	defer func() {
		activeMu.Lock()
		active = nil
		activeMu.Unlock()
	}()
	s.mu.Lock()
	for {
		// wait until the running thread (if any) is parked or finished and all expected spawns registered
		for {
			busy := false
			if s.running != nil && !s.running.parked && !s.running.finished {
				busy = true
			}
			for _, t := range s.threads {
				if !t.parked && !t.finished && t != s.running {
					busy = true // a spawned goroutine that has registered but not yet parked
				}
			}
			if !busy {
				break
			}
			// A goroutine started by the code under test is not wrapped by the harness: when it is the one running,
			// its termination is detected by looking at the goroutine list.
			if r := s.running; r != nil && r.spawned && !r.parked && !r.finished {
				parkedNow := false
				for i := 0; i < 60 && !parkedNow; i++ {
					s.mu.Unlock()
					runtime.Gosched()
					s.mu.Lock()
					parkedNow = r.parked || r.finished
				}
				if parkedNow {
					continue
				}
				s.mu.Unlock()
				alive := goroutineAlive(r.goid)
				s.mu.Lock()
				if !alive && !r.parked {
					r.finished = true
					s.running = nil
				}
				continue
			}
			s.cond.Wait()
		}
		var live, en []*Thread
		for _, t := range s.threads {
			if t.finished {
				continue
			}
			live = append(live, t)
			if t.enabled() {
				en = append(en, t)
			}
		}
		if len(live) == 0 {
			break
		}
		if len(en) == 0 {
			s.Deadlock = true
			for _, t := range live {
				s.DeadInfo += fmt.Sprintf("%s waits at %s; ", t.Name, t.opName)
			}
			break
		}
		s.steps++
		if s.steps > s.MaxSteps {
			s.Livelock = true
			break
		}
		// canonical order: the running thread first if still enabled, then ascending ids
		var order []*Thread
		runStill := false
		if s.running != nil && !s.running.finished && s.running.enabled() {
			order = append(order, s.running)
			runStill = true
		}
		for _, t := range en {
			if !(runStill && t == s.running) {
				order = append(order, t)
			}
		}
		idx := 0
		if len(order) > 1 {
			pos := len(s.Choices)
			if pos < len(s.prefix) {
				idx = s.prefix[pos]
				if idx >= len(order) {
					s.Diverged = fmt.Sprintf("thread choice %d at position %d out of range (%d enabled)", idx, pos, len(order))
					idx = 0
				}
			}
			rec := PointRec{Chosen: idx, Running: -1, RunStillEnabled: runStill, Kind: "thread"}
			if s.running != nil {
				rec.Running = s.running.ID
			}
			for _, t := range order {
				rec.Enabled = append(rec.Enabled, t.ID)
				rec.Ops = append(rec.Ops, t.Name+":"+t.opName)
			}
			s.Trace = append(s.Trace, rec)
			s.Choices = append(s.Choices, idx)
		}
		t := order[idx]
		s.running = t
		t.parked = false
		t.resume <- true
	}
	// abort whatever is left (deadlock / livelock)
	s.aborted = true
	for _, t := range s.threads {
		if !t.finished && t.parked {
			t.parked = false
			t.resume <- false
		}
	}
	s.mu.Unlock()
}

// Preemptions counts the context switches away from a thread that could have continued, in the first n decisions.
func Preemptions(trace []PointRec, n int) int {
	c := 0
	for i := 0; i < n && i < len(trace); i++ {
		p := trace[i]
		if p.Kind == "thread" && p.RunStillEnabled && p.Chosen != 0 {
			c++
		}
	}
	return c
}
