//go:build sch

// Package vatomic mirrors the sync/atomic functions gluon uses; under an exploration each is a scheduling point.
package vatomic

import (
	"sync/atomic"

	"github.com/ProtonMail/gluon/verifshim/sched"
)

func point(op string) {
	if s := sched.Active(); s != nil {
		s.Point(op, nil)
	}
}

func AddInt32(addr *int32, delta int32) int32 { point("atomic.AddInt32"); return atomic.AddInt32(addr, delta) }
func LoadInt32(addr *int32) int32             { point("atomic.LoadInt32"); return atomic.LoadInt32(addr) }
func StoreInt32(addr *int32, v int32)         { point("atomic.StoreInt32"); atomic.StoreInt32(addr, v) }
func AddInt64(addr *int64, delta int64) int64 { point("atomic.AddInt64"); return atomic.AddInt64(addr, delta) }
func LoadInt64(addr *int64) int64             { point("atomic.LoadInt64"); return atomic.LoadInt64(addr) }
func AddUint32(addr *uint32, d uint32) uint32 { point("atomic.AddUint32"); return atomic.AddUint32(addr, d) }
func LoadUint32(addr *uint32) uint32          { point("atomic.LoadUint32"); return atomic.LoadUint32(addr) }
func StoreUint32(addr *uint32, v uint32)      { point("atomic.StoreUint32"); atomic.StoreUint32(addr, v) }
func CompareAndSwapUint32(addr *uint32, old, new uint32) bool {
	point("atomic.CompareAndSwapUint32")
	return atomic.CompareAndSwapUint32(addr, old, new)
}
func CompareAndSwapInt32(addr *int32, old, new int32) bool {
	point("atomic.CompareAndSwapInt32")
	return atomic.CompareAndSwapInt32(addr, old, new)
}
