#!/usr/bin/env python3
# validates MANIFEST.json and every evidence file against the schemas (run with python3-vt)
import json,sys,glob,jsonschema
ok=True
m=json.load(open('/verif/MANIFEST.json'))
try:
    jsonschema.validate(m,json.load(open('/root/.vp/MANIFEST.schema.json'))); print('MANIFEST ok', len(m['checks']),'checks')
except Exception as e:
    ok=False; print('MANIFEST INVALID',e)
sch=json.load(open('/root/.vp/EVIDENCE.schema.json'))
for f in sorted(glob.glob('/verif/evidence/*.json')):
    try:
        ev=json.load(open(f)); jsonschema.validate(ev,sch); print(f,'ok',ev['tier'],ev['level'])
    except Exception as e:
        ok=False; print(f,'INVALID',str(e)[:300])
sys.exit(0 if ok else 1)
