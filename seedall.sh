#!/bin/sh
# usage: ./seedall.sh [seed-id...]
# Re-runs every recorded seeded change (seeded/<id>/patch.diff) against the quick tier of the checks listed in its
# meta.json "caught_by" and records the VIOLATION lines in seeded/<id>/detected.txt. /repo is not touched (overlay).
# Exit 1 if a check that is supposed to catch a change stays silent.
cd "$(dirname "$0")"
ids="$*"; [ -z "$ids" ] && ids=$(ls seeded)
rc=0
for id in $ids; do
  checks=$(python3 -c "import json;print(' '.join(json.load(open('seeded/$id/meta.json'))['caught_by']))")
  : > seeded/$id/detected.txt
  for c in $checks; do
    out=$(./seedrun.sh "$PWD/seeded/$id/patch.diff" $c)
    n=$(printf '%s\n' "$out" | grep -c '^VIOLATION')
    printf '%s\n' "$out" | grep -E 'violation detail|quick:' | cut -c1-260 | sort -u | head -8 | sed -e "s/^/$c: /" >> seeded/$id/detected.txt
    if [ "$n" -gt 0 ]; then echo "seed $id: $c DETECTS ($n violation lines)"; else echo "seed $id: $c SILENT"; rc=1; fi
  done
done
exit $rc
