#!/usr/bin/env python3
# usage: mkseed.py <seed-id> <property> <worktree> <needs> <caught_by(comma)> <missed_before> <what-I-ran>
import json,os,shutil,sys,glob
sid,prop,w,needs,caught,missed,ran=sys.argv[1:8]
d=f'/verif/seeded/{sid}'
os.makedirs(d,exist_ok=True)
shutil.copy(f'{w}/SEED_PATCH.diff',f'{d}/patch.diff')
for f in glob.glob(f'{w}/SEED_DEMO/*'):
    if os.path.isfile(f) and os.path.getsize(f)<200000 and not f.endswith('.log'):
        b=os.path.basename(f)
        if b.endswith('.go'): b+='.txt'  # keep demos out of the verif module's package tree
        shutil.copy(f,d+'/'+b)
if os.path.exists(f'{w}/SEED_NOTES.md'): shutil.copy(f'{w}/SEED_NOTES.md',f'{d}/notes.md')
meta={"id":sid,"property":prop,"breaks":open(f'{w}/SEED_NOTES.md').read().split('\n')[0][:200] if os.path.exists(f'{w}/SEED_NOTES.md') else "",
 "needs_to_manifest":needs,"caught_by":[c for c in caught.split(',') if c],"missed_before_strengthening":missed,
 "confirmed_by_me":ran,"how_to_run":"./seedrun.sh seeded/%s/patch.diff <check>... (applies the patch in a scratch worktree and passes the changed files to the builds as a go overlay; /repo is not touched)"%sid}
json.dump(meta,open(f'{d}/meta.json','w'),indent=1)
print('wrote',d)
