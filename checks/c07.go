package checks

import (
	"encoding/json"
	"fmt"
	"os"
	"path/filepath"
	"sort"
	"strings"
	"time"

	"verif/engine/explore"
	"verif/engine/report"
	"verif/scen/crash07"
)

func c07Dir(n int) string {
	base := os.TempDir()
	if st, err := os.Stat("/dev/shm"); err == nil && st.IsDir() {
		base = "/dev/shm"
	}
	return filepath.Join(base, fmt.Sprintf("verif-c07-%d-%d", os.Getpid(), n))
}

type c07Case struct {
	op   string
	mode string
	at   int
	dir  string
	run  func() explore.CallResult
	chk  func() explore.CallResult
}

func boxesEqual(a, b map[string]string) bool {
	if len(a) != len(b) {
		return false
	}
	for k, v := range a {
		if b[k] != v {
			return false
		}
	}
	return true
}

func renderBoxes(m map[string]string) string {
	var ks []string
	for k := range m {
		ks = append(ks, k)
	}
	sort.Strings(ks)
	var b strings.Builder
	for _, k := range ks {
		fmt.Fprintf(&b, "[%s: %s]", k, m[k])
	}
	return b.String()
}

// C07: for every operation, every step boundary and both fault modes: run, restart in another process, compare.
func C07(tier string) int {
	c := report.New("C07", tier, "fault_enumeration", 0)
	pool := explore.NewPool(workers())
	defer pool.Close()
	ops := crash07.Ops
	if tier != "thorough" {
		// quick: one operation per mechanism (store + db, multi-mailbox, removal, namespace, connector batch / replace)
		ops = []string{"APPEND", "MOVE", "EXPUNGE", "RENAME", "CONN-CREATE-KNOWN", "CONN-UPDATE", "LOGOUT-PURGE", "FETCH-REDOWNLOAD"}
	}
	seq := 0
	newDir := func() string { seq++; return c07Dir(seq) }
	evals := 0
	outcomes := map[string]bool{}
	var samples []any
	stepNames := map[string]int{}
	perOp := map[string]any{}
	engineErr := ""
	for _, op := range ops {
		// 1. clean run: count steps, reference states; clean restart as control
		dir := newDir()
		cr := pool.CallAsync("c07run", crash07.RunParams{Dir: dir, Op: op, Mode: "count"})()
		if cr.Crashed || cr.Err != "" {
			engineErr = fmt.Sprintf("%s: clean run failed: %s %s", op, cr.Err, explore.TailLines(cr.Stderr, 5))
			os.RemoveAll(dir)
			continue
		}
		var clean crash07.RunResult
		_ = json.Unmarshal(cr.Result, &clean)
		ck := pool.CallAsync("c07check", crash07.CheckParams{Dir: dir})()
		os.RemoveAll(dir)
		evals++
		var cleanAfter crash07.State
		if ck.Crashed || ck.Err != "" {
			c.Add(report.V{Clause: "clean-restart", Sig: op, Msg: fmt.Sprintf("%s: restart after a clean run failed: %s %s", op, ck.Err, explore.TailLines(ck.Stderr, 5)), Replay: map[string]any{"engine": "CRASH", "op": op, "mode": "count"}})
			continue
		}
		_ = json.Unmarshal(ck.Result, &cleanAfter)
		if clean.Status != "OK" && clean.Status != "ACK" {
			engineErr = fmt.Sprintf("%s: clean run answered %s", op, clean.Status)
			continue
		}
		if !boxesEqual(clean.After.Boxes, cleanAfter.Boxes) || len(cleanAfter.Problem) > 0 || len(clean.After.Problem) > 0 {
			c.Add(report.V{Clause: "clean-restart", Sig: op, Msg: fmt.Sprintf("%s acknowledged (%s); before restart %s ; after restart %s ; problems %v %v", op, clean.Status, renderBoxes(clean.After.Boxes), renderBoxes(cleanAfter.Boxes), clean.After.Problem, cleanAfter.Problem), Replay: map[string]any{"engine": "CRASH", "op": op, "mode": "count"}})
		}
		before, after := clean.Before, clean.After
		for _, n := range clean.Names {
			stepNames[n]++
		}
		perOp[op] = map[string]any{"steps": clean.N, "step_names": clean.Names}
		// 2. every step x {kill, error}
		var cases []*c07Case
		for k := 1; k <= clean.N; k++ {
			for _, mode := range []string{"kill", "error"} {
				cs := &c07Case{op: op, mode: mode, at: k, dir: newDir()}
				cs.run = pool.CallAsync("c07run", crash07.RunParams{Dir: cs.dir, Op: op, Mode: mode, At: k})
				cases = append(cases, cs)
			}
		}
		for _, cs := range cases {
			rr := cs.run()
			evals++
			stepName := ""
			if cs.at-1 < len(clean.Names) {
				stepName = clean.Names[cs.at-1]
			}
			replay := map[string]any{"engine": "CRASH", "op": cs.op, "mode": cs.mode, "at": cs.at, "step": stepName}
			sig := cs.op + "/" + cs.mode + "@" + stepName
			var live crash07.RunResult
			acked := ""
			switch {
			case cs.mode == "kill":
				if !rr.Crashed {
					// the step was not reached on this run (fewer steps than the clean run): still a valid run
					if rr.Err != "" {
						engineErr = fmt.Sprintf("%s kill@%d: %s", cs.op, cs.at, rr.Err)
						os.RemoveAll(cs.dir)
						continue
					}
					_ = json.Unmarshal(rr.Result, &live)
					acked = live.Status
				}
			default:
				if rr.Crashed {
					c.Add(report.V{Clause: "error-step-kills-server", Sig: sig, Msg: fmt.Sprintf("%s with step %d (%s) failing: the server process died: %s", cs.op, cs.at, stepName, explore.TailLines(rr.Stderr, 8)), Replay: replay})
				} else if rr.Err != "" {
					engineErr = fmt.Sprintf("%s error@%d: %s", cs.op, cs.at, rr.Err)
					os.RemoveAll(cs.dir)
					continue
				} else {
					_ = json.Unmarshal(rr.Result, &live)
					acked = live.Status
					if !live.Alive {
						c.Add(report.V{Clause: "error-step-wedges-server", Sig: sig, Msg: fmt.Sprintf("%s with step %d (%s) failing: the server no longer answers NOOP", cs.op, cs.at, stepName), Replay: replay})
					}
				}
			}
			ckr := pool.CallAsync("c07check", crash07.CheckParams{Dir: cs.dir})()
			os.RemoveAll(cs.dir)
			if ckr.Crashed || ckr.Err != "" {
				c.Add(report.V{Clause: "restart-fails", Sig: sig, Msg: fmt.Sprintf("%s %s at step %d (%s): restart failed: %s %s", cs.op, cs.mode, cs.at, stepName, ckr.Err, explore.TailLines(ckr.Stderr, 8)), Replay: replay})
				continue
			}
			var fin crash07.State
			_ = json.Unmarshal(ckr.Result, &fin)
			for _, p := range fin.Problem {
				cl := "problem-after-restart"
				switch {
				case strings.Contains(p, "exact bytes"):
					cl = "bytes"
				case strings.Contains(p, "unreferenced cache file"):
					cl = "leftover-cache-file"
				case strings.Contains(p, "marked for deletion"):
					cl = "leftover-marked-deleted"
				}
				c.Add(report.V{Clause: cl, Sig: sig, Msg: fmt.Sprintf("%s %s at step %d (%s): %s", cs.op, cs.mode, cs.at, stepName, p), Replay: replay})
			}
			// per-mailbox: before or after
			names := map[string]bool{}
			for n := range before.Boxes {
				names[n] = true
			}
			for n := range after.Boxes {
				names[n] = true
			}
			for n := range fin.Boxes {
				names[n] = true
			}
			isAfter := true
			for n := range names {
				f := fin.Boxes[n]
				if f != before.Boxes[n] && f != after.Boxes[n] {
					c.Add(report.V{Clause: "mailbox-neither-before-nor-after", Sig: sig, Msg: fmt.Sprintf("%s %s at step %d (%s): after restart mailbox %s is %q; before the operation %q, after it %q", cs.op, cs.mode, cs.at, stepName, n, f, before.Boxes[n], after.Boxes[n]), Replay: replay})
				}
				if f != after.Boxes[n] {
					isAfter = false
				}
			}
			if (acked == "OK" || acked == "ACK") && !isAfter {
				c.Add(report.V{Clause: "acknowledged-but-lost", Sig: sig, Msg: fmt.Sprintf("%s %s at step %d (%s): the operation was acknowledged (%s) but after restart the state is %s, expected %s", cs.op, cs.mode, cs.at, stepName, acked, renderBoxes(fin.Boxes), renderBoxes(after.Boxes)), Replay: replay})
			}
			// no message that exists before and after may vanish
			have := map[string]bool{}
			for _, k := range fin.Keys {
				have[k] = true
			}
			inAfter := map[string]bool{}
			for _, k := range after.Keys {
				inAfter[k] = true
			}
			for _, k := range before.Keys {
				if inAfter[k] && !have[k] {
					c.Add(report.V{Clause: "message-lost", Sig: sig, Msg: fmt.Sprintf("%s %s at step %d (%s): message %s exists before and after the operation but is gone after the restart (%s)", cs.op, cs.mode, cs.at, stepName, k, renderBoxes(fin.Boxes)), Replay: replay})
				}
			}
			outcome := "before"
			if isAfter {
				outcome = "after"
			} else if !boxesEqual(fin.Boxes, before.Boxes) {
				outcome = "mixed"
			}
			outcomes[fmt.Sprintf("%s|%s|%s|%s|%s", cs.op, cs.mode, stepName, acked, outcome)] = true
			if len(samples) < 8 && cs.at%5 == 1 {
				samples = append(samples, map[string]any{"op": cs.op, "mode": cs.mode, "step": cs.at, "step_name": stepName, "ack": acked, "state_after_restart": outcome})
			}
		}
		fmt.Printf("C07 op %-14s steps %3d  cases %d\n", op, clean.N, len(cases))
	}
	if len(samples) == 0 {
		samples = append(samples, "none")
	}
	c.Coverage["evaluations"] = evals
	c.Coverage["distinct_nontrivial"] = len(outcomes)
	c.Coverage["rule"] = "for every operation: every step boundary (each message-store call, each database interface call, each commit and the point right after it) x {kill the process, make the step fail}; each case = run in a child process, restart in another process on the same directories, compare with the state before / after the operation; distinct = distinct (operation, mode, step kind, acknowledgement, resulting state class)"
	c.Coverage["samples"] = samples
	c.Coverage["exhaustive"] = engineErr == ""
	c.Coverage["operations"] = perOp
	c.Coverage["step_kinds"] = stepNames
	c.Assumptions = []string{
		"process death and failing steps are enumerated; power loss (dropped unsynced pages) is not — SQLite's commit is the atomicity mechanism under test",
		"after the restart the remote side does not offer message literals, so a cache file that went missing can not be healed silently by a re-download",
		"a fixed pre-state: 2 mailboxes, 4 messages incl. one of 400 KiB that spans cache-file blocks",
	}
	if engineErr != "" {
		c.Coverage["engine_error"] = engineErr
		fmt.Println("ENGINE-ERROR C07:", engineErr)
	}
	return c.Finish()
}

var _ = time.Second

func init() { Registry["C07"] = C07 }
