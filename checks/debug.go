package checks

import (
	"encoding/json"
	"fmt"
	"os"

	"verif/engine/explore"
)

// DebugFamilies lists families by "<check>/<family>" for the debug sub-command.
var DebugFamilies = map[string]func() []explore.Family{}

// DebugPath runs a path of a family in-process, printing the canonical state after every step.
func DebugPath(check, famName, eventsJSON string) int {
	f, ok := DebugFamilies[check]
	if !ok {
		fmt.Println("no families for", check)
		return 2
	}
	var evs []explore.Event
	if err := json.Unmarshal([]byte(eventsJSON), &evs); err != nil {
		fmt.Println(err)
		return 2
	}
	for _, fam := range f() {
		if fam.Name != famName {
			continue
		}
		params, _ := json.Marshal(fam.Params)
		run, err := explore.NewRun(fam.Scenario, params)
		if err != nil {
			fmt.Println(err)
			return 2
		}
		fmt.Println("--- initial\n" + run.Canon())
		for _, e := range evs {
			v := run.Step(e)
			fmt.Printf("--- after %s  violations=%v\n%s\n", e, v, run.Canon())
		}
		if os.Getenv("VERIF_EXT") != "" {
			fmt.Printf("--- extensions: %v\n", run.Extensions())
		}
		run.Close()
		return 0
	}
	fmt.Println("no such family")
	return 2
}
