package checks

import (
	"fmt"
	"regexp"
	"time"

	"verif/engine/explore"
	"verif/scen/fetch13"
)

var c13Digits = regexp.MustCompile(`-?\d+`)

// C13: FETCH returns byte-exact message data for every section and partial (ENUM over the wire, exploration).
func C13(tier string) int {
	main, huge, nmsg, err := fetch13.Cases(tier)
	if err != nil {
		fmt.Println("ENGINE-ERROR C13:", err)
		return 2
	}
	rule := fmt.Sprintf("%d generated messages (MIME trees of depth <= 2 with <= 2 children over text/plain, text/html, application/octet-stream, message/rfc822, plus embedded multipart, empty-body and header-less parts; header styles simple/folded/repeated+empty-valued; CRLF and LF-only; 7-bit and 8-bit; appended sizes on the store block boundary 256 KiB -1/0/+1 for the appended bytes, the stored literal and the compressed stream, and 600 KiB) x EVERY section spec of the message: [], [HEADER], [TEXT], HEADER+TEXT in one FETCH, RFC822/.HEADER/.TEXT/.SIZE, every part path, .MIME of every part, .HEADER/.TEXT/.HEADER.FIELDS of every message/rfc822 part, one past each end (n+1, leaf.1, leaf.2, leaf.1.2, 2^31, 2^63-1), HEADER.FIELDS + HEADER.FIELDS.NOT for every subset of <= 2 present field names (ID header included), each also with an absent name and in a case variant, and partials <o.n> for o in {0,1,len-1,len,len+1,2^31,2^63-1} x n in {1,2,len,len+1,2^63-1} on [], [TEXT] and the first leaf part; an outcome is distinct by (section class, expected region, region actually returned / status)", nmsg)
	assume := []string{
		"the ID line is judged as: exactly one line 'X-Pm-Gluon-Id: <printable>' terminated by CRLF or LF, in front of the first header field (offset 0 of every generated message)",
		"accepted choices: BODY[1] of a non-multipart message is its body; n.MIME of a non-multipart message may be its header, empty, NIL, NO or BAD; leaf.1 of a non-message leaf may be the leaf itself, empty, NIL, NO or BAD; a non-existent part may give NO, BAD, NIL, an empty string or no item; a partial with a number >= 2^32 may be refused",
		"HEADER.FIELDS / HEADER.FIELDS.NOT are compared as multisets of exact field lines (order not judged); the delimiting blank line may be CRLF or LF",
		"item names and the <origin> echoed by the server are not judged",
		"a message the server refuses at APPEND stops the chunk with an engine error (the run is then not exhaustive)",
		"after APPEND the connector's copy of the message is dropped: the store is the only source of the literal (a store read error would otherwise be healed silently by a re-download and the block-boundary sizes would test nothing)",
		"a partial is judged as a slice of the section as the server itself returns it in full (a wrong full section is reported once, by its own case)",
	}
	crash := func(stderr string) (string, string) {
		sig := explore.CrashSig(stderr)
		return "CRASH", c13Digits.ReplaceAllString(sig, "N")
	}
	// The 63-bit partials are one input class: the witness class of a process death there is the input class (the
	// stderr tail of a dying worker is not always captured, so it cannot be part of a stable signature).
	crashHuge := func(stderr string) (string, string) {
		return "CRASH", "partial-with-63-bit-number/process-died"
	}
	chunk := 250
	return RunEnum(
		EnumSpec{Prop: "C13", Level: "exploration", Budget: 14 * time.Minute, Call: "c13", Cases: main, Chunk: chunk, Rule: rule, Assume: assume, CrashSig: crash},
		EnumSpec{Prop: "C13", Level: "exploration", Call: "c13", Cases: huge, Chunk: 1, Rule: "partials with an offset or count of 2^63-1: one case per worker job (a process death is attributed to the exact case)", CrashSig: crashHuge},
	)
}

func init() { Registry["C13"] = C13 }
