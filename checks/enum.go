package checks

import (
	"encoding/json"
	"fmt"
	"sort"
	"time"

	"verif/engine/enumt"
	"verif/engine/explore"
	"verif/engine/report"
)

// Aliases of the exchange types (see engine/enumt).
type EnumChunk = enumt.Chunk
type EnumViol = enumt.Viol
type EnumResult = enumt.Result

type EnumSpec struct {
	Prop     string
	Level    string
	Budget   time.Duration
	Call     string
	Common   any
	Cases    []any // all cases, in simplest-first order
	Chunk    int
	Rule     string
	Assume   []string
	Extra    map[string]any
	CrashSig func(stderr string) (clause, sig string)
}

// RunEnum distributes the cases over the worker pool; a chunk whose worker dies is bisected down to single cases.
func RunEnum(specs ...EnumSpec) int { return runEnum("", specs...) }

// RunEnumMerge runs an enumeration whose coverage is merged into the property's existing evidence file under the
// given key (a second part of a check whose first part already wrote the file).
func RunEnumMerge(prop, key string, specs ...EnumSpec) int { return runEnum(key, specs...) }

func runEnum(mergeKey string, specs ...EnumSpec) int {
	spec0 := specs[0]
	c := report.New(spec0.Prop, report.Tier(), spec0.Level, spec0.Budget)
	c.MergeKey = mergeKey
	pool := explore.NewPool(workers())
	defer pool.Close()
	total := 0
	outcomes := map[string]bool{}
	counters := map[string]int{}
	var samples []any
	exhaustive := true
	var parts []map[string]any
	for _, spec := range specs {
		c.Assumptions = append(c.Assumptions, spec.Assume...)
		common, _ := json.Marshal(spec.Common)
		if spec.Chunk <= 0 {
			spec.Chunk = 100
		}
		type pending struct {
			cases []json.RawMessage
			wait  func() explore.CallResult
		}
		var queue []pending
		submit := func(cases []json.RawMessage) {
			queue = append(queue, pending{cases: cases, wait: pool.CallAsync(spec.Call, EnumChunk{Common: common, Cases: cases})})
		}
		var raw []json.RawMessage
		for _, cs := range spec.Cases {
			b, _ := json.Marshal(cs)
			raw = append(raw, b)
		}
		for i := 0; i < len(raw); i += spec.Chunk {
			j := i + spec.Chunk
			if j > len(raw) {
				j = len(raw)
			}
			submit(raw[i:j])
		}
		evals, crashes := 0, 0
		for len(queue) > 0 {
			p := queue[0]
			queue = queue[1:]
			res := p.wait()
			if res.Crashed {
				if len(p.cases) > 1 {
					mid := len(p.cases) / 2
					submit(p.cases[:mid])
					submit(p.cases[mid:])
					continue
				}
				crashes++
				// confirm: re-run the single case 2 more times
				again := 0
				for k := 0; k < 2; k++ {
					if r2 := pool.CallAsync(spec.Call, EnumChunk{Common: common, Cases: p.cases})(); r2.Crashed {
						again++
					}
				}
				clause, sig := "CRASH", explore.CrashSig(res.Stderr)
				if spec.CrashSig != nil {
					clause, sig = spec.CrashSig(res.Stderr)
				}
				var in any
				_ = json.Unmarshal(p.cases[0], &in)
				evals++
				c.Add(report.V{Prop: spec.Prop, Clause: clause, Sig: sig, Msg: fmt.Sprintf("process died (%d/2 re-runs died too): %s", again, explore.TailLines(res.Stderr, 10)), Replay: map[string]any{"engine": "ENUM", "call": spec.Call, "common": spec.Common, "case": in}})
				continue
			}
			if res.Err != "" {
				c.Coverage["engine_error"] = res.Err
				exhaustive = false
				fmt.Printf("ENGINE-ERROR %s: %s\n", spec.Prop, res.Err)
				continue
			}
			var er EnumResult
			if err := json.Unmarshal(res.Result, &er); err != nil {
				c.Coverage["engine_error"] = err.Error()
				exhaustive = false
				continue
			}
			evals += er.Evaluations
			for _, o := range er.Outcomes {
				outcomes[o] = true
			}
			for k, v := range er.Counters {
				counters[k] += v
			}
			for _, s := range er.Samples {
				if len(samples) < 10 {
					samples = append(samples, s)
				}
			}
			for _, v := range er.Viol {
				prop := v.Prop
				if prop == "" {
					prop = spec.Prop
				}
				c.Add(report.V{Prop: prop, Clause: v.Clause, Sig: v.Sig, Msg: v.Msg, Replay: map[string]any{"engine": "ENUM", "call": spec.Call, "common": spec.Common, "case": v.Input}})
			}
			if !c.Deadline.IsZero() && time.Now().After(c.Deadline) && len(queue) > 0 {
				// drain what is in flight but report non-exhaustive
				exhaustive = false
			}
		}
		total += evals
		parts = append(parts, map[string]any{"call": spec.Call, "cases": len(spec.Cases), "evaluations": evals, "crashes": crashes, "rule": spec.Rule})
		fmt.Printf("%s enum %-24s cases %d evaluations %d crashes %d\n", spec.Prop, spec.Call, len(spec.Cases), evals, crashes)
		for k, v := range spec.Extra {
			c.Coverage[k] = v
		}
	}
	if len(samples) == 0 {
		samples = append(samples, "none")
	}
	var keys []string
	for k := range counters {
		keys = append(keys, k)
	}
	sort.Strings(keys)
	if counters["non-exhaustive"] > 0 {
		// a batch function reports cases whose enumeration was capped or not fully reproducible under this key
		exhaustive = false
	}
	c.Coverage["evaluations"] = total
	c.Coverage["distinct_nontrivial"] = len(outcomes)
	c.Coverage["rule"] = spec0.Rule
	c.Coverage["samples"] = samples
	c.Coverage["exhaustive"] = exhaustive
	c.Coverage["parts"] = parts
	c.Coverage["counters"] = counters
	return c.Finish()
}
