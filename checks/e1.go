// Package checks holds one entry point per property.
package checks

import (
	"fmt"
	"os"
	"runtime"
	"sort"
	"strings"
	"time"

	"verif/engine/explore"
	"verif/engine/report"
)

type E1Spec struct {
	Prop     string
	Level    string
	Families []explore.Family
	Budget   time.Duration
	Assume   []string
	Extra    map[string]any
	Relabel  map[string]string // violations of these properties found by the scenario's shared oracles count for Prop
	// RelabelOnly restricts relabelling of a property to signatures with one of these prefixes.
	RelabelOnly map[string][]string
}

func workers() int {
	n := runtime.NumCPU()
	if n > 16 {
		n = 16
	}
	if n < 2 {
		n = 2
	}
	return n
}

// RunE1 explores every family and reports.
func RunE1(spec E1Spec) int {
	c := report.New(spec.Prop, report.Tier(), spec.Level, spec.Budget)
	c.Assumptions = spec.Assume
	pool := explore.NewPool(workers())
	defer pool.Close()
	var famStats []explore.Stats
	states, trans, traces := 0, 0, 0
	exhaustive := true
	var samples []any
	engineErr := ""
	otherProps := map[string]int{}
	for fi, fam := range spec.Families {
		// the remaining budget is shared evenly among the families still to run
		deadline := c.Deadline
		if !deadline.IsZero() {
			left := time.Until(deadline)
			if left < 0 {
				left = 0
			}
			deadline = time.Now().Add(left / time.Duration(len(spec.Families)-fi))
		}
		st := explore.Search(pool, fam, explore.Options{Prop: spec.Prop, Deadline: deadline, Seed: c.Seed, Verbose: os.Getenv("VERIF_VERBOSE") != ""})
		var alpha []string
		if p, ok := fam.Params.(interface{ AlphabetStrings() []string }); ok {
			alpha = p.AlphabetStrings()
		}
		st.Alphabet = alpha
		famStats = append(famStats, st)
		states += st.States
		trans += st.Transitions
		traces += st.Traces
		if !st.Exhaustive {
			exhaustive = false
		}
		if st.EngineErr != "" {
			engineErr = fam.Name + ": " + st.EngineErr
		}
		for _, s := range st.Samples {
			if len(samples) < 8 {
				samples = append(samples, map[string]any{"family": fam.Name, "events": s})
			}
		}
		fmt.Printf("%s family %-22s depth %d/%d states %d transitions %d exhaustive=%v crashes=%d %.1fs\n", spec.Prop, fam.Name, st.DepthDone, fam.Depth, st.States, st.Transitions, st.Exhaustive, st.Crashes, st.WallS)
		// Group violations by signature, keep the shortest witness of each.
		best := map[string]explore.Violation{}
		label := map[string][2]string{} // key -> (prop, clause) to report under
		for _, v := range st.Violations {
			if v.Prop == "ENGINE" {
				engineErr = fam.Name + ": " + v.Msg
				continue
			}
			prop, clause := v.Prop, v.Clause
			relabelOK := true
			if only, ok := spec.RelabelOnly[v.Prop]; ok {
				relabelOK = false
				for _, pre := range only {
					if strings.HasPrefix(v.Sig, pre) {
						relabelOK = true
					}
				}
			}
			if to, ok := spec.Relabel[v.Prop]; ok && to == spec.Prop && relabelOK {
				clause = "via-" + v.Prop + "-" + v.Clause
				prop = spec.Prop
			}
			if prop != spec.Prop {
				otherProps[v.Prop]++
				continue
			}
			k := prop + "|" + clause + "/" + v.Sig
			label[k] = [2]string{prop, clause}
			if b, ok := best[k]; !ok || len(v.Path) < len(b.Path) {
				best[k] = v
			}
		}
		var keys []string
		for k := range best {
			keys = append(keys, k)
		}
		sort.Strings(keys)
		for _, k := range keys {
			v := best[k]
			if v.Clause != "CRASH" {
				ok, why := explore.Confirm(pool, fam, v, 5, spec.Prop)
				if !ok {
					engineErr = fmt.Sprintf("%s: violation %s not reproducible: %s", fam.Name, k, why)
					continue
				}
				v = explore.Minimise(pool, fam, v, spec.Prop)
			}
			c.Add(report.V{Prop: label[k][0], Clause: label[k][1], Sig: v.Sig, Msg: v.Msg, Replay: map[string]any{"engine": "E1", "scenario": fam.Scenario, "family": fam.Name, "params": fam.Params, "events": v.Path}})
		}
	}
	if len(samples) == 0 {
		samples = append(samples, "no transitions explored")
	}
	c.Coverage["states"] = states
	c.Coverage["transitions"] = trans
	c.Coverage["traces_validated_against_impl"] = traces
	c.Coverage["samples"] = samples
	c.Coverage["exhaustive"] = exhaustive
	c.Coverage["families"] = famStats
	c.Coverage["explanation"] = "explicit-state BFS over event histories of the real server (replay-based successors, canonical-state hashing); every transition is an execution of the implementation, so every trace is validated against it by construction"
	c.Coverage["violations_of_other_properties_seen"] = otherProps
	for k, v := range spec.Extra {
		c.Coverage[k] = v
	}
	if engineErr != "" {
		c.Coverage["engine_error"] = engineErr
		c.Coverage["exhaustive"] = false
		fmt.Printf("ENGINE-ERROR %s: %s\n", spec.Prop, engineErr)
	}
	code := c.Finish()
	if code == 0 && engineErr != "" && os.Getenv("VERIF_STRICT") != "" {
		return 3
	}
	return code
}
