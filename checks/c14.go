package checks

import (
	"time"

	"verif/engine/explore"
	"verif/engine/vconn"
	"verif/scen/ns"
)

type C14P struct{ ns.Params }

func (p C14P) AlphabetStrings() []string {
	var out []string
	for _, e := range p.Alphabet {
		out = append(out, e.String())
	}
	return out
}

func c14Patterns(maxLen int) []string {
	alpha := []string{"%", "*", "a", "b", "/", "."}
	out := []string{""}
	level := []string{""}
	for l := 1; l <= maxLen; l++ {
		var next []string
		for _, p := range level {
			for _, a := range alpha {
				next = append(next, p+a)
			}
		}
		out = append(out, next...)
		level = next
	}
	out = append(out, "inbox", "INBOX/%", "inbox/*", "a/inbox", "a/b/c", "%/%/%", "*c", "&AOk-")
	return out
}

func c14Create() []explore.Event {
	return []explore.Event{
		ev("cmd", 0, "CREATE|a"), ev("cmd", 0, "CREATE|a/b"), ev("cmd", 1, "CREATE|a/b/c"), ev("cmd", 0, "CREATE|b"),
		ev("cmd", 0, "CREATE|a/"), ev("cmd", 0, "CREATE|inbox"), ev("cmd", 0, "CREATE|INBOX/x"), ev("cmd", 1, "CREATE|a/inbox"),
		ev("cmd", 0, "CREATE|&AOk-"), ev("cmd", 0, "CREATE|Recovered Messages"), ev("cmd", 0, "CREATE|/a"), ev("cmd", 0, "CREATE|a//b"),
		ev("cmd", 0, "DELETE|a"), ev("cmd", 1, "DELETE|a/b"), ev("cmd", 0, "DELETE|INBOX"), ev("cmd", 0, "DELETE|inbox"), ev("cmd", 0, "DELETE|Recovered Messages"),
	}
}

func c14Rename() []explore.Event {
	return []explore.Event{
		ev("cmd", 0, "CREATE|a/b"), ev("cmd", 0, "CREATE|b"), ev("cmd", 1, "CREATE|a/b/c"),
		ev("cmd", 0, "CREATE|ab/c"), ev("cmd", 0, "RENAME|a|x"), ev("cmd", 1, "RENAME|a|a2/x"),
		ev("cmd", 0, "RENAME|a|x/y"), ev("cmd", 0, "RENAME|a/b|b/z"), ev("cmd", 1, "RENAME|b|a"), ev("cmd", 0, "RENAME|a|a/b/q"),
		ev("cmd", 0, "RENAME|INBOX|old"), ev("cmd", 0, "RENAME|inbox|old2"), ev("cmd", 0, "RENAME|b|INBOX"),
		ev("cmd", 0, "RENAME|b|Recovered Messages"), ev("cmd", 0, "RENAME|Recovered Messages|r"), ev("cmd", 0, "RENAME|nope|n2"),
		ev("cmd", 1, "DELETE|a"),
	}
}

func c14Subscribe() []explore.Event {
	return []explore.Event{
		ev("cmd", 0, "CREATE|a/b"), ev("cmd", 0, "CREATE|b"),
		ev("cmd", 0, "UNSUBSCRIBE|a"), ev("cmd", 0, "UNSUBSCRIBE|a/b"), ev("cmd", 1, "SUBSCRIBE|a"), ev("cmd", 0, "SUBSCRIBE|nope"),
		ev("cmd", 0, "UNSUBSCRIBE|b"), ev("cmd", 0, "UNSUBSCRIBE|INBOX"),
		ev("cmd", 0, "DELETE|a/b"), ev("cmd", 1, "DELETE|b"), ev("cmd", 0, "DELETE|a"), ev("cmd", 0, "RENAME|a|c"),
	}
}

func c14Conn() []explore.Event {
	mk := func(kind, id string, name ...string) explore.Event {
		return explore.Event{K: "conn", Spec: &vconn.Spec{Kind: kind, Mbox: id, Name: name}}
	}
	return []explore.Event{
		mk("MailboxCreated", "r1", "a"), mk("MailboxCreated", "r2", "a", "b"), mk("MailboxCreated", "r3", "x", "y"),
		mk("MailboxUpdated", "r1", "c"), mk("MailboxUpdated", "r2", "c", "d"), mk("MailboxUpdated", "r3", "inbox"),
		mk("MailboxDeleted", "r1"), mk("MailboxDeleted", "r2"),
		ev("cmd", 0, "CREATE|a"), ev("cmd", 0, "RENAME|a|z"), ev("cmd", 1, "DELETE|c"), ev("cmd", 0, "UNSUBSCRIBE|a/b"),
	}
}

func c14Families(d int, patLen int, delims []string) []explore.Family {
	var out []explore.Family
	for _, del := range delims {
		mk := func(name string, a []explore.Event) explore.Family {
			return explore.Family{Name: name + "[" + del + "]", Scenario: "c14", Depth: d, Params: C14P{ns.Params{Delim: del, Alphabet: a, Patterns: c14Patterns(patLen), Refs: []string{"", "a", "a/"}}}}
		}
		out = append(out, mk("create-delete", c14Create()), mk("rename", c14Rename()), mk("subscribe", c14Subscribe()), mk("connector", c14Conn()))
	}
	return out
}

func C14(tier string) int {
	d, pl, delims, budget := 2, 2, []string{"/", "."}, 170*time.Second
	if tier == "thorough" {
		d, pl, delims, budget = 4, 3, []string{"/", ".", `\`, "|", "]", "^"}, 30*time.Minute
	}
	return RunE1(E1Spec{
		Prop: "C14", Level: "model_checking", Budget: budget,
		Families: c14Families(d, pl, delims),
		Assume: []string{
			"bounded: 2 sessions, names of depth <= 3 over the listed alphabet, depth as reported; LIST/LSUB with every pattern of length <= 2 (quick) / 3 (thorough) over {%,*,a,b,delimiter,.} and 3 references on every distinct namespace",
			"SUBSCRIBE of a subscribed / UNSUBSCRIBE of an unsubscribed mailbox may answer OK or NO; renaming a mailbox into its own inferior is not judged",
			"names that exist only as parents are expected with \\Noselect; LSUB with a trailing % returns unsubscribed parents of subscribed mailboxes with \\Noselect (RFC 3501 6.3.9)",
		},
	})
}

func init() {
	Registry["C14"] = C14
	DebugFamilies["C14"] = func() []explore.Family { return c14Families(3, 2, []string{"/"}) }
}
