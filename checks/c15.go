package checks

import (
	"time"

	"verif/scen/wire"
)

func k(name string, args ...string) wire.Expr {
	e := wire.Expr{Op: "key", K: name}
	if len(args) > 0 {
		e.Arg = args[0]
	}
	if len(args) > 1 {
		e.Arg2 = args[1]
	}
	return e
}

func c15Keys() []wire.Expr {
	return []wire.Expr{
		k("ALL"), k("ANSWERED"), k("UNANSWERED"), k("DELETED"), k("UNDELETED"), k("DRAFT"), k("UNDRAFT"),
		k("FLAGGED"), k("UNFLAGGED"), k("SEEN"), k("UNSEEN"), k("RECENT"), k("OLD"), k("NEW"),
		k("KEYWORD", "$work"), k("UNKEYWORD", "$work"), k("KEYWORD", "$WORK"),
		k("BCC", "eve"), k("CC", "dave"), k("CC", "alice"), k("FROM", "alice"), k("FROM", "EXAMPLE"), k("TO", "bob"), k("TO", "nobody"),
		k("SUBJECT", "alpha"), k("SUBJECT", "Beta Notes"), k("BODY", "apple"), k("BODY", "alpha"), k("TEXT", "banana"), k("TEXT", "gamma"),
		k("HEADER", "Subject", "delta"), k("HEADER", "X-Verif-Key", ""), k("HEADER", "Cc", ""), k("HEADER", "X-None", ""),
		k("LARGER", "1000"), k("SMALLER", "1000"), k("LARGER", "0"),
		k("BEFORE", "3-Jan-2020"), k("ON", "3-Jan-2020"), k("SINCE", "3-Jan-2020"),
		k("SENTBEFORE", "1-Jan-2020"), k("SENTON", "1-Jan-2020"), k("SENTSINCE", "2-Jan-2020"),
		k("UID", "2:3"), k("UID", "4:*"), k("UID", "100"), k("SEQ", "1:2"), k("SEQ", "4,5"), k("SEQ", "*"),
	}
}

func C15(tier string) int {
	keys := c15Keys()
	var cases []any
	add := func(view string, e wire.Expr) {
		cases = append(cases, wire.C15Case{View: view, UID: false, E: e})
		cases = append(cases, wire.C15Case{View: view, UID: true, E: e})
	}
	depth2 := func(view string, ks []wire.Expr) {
		for _, a := range ks {
			add(view, a)
			add(view, wire.Expr{Op: "not", Sub: []wire.Expr{a}})
		}
		for _, a := range ks {
			for _, b := range ks {
				add(view, wire.Expr{Op: "or", Sub: []wire.Expr{a, b}})
				add(view, wire.Expr{Op: "and", Sub: []wire.Expr{a, b}})
				add(view, wire.Expr{Op: "list", Sub: []wire.Expr{a, b}})
			}
		}
	}
	reps := []wire.Expr{k("SEEN"), k("UNFLAGGED"), k("DELETED"), k("KEYWORD", "$work"), k("FROM", "alice"), k("BODY", "apple"), k("TEXT", "banana"), k("LARGER", "1000"), k("SINCE", "3-Jan-2020"), k("SENTBEFORE", "1-Jan-2020"), k("UID", "2:3"), k("SEQ", "1:2")}
	depth3 := func(view string, ks []wire.Expr) {
		for _, a := range ks {
			for _, b := range ks {
				for _, c := range ks {
					add(view, wire.Expr{Op: "or", Sub: []wire.Expr{a, {Op: "not", Sub: []wire.Expr{{Op: "list", Sub: []wire.Expr{b, c}}}}}})
					add(view, wire.Expr{Op: "and", Sub: []wire.Expr{{Op: "not", Sub: []wire.Expr{a}}, {Op: "or", Sub: []wire.Expr{b, c}}}})
					add(view, wire.Expr{Op: "not", Sub: []wire.Expr{{Op: "or", Sub: []wire.Expr{{Op: "list", Sub: []wire.Expr{a, b}}, c}}}})
				}
			}
		}
	}
	depth2("fresh", keys)
	if tier == "thorough" {
		depth2("stale", keys)
		depth3("fresh", reps)
		depth3("stale", reps)
	} else {
		depth2("stale", reps)
		depth3("fresh", reps[:6])
	}
	// encodings and charset for the string keys (singles)
	for _, a := range keys {
		if a.K == "BCC" || a.K == "CC" || a.K == "FROM" || a.K == "TO" || a.K == "SUBJECT" || a.K == "BODY" || a.K == "TEXT" || a.K == "HEADER" || a.K == "KEYWORD" {
			for _, enc := range []string{"q", "l"} {
				b := a
				b.Enc = enc
				if a.K == "KEYWORD" {
					continue // flag-keyword is an atom
				}
				cases = append(cases, wire.C15Case{View: "fresh", E: b})
				cases = append(cases, wire.C15Case{View: "fresh", E: b, Charset: "UTF-8", UID: true})
			}
		}
	}
	// non-ASCII words, in UTF-8 and in ISO-8859-1 (literal arguments; 8-bit is not allowed in quoted strings)
	for _, k := range []wire.Expr{{Op: "key", K: "TEXT", Arg: "caf\u00e9"}, {Op: "key", K: "BODY", Arg: "cr\u00e8me"}, {Op: "key", K: "TEXT", Arg: "CAF\u00c9 CR"}, {Op: "key", K: "BODY", Arg: "caf\u00e8"}} {
		for _, l1 := range []bool{false, true} {
			e := k
			e.Enc, e.Latin1 = "l", l1
			cs := "UTF-8"
			if l1 {
				cs = "ISO-8859-1"
			}
			cases = append(cases, wire.C15Case{View: "fresh", E: e, Charset: cs})
			cases = append(cases, wire.C15Case{View: "fresh", UID: true, Charset: cs, E: wire.Expr{Op: "or", Sub: []wire.Expr{{Op: "key", K: "DELETED"}, {Op: "not", Sub: []wire.Expr{e}}}}})
		}
	}
	var pending []any
	for _, a := range keys {
		pending = append(pending, wire.C15Case{View: "pending", E: a})
		if tier == "thorough" {
			pending = append(pending, wire.C15Case{View: "pending", UID: true, E: wire.Expr{Op: "not", Sub: []wire.Expr{a}}})
		}
	}
	rule := "all search-key trees of depth <=2 over 49 key instances (NOT k, OR k k', (k k'), k k'), depth-3 shapes over representatives, each as SEARCH and UID SEARCH, string arguments quoted/literal and CHARSET UTF-8; views fresh / stale (a message expunged elsewhere, removal unannounced) / pending (a new message delivered but not yet announced); reference evaluator over the session's own rows and the generator's knowledge of each message; non-trivial = the expected result is a proper non-empty subset of the view; distinct = distinct (view, uid-mode, expected result)"
	return RunEnum(
		EnumSpec{Prop: "C15", Level: "exploration", Budget: 15 * time.Minute, Call: "c15", Cases: cases, Chunk: 600, Rule: rule,
			Assume: []string{"internal dates at 12:00 UTC so that time-zone interpretation of date keys is not judged", "text keys use ASCII words that are unique to one field", "sizes are the RFC822.SIZE values the server reports"}},
		EnumSpec{Prop: "C15", Level: "exploration", Call: "c15", Cases: pending, Chunk: 4, Rule: "pending view: fixture rebuilt per case (the first SEARCH flushes the pending EXISTS)"},
	)
}

func init() { Registry["C15"] = C15 }
