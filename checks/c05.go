package checks

import (
	"time"

	"verif/engine/explore"
)

// Removal-heavy alphabets; the observer's next command ranges over all kinds.
func famC05Kinds1() []explore.Event {
	return []explore.Event{
		ev("deliver", 0),
		conn("remove:INBOX:first"),
		conn("readd:INBOX"),
		ev("cmd", 1, `STORE 1 +FLAGS (\Deleted)`),
		ev("cmd", 1, `EXPUNGE`),
		ev("cmd", 0, `FETCH 1:* (FLAGS)`),
		ev("cmd", 0, `UID FETCH 1:* (FLAGS)`),
		ev("cmd", 0, `STORE 1 +FLAGS (\Flagged)`),
		ev("cmd", 0, `UID STORE 1:* -FLAGS (\Flagged)`),
		ev("cmd", 0, `STORE 1 +FLAGS.SILENT (\Flagged)`),
		ev("cmd", 0, `UID STORE 1:* FLAGS.SILENT (\Seen)`),
		ev("cmd", 0, `FETCH 1 (BODY[])`),
		ev("cmd", 0, `SEARCH ALL`),
		ev("cmd", 0, `UID SEARCH ALL`),
		ev("cmd", 0, `NOOP`),
	}
}

func famC05Kinds2() []explore.Event {
	return []explore.Event{
		ev("deliver", 0),
		conn("remove:INBOX:first"),
		conn("readd:INBOX"),
		ev("cmd", 1, `MOVE 1 m2`),
		ev("cmd", 2, `MOVE 1 INBOX`),
		ev("cmd", 0, `COPY 1 m2`),
		ev("cmd", 0, `CHECK`),
		ev("cmd", 0, `EXPUNGE`),
		ev("cmd", 0, `MOVE 1 m2`),
		ev("cmd", 0, `STATUS INBOX (MESSAGES)`),
		ev("append", 0, "INBOX"),
		ev("append", 0, "m2"),
		ev("cmd", 0, `FETCH 1 (FLAGS)`),
	}
}

func famC05Idle() []explore.Event {
	return []explore.Event{
		ev("deliver", 0),
		conn("remove:INBOX:first"),
		conn("readd:INBOX"),
		conn("delete:INBOX:last"),
		ev("idle", 0), ev("done", 0),
		ev("cmd", 0, `CLOSE`),
		ev("cmd", 0, `SELECT INBOX`),
		ev("cmd", 0, `SEARCH ALL`),
		ev("cmd", 1, `STORE 1:* +FLAGS (\Deleted)`),
		ev("cmd", 1, `EXPUNGE`),
	}
}

// arrive-then-remove: a message the observer has not been told about yet is removed again (by the connector or by
// another session) before the observer's next command.
func famC05Arrive() []explore.Event {
	return []explore.Event{
		ev("deliver", 0),
		conn("create:INBOX"),
		conn("remove:INBOX:last"),
		conn("delete:INBOX:last"),
		conn("readd:INBOX"),
		ev("append", 1, "INBOX"),
		ev("cmd", 1, `STORE * +FLAGS (\Deleted)`),
		ev("cmd", 1, `EXPUNGE`),
		ev("deliver", 1),
		ev("cmd", 0, `FETCH 1 (FLAGS)`),
		ev("cmd", 0, `STORE 1 +FLAGS (\Flagged)`),
		ev("cmd", 0, `SEARCH ALL`),
		ev("cmd", 0, `NOOP`),
	}
}

// refused commands: FETCH / STORE / SEARCH that are answered NO (unknown charset, read-only mailbox) must hold the
// removals back like the successful ones.
func famC05Refused() []explore.Event {
	return []explore.Event{
		ev("deliver", 0),
		conn("remove:INBOX:first"),
		ev("cmd", 1, `STORE 1 +FLAGS (\Deleted)`),
		ev("cmd", 1, `EXPUNGE`),
		ev("cmd", 0, `SEARCH CHARSET X-UNKNOWN ALL`),
		ev("cmd", 0, `UID SEARCH CHARSET X-UNKNOWN SUBJECT x`),
		ev("cmd", 0, `EXAMINE INBOX`),
		ev("cmd", 0, `STORE 1 +FLAGS (\Flagged)`),
		ev("cmd", 0, `UID STORE 1:* -FLAGS (\Flagged)`),
		ev("cmd", 0, `FETCH 1:* (FLAGS)`),
		ev("cmd", 0, `NOOP`),
	}
}

// idle with buffered pushes: removals pushed during IDLE and still buffered when DONE arrives must come out before the
// completion result of DONE, not during the FETCH / STORE / SEARCH that follows.
func famC05IdleBulk() []explore.Event {
	return []explore.Event{
		ev("deliver", 0),
		conn("remove:INBOX:first"),
		conn("readd:INBOX"),
		ev("idle", 0), ev("done", 0),
		ev("cmd", 0, `FETCH 1:* (FLAGS)`),
		ev("cmd", 0, `SEARCH ALL`),
		ev("cmd", 0, `NOOP`),
		ev("cmd", 1, `STORE 1:* +FLAGS (\Deleted)`),
		ev("cmd", 1, `EXPUNGE`),
	}
}

func c05Families(d int) []explore.Family {
	o := []string{"c05", "c01", "c02"}
	sel3 := []string{"INBOX", "INBOX", "m2"}
	return []explore.Family{
		mboxFam("fetch-store-search", d, o, 2, nil, famC05Kinds1()),
		mboxFam("permitting-kinds", d, o, 3, sel3, famC05Kinds2()),
		mboxFam("idle-close-reselect", d, o, 2, nil, famC05Idle()),
		mboxFam("arrive-then-remove", d, o, 2, nil, famC05Arrive()),
		mboxFam("refused-commands", d, o, 2, nil, famC05Refused()),
		idleBulkFam("idle-bulk", d, o, famC05IdleBulk()),
	}
}

func C05(tier string) int {
	d, budget := 4, 300*time.Second
	if tier == "thorough" {
		d, budget = 6, 25*time.Minute
	}
	return RunE1(E1Spec{
		Prop: "C05", Level: "model_checking", Budget: budget,
		Families:    c05Families(d),
		Relabel:     map[string]string{"C01": "C05", "C02": "C05"},
		RelabelOnly: map[string][]string{"C02": {"removed-message-visible", "message-missing", "+"}},
		Assume: []string{
			"bounded: <=3 sessions, 2 mailboxes, 3 initial messages, depth as reported per family",
			"'held-back removals' are read from the session's responder queue through the verif dump hook; the converse of the EXPUNGEISSUED clause is not judged",
			"clause 'announced in order' is decided through the mirror: a wrongly ordered EXISTS/EXPUNGE pair makes the probe disagree with the mirror or duplicates a message in the view",
		},
	})
}

func init() {
	Registry["C05"] = C05
	DebugFamilies["C05"] = func() []explore.Family { return c05Families(4) }
}
