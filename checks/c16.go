package checks

import (
	"fmt"
	"time"

	"verif/scen/wire"
)

func c16Numbers(n int) []string {
	cand := []string{"1", "2", "3", fmt.Sprint(n), fmt.Sprint(n + 1), "2147483648", "4294967295", "4294967296", "4294967297", "9223372036854775807", "9223372036854775808", "18446744073709551617", "*"}
	seen := map[string]bool{}
	var out []string
	for _, c := range cand {
		if c == "0" || seen[c] {
			continue
		}
		seen[c] = true
		out = append(out, c)
	}
	return out
}

func c16Basic(n int) []string {
	nums := c16Numbers(n)
	var out []string
	out = append(out, nums...)
	for _, a := range nums {
		for _, b := range nums {
			out = append(out, a+":"+b)
		}
	}
	return out
}

func C16(tier string) int {
	var cases []any
	views := []int{3, 1, 0}
	readCmds := []string{"FETCH", "UID FETCH", "SEARCH", "UID SEARCH", "STORE", "UID STORE"}
	destrCmds := []string{"COPY", "UID COPY", "MOVE", "UID MOVE", "UID EXPUNGE"}
	for _, v := range views {
		basic := c16Basic(v)
		for _, cmd := range readCmds {
			for _, s := range basic {
				cases = append(cases, wire.C16Case{Cmd: cmd, Set: s, View: v})
			}
		}
		// unions
		unionWith := []string{"1", fmt.Sprint(v), fmt.Sprint(v + 1), "*", "4294967297"}
		ucmds := []string{"FETCH", "UID FETCH", "SEARCH"}
		if tier == "thorough" {
			ucmds = readCmds
		}
		if tier == "thorough" || v == 3 {
			for _, cmd := range ucmds {
				for _, s := range basic {
					for _, u := range unionWith {
						if u == "0" {
							continue
						}
						cases = append(cases, wire.C16Case{Cmd: cmd, Set: s + "," + u, View: v})
					}
				}
			}
		}
		for _, cmd := range readCmds {
			for _, s := range []string{"1,1", "1:2,2:3", "3,1,2", "1:3,2", "*,*", "2,4,5", "1,2:*,1"} {
				cases = append(cases, wire.C16Case{Cmd: cmd, Set: s, View: v})
			}
		}
	}
	var destr []any
	for _, v := range views {
		basic := c16Basic(v)
		if tier != "thorough" {
			// quick: singles and ranges over the small numbers and one huge representative
			var small []string
			for _, a := range []string{"1", "2", fmt.Sprint(v), fmt.Sprint(v + 1), "4294967297", "*"} {
				small = append(small, a)
				for _, b := range []string{"1", fmt.Sprint(v), fmt.Sprint(v + 1), "*"} {
					small = append(small, a+":"+b)
				}
			}
			basic = small
		}
		for _, cmd := range destrCmds {
			for _, s := range basic {
				destr = append(destr, wire.C16Case{Cmd: cmd, Set: s, View: v})
			}
			for _, s := range []string{"1,1", "1:2,2:3"} {
				destr = append(destr, wire.C16Case{Cmd: cmd, Set: s, View: v})
			}
		}
	}
	rule := "every message set built from the number alphabet {1,2,3,n,n+1,2^31,2^32-1,2^32,2^32+1,2^63-1,2^63,2^64+1,*}: all singles and ranges, unions with {1,n,n+1,*,2^32+1}, overlapping triples; against views of size 0,1,3 (UID gaps); per command; an outcome is non-trivial if the command selected at least one message or was refused; distinct = distinct (command, view, status, selected UID set)"
	return RunEnum(
		EnumSpec{Prop: "C16", Level: "exploration", Budget: 10 * time.Minute, Call: "c16", Cases: cases, Chunk: 400, Rule: rule,
			Assume: []string{"sets compared as sets (a union names a message once)", "'*' in an empty mailbox and UID n:* with n above the highest UID are not judged", "a UID >= 2^32 may be refused with BAD or treated as non-existent"}},
		EnumSpec{Prop: "C16", Level: "exploration", Call: "c16", Cases: destr, Chunk: 12, Rule: "destructive commands (COPY/MOVE/UID EXPUNGE): fixture rebuilt per case"},
	)
}

func init() { Registry["C16"] = C16 }
