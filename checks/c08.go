package checks

import (
	"fmt"
	"time"

	"github.com/ProtonMail/gluon/db"

	"verif/scen/db08"
)

// C08: the SQLite message index behaves like a plain relational model.
//
// The coordinator enumerates the cases (seed state + transactions, as data); the workers run them against the real
// index through the public db interface and compare every result and a full read-back with the in-memory model.
func C08(tier string) int {
	thorough := tier == "thorough"
	alphabet := db08.Alphabet()

	// Part 1: committed operation sequences. A case is (seed, prefix) and fans out over the complete alphabet, every
	// operation in its own committed transaction on its own copy of the state after the prefix.
	//   length <= 2: ALL (o1) and (o1, o2), no reduction.
	//   thorough, length 3 (every seed) and length 4 (seed "empty"): breadth-first over the MODEL; a prefix is kept only
	//   if it leads to a model state not reached by a shorter or earlier prefix. The database is verified equal to the
	//   model (full read-back) after every prefix operation, so the dropped prefixes lead to the same observable state.
	var seq []any
	nSeq := 0
	type node struct {
		m    *db08.Model
		path []db08.Op
	}
	prefixTxs := func(path []db08.Op) []db08.Tx {
		var txs []db08.Tx
		for _, o := range path {
			txs = append(txs, db08.Tx{Ops: []db08.Op{o}})
		}
		return txs
	}
	var level2 []db08.Case
	for _, seed := range db08.SmallSeeds {
		m0, h := db08.SeedModel(seed)
		seen := map[string]bool{m0.Hash(): true}
		seq = append(seq, db08.Case{Seed: seed, FanAll: "commit"})
		nSeq += len(alphabet)
		frontier := []node{{m0, nil}}
		maxDepth := 1
		if thorough {
			maxDepth = 2
			if seed == "empty" {
				maxDepth = 3
			}
		}
		for depth := 1; depth <= maxDepth; depth++ {
			var next []node
			for _, n := range frontier {
				for _, o := range alphabet {
					m := db08.Next(n.m, h, o)
					fresh := !seen[m.Hash()]
					seen[m.Hash()] = true
					if !fresh && depth > 1 {
						continue
					}
					path := append(append([]db08.Op(nil), n.path...), o)
					c := db08.Case{Seed: seed, Prefix: prefixTxs(path), FanAll: "commit"}
					seq = append(seq, c)
					nSeq += len(alphabet)
					if depth == 2 {
						level2 = append(level2, c)
					}
					if fresh {
						next = append(next, node{m, path})
					}
				}
			}
			frontier = next
		}
	}

	// Part 2: aborted transactions. Every operation aborted right after it (from every seed); every pair (o1, o2) in
	// ONE transaction aborted after o2 (o1 restricted to operations the model expects to succeed).
	var abort []any
	pairSeeds := []string{"basic", "worn"}
	if thorough {
		pairSeeds = db08.SmallSeeds
	}
	for _, seed := range db08.SmallSeeds {
		abort = append(abort, db08.Case{Seed: seed, FanAll: "abort1"})
	}
	for _, seed := range pairSeeds {
		for i := range alphabet {
			_, succ, _ := db08.Predict(seed, []db08.Op{alphabet[i]})
			if !succ[0] {
				continue
			}
			o1 := alphabet[i]
			abort = append(abort, db08.Case{Seed: seed, FanFirst: &o1})
		}
	}
	if thorough {
		// committed two-operation transactions (one representative per distinct model state)
		for _, c := range level2 {
			abort = append(abort, db08.Case{Seed: c.Seed, Prefix: []db08.Tx{{Ops: []db08.Op{c.Prefix[0].Ops[0], c.Prefix[1].Ops[0]}}}})
		}
	}

	// Part 3: every list-valued argument at the lengths around the batching limit, on the big seed.
	var big []any
	for _, n := range db08.Lengths() {
		for _, op := range db08.BigOps(n, thorough) {
			t := db08.Tx{Ops: []db08.Op{op}, Read: db08.IsRead(op.M)}
			big = append(big, db08.Case{Seed: "big", Fan: []db08.Tx{t}})
			if db08.IsRead(op.M) {
				// the same read inside a write transaction
				big = append(big, db08.Case{Seed: "big", Fan: []db08.Tx{{Ops: []db08.Op{op}, Abort: 1}}})
				continue
			}
			if thorough || n == db08.L+1 || n == 2*db08.L+1 {
				big = append(big, db08.Case{Seed: "big", Fan: []db08.Tx{{Ops: []db08.Op{op}, Abort: 1}}})
			}
		}
	}

	fmt.Printf("C08 %s: alphabet %d, cases: sequences %d (%d operation executions), aborted %d, list lengths %d\n", tier, len(alphabet), len(seq), nSeq, len(abort), len(big))
	rule := fmt.Sprintf("write alphabet: %d operation instances of the %d write methods over {mailboxes A,B,newest,missing} x {remote ids ra,rb,rc} x {names A,B,C} x "+
		"{messages m1..m3 + missing/creatable m4,m5} x {flags \\Seen,kw,KW}; seeds %v; ALL sequences (o1) and (o1,o2) of committed transactions from every seed"+
		" (thorough: plus (o1,o2,o3) from every seed and (o1,o2,o3,o4) from the empty seed, the prefix before the last operation reduced to one representative per distinct model state, breadth-first); after EVERY operation the result class/value and a full read-back "+
		"(all %d read methods over the tiny domains and everything the model knows) are compared with the model; every operation and every in-transaction pair additionally ABORTED "+
		"(read-back inside the transaction = model effect, read-back after = pre-state); every list-valued argument at lengths %v (L = db.ChunkLimit = %d); "+
		"evaluations = operation executions compared; distinct = distinct (method, result class, commit/rollback, state digest after)",
		len(alphabet), len(db08.WriteMethods), db08.SmallSeeds, len(db08.ReadMethods), db08.Lengths(), db.ChunkLimit)
	assume := []string{
		"flags are case-insensitive (imap.FlagSet); orders of set-valued results are not judged, GetMailboxMessageForNewSnapshot must be in UID order",
		"no contract (error-and-no-trace or the model effect are both accepted, counted in coverage.counters): unknown mailbox/message ids, adding a message twice, removing a missing row, deleting a message that is still in a mailbox, a deleted-subscription remote id clash, empty flag list for Add(Perm)FlagsToAllMailboxes",
		"single-row lookups of a missing key must return db.ErrNotFound; duplicate remote id / name / message id must be refused",
		"a mailbox listing may show a message's remote id as it was when the row was added or the current one",
		"internal mailbox ids are opaque: any id never handed out before is accepted; AddMessagesToMailbox assigns ascending UIDs in list order",
		"every operation's error is returned from the Write callback (as every caller does), so a failed operation must leave no trace",
	}
	extra := map[string]any{"alphabet": len(alphabet), "methods_read": len(db08.ReadMethods), "methods_write": len(db08.WriteMethods), "chunk_limit": db.ChunkLimit}
	return RunEnum(
		EnumSpec{Prop: "C08", Level: "model_checking", Budget: 45 * time.Minute, Call: "c08", Cases: seq, Chunk: 6, Rule: rule, Assume: assume, Extra: extra},
		EnumSpec{Prop: "C08", Level: "model_checking", Call: "c08", Cases: abort, Chunk: 4, Rule: "aborted transactions: every operation aborted after it; every in-transaction pair aborted after the second operation"},
		EnumSpec{Prop: "C08", Level: "model_checking", Call: "c08", Cases: big, Chunk: 4, Rule: "list lengths around db.ChunkLimit on a mailbox with 2L+1 messages (committed, aborted, reads through Read and inside Write)"},
	)
}

func init() { Registry["C08"] = C08 }
