package checks

import (
	"time"

	"github.com/ProtonMail/gluon/db"
	"verif/scen/mbox"

	"verif/engine/explore"
)

func famConnHeavy() []explore.Event {
	return []explore.Event{
		ev("deliver", 0), ev("cmd", 0, "NOOP"),
		conn("create:INBOX"),
		conn("addflag:INBOX:last:\\Flagged"),
		conn("remflag:INBOX:first:\\Seen"),
		conn("remove:INBOX:last"),
		conn("readd:INBOX"),
		conn("delete:INBOX:first"),
		conn("add:m2:first:INBOX"),
		conn("addfl:m2:first:INBOX:\\Flagged"),
		conn("movefl:INBOX:last:m2:\\Seen"),
		ev("cmd", 0, `FETCH 1:* (FLAGS)`),
	}
}

func c02Families(d, du int) []explore.Family {
	o := []string{"c02"}
	fams := sessionFamilies(o, d, du)
	fams = append(fams, mboxFam("connector-heavy", d, o, 2, nil, famConnHeavy()))
	return fams
}

func C02(tier string) int {
	d, du, budget := 4, 2, 300*time.Second
	if tier == "thorough" {
		d, du, budget = 6, 4, 25*time.Minute
	}
	code := RunE1(E1Spec{
		Prop: "C02", Level: "model_checking", Budget: budget,
		Families: c02Families(d, du),
		Assume: []string{
			"bounded: <=3 sessions, 2 mailboxes, 3 initial messages, depth as reported per family",
			"quiescence = every held update delivered to every session (real ApplyUpdate via the verif hooks), then NOOP; evaluated as a check-extension on every reached state, so every placement of the observer's flushes within the depth is covered",
			"\\Recent ignored",
		},
	})
	L := db.ChunkLimit
	var cases []any
	for _, n := range []int{2, L, L + 1, 2*L + 1} {
		cases = append(cases, mbox.GridCase{N: n, Op: "conn-arrival"})
	}
	c2 := RunEnumMerge("C02", "arrival_grid", EnumSpec{Prop: "C02", Level: "model_checking", Call: "c03grid", Cases: cases, Chunk: 1,
		Rule: "an observer with N messages selected, a connector batch of N more (N on both sides of the statement-batching limit), NOOP: the announced count and the observer's rows must equal the mailbox"})
	if c2 > code {
		code = c2
	}
	return code
}

func init() {
	Registry["C02"] = C02
	DebugFamilies["C02"] = func() []explore.Family { return c02Families(4, 2) }
}
