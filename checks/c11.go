package checks

import (
	"fmt"
	"os"
	"strconv"
	"strings"
	"time"

	"verif/engine/explore"

	"verif/scen/robust11"
)

// C11: arbitrary client bytes never crash, hang or bloat the server.
//
// Part 1 ("c11p") drives the real command parser the way the session's command reader does, over every token string
// up to a length bound appended to every stem. Part 2 ("c11w") sends inputs to a real server over an instrumented
// in-memory connection.
func C11(tier string) int {
	thorough := tier == "thorough"

	// ---- parser level ----
	maxLen := 3
	if thorough {
		maxLen = 4
	}
	var pcases []any
	nTok := len(robust11.Tokens)
	pcount := 0
	pow := func(b, e int) int {
		r := 1
		for ; e > 0; e-- {
			r *= b
		}
		return r
	}
	for l := 0; l <= maxLen; l++ {
		for _, stem := range robust11.Stems {
			if l <= 2 {
				pcases = append(pcases, robust11.PCase{Stem: stem, N: l})
				pcount += 2 * pow(nTok, l)
				continue
			}
			for t := 0; t < nTok; t++ {
				pcases = append(pcases, robust11.PCase{Stem: stem, First: []int{t}, N: l - 1})
				pcount += 2 * pow(nTok, l-1)
			}
		}
	}
	if thorough {
		// length 5 over the reduced alphabet
		for _, stem := range robust11.Stems {
			for _, t := range robust11.Small {
				pcases = append(pcases, robust11.PCase{Stem: stem, First: []int{t}, N: 4, Small: true})
				pcount += 2 * pow(len(robust11.Small), 4)
			}
		}
	}
	prule := fmt.Sprintf("every string of <= %d tokens over the %d-token structural alphabet %v appended to each of %d stems (tag + command text up to one grammar position, plus no keyword / no space / no tag), each once ending the stream there and once followed by CRLF and a well-formed NOOP", maxLen, nTok, robust11.TokenNames, len(robust11.Stems))
	if thorough {
		prule += fmt.Sprintf("; plus length 5 over the reduced alphabet of %d tokens", len(robust11.Small))
	}
	prule += "; the parser is driven like session.startCommandReader (literal continuation callback, ConsumeInvalidInput) through bufio+InputCollector over a reader that delivers one line at a time and counts reads after the end; an outcome is non-trivial when some parse round ends in an error or closes; distinct = distinct (stem, sequence of error classes)"

	// ---- wire level ----
	wlen := 2
	states := []string{"pre", "auth", "sel"}
	if thorough {
		wlen = 3
		states = []string{"pre", "auth", "sel"}
	}
	var wlines []any
	wcount := 0
	for l := 0; l <= wlen; l++ {
		for _, st := range states {
			for _, stem := range robust11.Stems {
				if l == 0 {
					wlines = append(wlines, robust11.WCase{Kind: "line", State: st, Stem: stem})
					wcount++
					continue
				}
				// one block per (l-1)-token prefix: the last token is enumerated inside the worker
				st, stem := st, stem
				robust11.ForEach(nil, l-1, robust11.AllTokens(), func(toks []int) {
					wlines = append(wlines, robust11.WCase{Kind: "line", State: st, Stem: stem, Toks: append([]int{}, toks...), More: 1})
					wcount += nTok
				})
			}
		}
	}
	// inputs found by the thorough tier, kept in every tier
	for _, st := range states {
		for _, raw := range robust11.Seeds {
			wlines = append(wlines, robust11.WCase{Kind: "raw", State: st, Text: strconv.Quote(raw)})
		}
	}
	var wcuts []any
	for i := range robust11.CutCommands {
		st, b := robust11.CutCommand(i)
		for at := 0; at <= len(b); at++ {
			for _, end := range []string{"abort", "half"} {
				wcuts = append(wcuts, robust11.WCase{Kind: "cut", State: st, Cmd: i, At: at, End: end})
			}
		}
	}
	var wscale []any
	sizes := map[string][]int{}
	nest := []int{1 << 6, 1 << 8, 1 << 10, 1 << 12, 1 << 14}
	if thorough {
		nest = append(nest, 1<<16)
	}
	long := []int{1 << 16, 1 << 20, 8 << 20}
	for _, sh := range robust11.ScaleShapes {
		switch sh {
		case "errors", "errors-then-noop":
			sizes[sh] = []int{1, 19, 20, 21, 40}
		case "literal-big":
			sizes[sh] = []int{1 << 10, 1 << 20, robust11.LiteralCap - 1}
		case "seqset-digits", "fetch-section-digits", "partial-digits", "literal-digits":
			sizes[sh] = []int{64, 1 << 10, 1000000}
		case "tag-long", "atom-long", "quoted-long", "quoted-escapes", "noop-garbage", "spaces", "open-line", "nul-line", "xff-line":
			sizes[sh] = long
		case "search-or":
			sizes[sh] = []int{1 << 6, 1 << 8, 1 << 10, 1 << 12, 1 << 14}
		case "search-nest-open-lines":
			sizes[sh] = []int{1 << 6, 1 << 8, 1 << 10, 1 << 11}
		case "search-nest-open", "list-nest":
			// parse-only nesting (no command is built): the 1 MB and 8 MB lines of the statement's example
			sizes[sh] = append(append([]int{}, nest...), 1<<16, 1<<20, 8<<20)
		default:
			sizes[sh] = nest
		}
	}
	for _, st := range []string{"sel", "pre"} {
		for _, sh := range robust11.ScaleShapes {
			seen := map[int]bool{}
			for _, n := range sizes[sh] {
				if seen[n] {
					continue
				}
				seen[n] = true
				wscale = append(wscale, robust11.WCase{Kind: "scale", State: st, Shape: sh, N: n})
			}
		}
	}
	wrule := fmt.Sprintf("real server, fresh connection per input: every line of <= %d alphabet tokens after each of the %d stems in the session states %v (sent unit by unit: a unit ends at CRLF; after each complete line two marker NOOPs make the replies observable without timing); every cut position of %d representative commands followed by an abrupt or a half-close disconnect; scale axis %v with sizes up to 2^16 nesting levels / 8 MB lines / 10^6 digits / a literal just below the cap; an outcome is non-trivial when a line is refused, the connection closes or the stream ends inside a line; distinct = distinct (kind, state, stem or shape, reply classes)", wlen, len(robust11.Stems), states, len(robust11.CutCommands), robust11.ScaleShapes)
	wassume := []string{
		"the server is allowed to close the connection: after LOGOUT, after >= 20 consecutive BAD replies, when the stream ends inside a line, on a literal announcement >= 30 MB, and with BYE on a line longer than 64 KB",
		"an empty line may be ignored or answered; a bare LF may be treated as a line end (up to one completion result per LF)",
		fmt.Sprintf("memory obtained from the OS (runtime.MemStats.Sys) may grow by at most %d + %d x input length per input; cumulative allocation above %d + %d x input length is only counted (note:superlinear-alloc), it is not a violation", robust11.WireBloatBase, robust11.WireBloatFactor, robust11.WireWorkBase, robust11.WireWorkFactor),
		"goroutine count is polled for up to 60 s to return to the baseline taken before the connection was opened",
		fmt.Sprintf("a case that does not finish within %v (scale axis: %v) kills the worker (reported as HANG/watchdog)", robust11.CaseDeadline, robust11.ScaleDeadline),
	}
	crashSig := func(stderr string) (string, string) {
		switch {
		case strings.Contains(stderr, "stack overflow") || strings.Contains(stderr, "goroutine stack exceeds"):
			return "CRASH", "stack-overflow"
		case strings.Contains(stderr, "out of memory") || strings.Contains(stderr, "cannot allocate memory"):
			return "CRASH", "out-of-memory"
		case strings.Contains(stderr, "panic: watchdog"):
			return "HANG", "watchdog"
		}
		return "CRASH", robust11.NormCrash(explore.CrashSig(stderr), stderr)
	}

	specs := []EnumSpec{{
		Prop: "C11", Level: "exploration", Budget: 14 * time.Minute, Call: "c11p", Cases: pcases, Chunk: 8, Rule: prule,
		Assume: []string{
			"a parse that asks for input more than 10^4 times after the end of the stream is declared to spin (no wall-clock bound)",
			fmt.Sprintf("allocation per input is bounded by %d + %d x input length (runtime.MemStats.TotalAlloc delta)", robust11.BloatBase, robust11.BloatFactor),
			"a literal announcement of 30 MB or more may be answered by closing the connection (the server's stated cap)",
			"a bare LF may be treated as a line end by the server; only lines of the form '<tag> SP ...' with a tag of [A-Za-z0-9._-] are required to be answered with that tag",
		},
		Extra: map[string]any{"parser_inputs": pcount},
	}, {
		Prop: "C11", Level: "exploration", Call: "c11w", Cases: wlines, Chunk: 42, Rule: wrule, Assume: wassume, CrashSig: crashSig,
		Extra: map[string]any{"wire_line_inputs": wcount, "wire_cut_inputs": len(wcuts), "wire_scale_inputs": len(wscale)},
	}, {
		Prop: "C11", Level: "exploration", Call: "c11w", Cases: wcuts, Chunk: 100, Rule: "cut axis", CrashSig: crashSig,
	}, {
		Prop: "C11", Level: "exploration", Call: "c11w", Cases: wscale, Chunk: 1, Rule: "scale axis", CrashSig: crashSig,
	}}
	// VERIF_C11_PARTS (debugging aid): comma separated subset of p,l,c,s (parser, wire lines, cuts, scale)
	if sel := os.Getenv("VERIF_C11_PARTS"); sel != "" {
		var keep []EnumSpec
		for i, name := range []string{"p", "l", "c", "s"} {
			if strings.Contains(","+sel+",", ","+name+",") {
				keep = append(keep, specs[i])
			}
		}
		if len(keep) > 0 {
			keep[0].Budget = 14 * time.Minute
			specs = keep
		}
	}
	return RunEnum(specs...)
}

func init() { Registry["C11"] = C11 }
