package checks

import (
	"time"

	"github.com/ProtonMail/gluon/db"

	"verif/engine/explore"
	"verif/scen/mbox"
)

type C04P struct{ mbox.C04Params }

func (p C04P) AlphabetStrings() []string {
	var out []string
	for _, e := range p.Alphabet {
		out = append(out, e.String())
	}
	return out
}

func c04Alphabet() []explore.Event {
	return []explore.Event{
		ev("append", 0, "INBOX"),
		ev("append", 0, "m2"),
		ev("append", 0, "nope"),
		ev("cmd", 0, `COPY 1 m2`),
		ev("cmd", 0, `COPY 99 m2`),
		ev("cmd", 0, `MOVE * m2`),
		ev("cmd", 1, `MOVE 1 INBOX`),
		ev("cmd", 0, `STORE * +FLAGS.SILENT (\Deleted)`),
		ev("cmd", 0, `EXPUNGE`),
		ev("cmd", 0, `DELETE m2`),
		ev("cmd", 0, `CREATE m2`),
		ev("cmd", 0, `RENAME m2 m3`),
		ev("cmd", 0, `RENAME m3 m2`),
		ev("cmd", 1, `SELECT m2`),
		ev("cmd", 2, `DELETE m2`),
		ev("cmd", 2, `CREATE m2`),
		ev("cmd", 2, `RENAME m2 m3`),
		conn("create:INBOX"),
		conn("bump"),
		{K: "restart"},
	}
}

func c04Families(d int) []explore.Family {
	return []explore.Family{{Name: "uid-history", Scenario: "c04", Depth: d, Params: C04P{mbox.C04Params{Alphabet: c04Alphabet()}}}}
}

func C04(tier string) int {
	d, budget := 3, 170*time.Second
	if tier == "thorough" {
		d, budget = 5, 25*time.Minute
	}
	code := RunE1(E1Spec{
		Prop: "C04", Level: "model_checking", Budget: budget,
		Families: c04Families(d),
		Assume: []string{
			"bounded: 2 sessions, 2-3 mailboxes, depth as reported; the UIDVALIDITY generator is a harness-owned persistent counter, so this part decides gluon's plumbing (which value is stored when); the clock-based generator is covered by the scheduler check listed in DESIGN.md",
			"the oracle state (UID -> message map per mailbox name and UIDVALIDITY, highest UID ever assigned, last UIDNEXT, UIDVALIDITY history per name) is carried along every path and is part of the canonical state",
		},
	})
	// COPYUID across the statement-batching limit
	L := db.ChunkLimit
	var cases []any
	for _, op := range []string{"copyuid-other", "moveuid-other"} {
		for _, n := range []int{2, L, L + 1, 2*L + 1} {
			cases = append(cases, mbox.GridCase{N: n, Op: op})
		}
	}
	c2 := RunEnumMerge("C04", "copyuid_grid", EnumSpec{Prop: "C04", Level: "model_checking", Call: "c03grid", Cases: cases, Chunk: 1,
		Rule: "COPY / UID MOVE 1:* of N messages for N on both sides of the statement-batching limit: every (source UID, destination UID) pair of the COPYUID response must name the same message"})
	if c2 > code {
		code = c2
	}
	return code
}

func init() {
	Registry["C04"] = C04
	DebugFamilies["C04"] = func() []explore.Family { return c04Families(3) }
}
