package checks

import (
	"time"

	"verif/engine/explore"
	"verif/engine/report"
	"verif/scen/auth"
)

type C18P struct{ auth.Params }

func (p C18P) AlphabetStrings() []string {
	var out []string
	for _, e := range p.Alphabet {
		out = append(out, e.String())
	}
	return out
}

func c18Alphabet() []explore.Event {
	cmds := []string{
		"CAPABILITY", "NOOP", "ID NIL", "LOGOUT",
		"LOGIN u1 p1", "LOGIN u1 wrong", "LOGIN u2 p2", "LOGIN ghost p1", "LOGIN u1 p2",
		"SELECT u1box", "SELECT u2box", "EXAMINE u1box", "CREATE newbox", "DELETE u1box", "RENAME u1box renamed",
		"SUBSCRIBE u1box", "UNSUBSCRIBE u1box", `LIST "" "*"`, `LSUB "" "*"`, "STATUS u1box (MESSAGES)", "STATUS u2box (MESSAGES)",
		"CHECK", "CLOSE", "UNSELECT", "EXPUNGE", "SEARCH ALL", "FETCH 1 (FLAGS)", `STORE 1 +FLAGS (\Deleted)`, "COPY 1 u1box", "MOVE 1 INBOX",
		"UID FETCH 1 (FLAGS)", `UID STORE 1 +FLAGS (\Seen)`, "UID COPY 1 INBOX", "UID EXPUNGE 1", "UID SEARCH ALL", "UID MOVE 1 u2box",
	}
	var out []explore.Event
	for _, c := range cmds {
		out = append(out, explore.Event{K: "cmd", A: c})
	}
	out = append(out, explore.Event{K: "append", A: "u1box"}, explore.Event{K: "append", A: "u2box"}, explore.Event{K: "idle", A: "IDLE"})
	return out
}

func c18Families(d int) []explore.Family {
	return []explore.Family{{Name: "all-commands", Scenario: "c18", Depth: d, Params: C18P{auth.Params{Alphabet: c18Alphabet()}}}}
}

func C18(tier string) int {
	d, budget := 5, 150*time.Second
	if tier == "thorough" {
		d, budget = 6, 20*time.Minute
	}
	code := RunE1(E1Spec{
		Prop: "C18", Level: "model_checking", Budget: budget,
		Families: c18Families(d),
		Assume: []string{
			"bounded: one session under test, two users with one mailbox + INBOX each, one representative of every command (39 events), depth as reported; STARTTLS is not exercised (no TLS on the in-memory listener)",
			"jail clause: every sequence of 4 login attempts over {ok, wrong password, unknown user, other user's password} with a 1.2 s jail time; the reply to the attempt after three consecutive failures must not arrive earlier than the jail time after the third failing attempt was SENT (a lower bound, insensitive to scheduling delay); results are in the 'jail' key of the coverage",
		},
		Extra: map[string]any{},
	})
	jc := c18Jail(tier)
	if code == 0 {
		code = jc
	}
	return code
}

// c18Jail runs the jail enumeration as a second report that is merged into the evidence of C18.
func c18Jail(tier string) int {
	kinds := []string{"badpw", "nouser", "crosspw", "ok"}
	var cases []any
	var rec func(prefix []string)
	rec = func(prefix []string) {
		if len(prefix) == 4 {
			// only sequences that reach the jail are timed (three consecutive failures somewhere before the end)
			c := 0
			reach := false
			for i, a := range prefix {
				if a == "ok" {
					c = 0
				} else {
					c++
				}
				if c == 3 && i < 3 {
					reach = true
				}
			}
			if reach {
				cases = append(cases, auth.JailCase{Attempts: append([]string{}, prefix...), JailMS: 1200})
			}
			return
		}
		for _, k := range kinds {
			rec(append(prefix, k))
		}
	}
	rec(nil)
	// longer histories over {wrong password, valid login}: the jail must work again after it has been served (a second
	// run of three failures), with and without a successful login in between
	n := 7
	if tier == "thorough" {
		n = 8
	}
	for bits := 0; bits < 1<<n; bits++ {
		var seq []string
		c, jails := 0, 0
		for i := 0; i < n; i++ {
			a := "badpw"
			if bits&(1<<i) != 0 {
				a = "ok"
			}
			seq = append(seq, a)
			if c == 3 {
				jails++ // this attempt is the jailed one; the counter starts again
				c = 0
			}
			if a == "ok" {
				c = 0
			} else {
				c++
			}
		}
		if jails >= 2 {
			cases = append(cases, auth.JailCase{Attempts: seq, JailMS: 600})
		}
	}
	_ = report.Tier
	return RunEnumMerge("C18", "jail", EnumSpec{Prop: "C18", Level: "model_checking", Call: "c18jail", Cases: cases, Chunk: 2,
		Rule: "all 4-attempt login sequences over 4 credential kinds that contain three consecutive failures before the last attempt, and all 7-attempt (thorough: 8) sequences over {wrong password, valid login} in which the jail is reached at least twice"})
}

func init() {
	Registry["C18"] = C18
	DebugFamilies["C18"] = func() []explore.Family { return c18Families(3) }
}
