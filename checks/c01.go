package checks

import (
	"time"

	"verif/engine/explore"
	"verif/scen/mbox"
)

func ev(k string, s int, a ...string) explore.Event {
	e := explore.Event{K: k, S: s}
	if len(a) > 0 {
		e.A = a[0]
	}
	if len(a) > 1 {
		e.B = a[1]
	}
	return e
}

func conn(op string, b ...string) explore.Event {
	e := explore.Event{K: "conn", A: op}
	if len(b) > 0 {
		e.B = b[0]
	}
	return e
}

type MboxParams struct {
	mbox.Params
}

func (p MboxParams) AlphabetStrings() []string {
	var out []string
	for _, e := range p.Alphabet {
		out = append(out, e.String())
	}
	return out
}

var baseInit = map[string][]mbox.InitMsg{
	"INBOX": {{Key: "a", Flags: []string{`\Seen`}}, {Key: "b"}},
	"m2":    {{Key: "c"}},
}

func mboxFam(name string, depth int, oracles []string, nsess int, sel []string, alphabet []explore.Event) explore.Family {
	return explore.Family{Name: name, Scenario: "mbox", Depth: depth, Params: MboxParams{mbox.Params{
		NSess: nsess, Sel: sel, Mailboxes: []string{"m2"}, Init: baseInit, Alphabet: alphabet, Oracles: oracles, Hold: true,
	}}}
}

// idleBulkFam: gluon's default configuration buffers what is pushed during IDLE (bulk time); with a bulk time far
// above the length of a run the buffer is only emptied when IDLE ends, which makes that path deterministic: everything
// must reach the client before the completion result of DONE.
func idleBulkFam(name string, depth int, oracles []string, alphabet []explore.Event) explore.Family {
	return explore.Family{Name: name, Scenario: "mbox", Depth: depth, Params: MboxParams{mbox.Params{
		NSess: 2, Mailboxes: []string{"m2"}, Init: baseInit, Alphabet: alphabet, Oracles: oracles, Hold: true, IdleBulkMS: 3600000,
	}}}
}

// Event families shared by C01 / C02 / C05 (O = session 0, A = session 1, B = session 2 selected on m2).
func famArrivalFlags() []explore.Event {
	return []explore.Event{
		ev("deliver", 0), ev("cmd", 0, "NOOP"),
		ev("append", 1, "INBOX", `\Seen`),
		ev("cmd", 1, `STORE 1 +FLAGS (\Flagged)`),
		ev("cmd", 1, `STORE * -FLAGS (\Seen)`),
		conn("create:INBOX"),
		conn("addflag:INBOX:last:\\Flagged"),
		conn("remflag:INBOX:first:\\Seen"),
		ev("cmd", 0, `STORE 1 +FLAGS.SILENT (\Flagged)`),
		ev("cmd", 0, `FETCH 1 (BODY[])`),
		ev("deliver", 1),
	}
}

func famRemoval() []explore.Event {
	return []explore.Event{
		ev("deliver", 0), ev("cmd", 0, "NOOP"),
		conn("remove:INBOX:first"),
		conn("readd:INBOX"),
		ev("cmd", 1, `STORE 1 +FLAGS (\Deleted)`),
		ev("cmd", 1, `EXPUNGE`),
		ev("cmd", 1, `MOVE 1 m2`),
		ev("cmd", 2, `MOVE 1 INBOX`),
		ev("cmd", 0, `FETCH 1 (FLAGS)`),
		ev("cmd", 0, `UID STORE 1:* +FLAGS (\Flagged)`),
		ev("cmd", 0, `EXPUNGE`),
		ev("deliver", 1),
	}
}

func famIdle() []explore.Event {
	return []explore.Event{
		ev("idle", 0), ev("done", 0), ev("deliver", 0), ev("cmd", 0, "NOOP"),
		ev("append", 1, "INBOX"),
		ev("cmd", 1, `STORE 1 +FLAGS (\Flagged)`),
		conn("remove:INBOX:first"),
		conn("readd:INBOX"),
		conn("create:INBOX"),
		conn("addflag:INBOX:last:\\Flagged"),
	}
}

func famOwn() []explore.Event {
	return []explore.Event{
		ev("deliver", 0),
		ev("append", 0, "INBOX"),
		ev("cmd", 0, `COPY 1 INBOX`),
		ev("cmd", 0, `MOVE 1 m2`),
		ev("cmd", 0, `STORE 1:* +FLAGS (\Deleted)`),
		ev("cmd", 0, `EXPUNGE`),
		ev("cmd", 0, `SELECT INBOX`),
		ev("cmd", 0, `STATUS INBOX (MESSAGES)`),
		ev("cmd", 0, `CLOSE`),
		ev("append", 1, "INBOX"),
		ev("cmd", 1, `STORE 1 +FLAGS (\Deleted)`),
		ev("cmd", 1, `EXPUNGE`),
	}
}

// flag-replace: STORE FLAGS (replacement form) over several messages, body fetches that set \Seen as a side
// effect, re-SELECT (so that messages are not \Recent), from both sessions.
func famFlagReplace() []explore.Event {
	return []explore.Event{
		ev("deliver", 0), ev("deliver", 1),
		ev("cmd", 1, `STORE 1:2 FLAGS (\Flagged)`),
		ev("cmd", 1, `FETCH 1 (BODY[])`),
		ev("cmd", 1, `FETCH 2 (RFC822.TEXT)`),
		ev("cmd", 1, `STORE 2 FLAGS ()`),
		ev("cmd", 1, `UID STORE 1:* FLAGS.SILENT (\Seen)`),
		ev("cmd", 0, `SELECT INBOX`),
		ev("cmd", 0, `STORE 1:* FLAGS (\Flagged)`),
		ev("cmd", 0, `FETCH 2 (BODY[])`),
		ev("cmd", 0, "NOOP"),
	}
}

// reselect-other: the observer leaves the mailbox for ANOTHER one (SELECT / EXAMINE) while announcements for the old
// one are still queued in its session; one message lives in both mailboxes. Nothing that was queued for the old
// mailbox may leak into the view of the new one.
func famReselectOther() []explore.Event {
	return []explore.Event{
		ev("deliver", 0),
		conn("create:INBOX"),
		conn("remove:INBOX:first"),
		conn("add:INBOX:first:m2"),
		ev("cmd", 1, `STORE 1 +FLAGS (\Deleted)`),
		ev("cmd", 1, `EXPUNGE`),
		ev("cmd", 0, `FETCH 1:* (FLAGS)`),
		ev("cmd", 0, `SELECT m2`),
		ev("cmd", 0, `EXAMINE m2`),
		ev("cmd", 0, `SELECT INBOX`),
		ev("cmd", 0, "NOOP"),
	}
}

func famUnion() []explore.Event {
	seen := map[string]bool{}
	var out []explore.Event
	for _, f := range [][]explore.Event{famArrivalFlags(), famRemoval(), famIdle(), famOwn(), famFlagReplace()} {
		for _, e := range f {
			if !seen[e.String()] {
				seen[e.String()] = true
				out = append(out, e)
			}
		}
	}
	return out
}

func sessionFamilies(oracles []string, d, dUnion int) []explore.Family {
	sel3 := []string{"INBOX", "INBOX", "m2"}
	return []explore.Family{
		mboxFam("arrival+flags", d, oracles, 2, nil, famArrivalFlags()),
		mboxFam("removal+readd", d, oracles, 3, sel3, famRemoval()),
		mboxFam("idle", d, oracles, 2, nil, famIdle()),
		mboxFam("own-commands", d, oracles, 2, nil, famOwn()),
		mboxFam("flag-replace", d, oracles, 2, nil, famFlagReplace()),
		mboxFam("union", dUnion, oracles, 3, sel3, famUnion()),
		idleBulkFam("idle-bulk", d, oracles, famIdle()),
		mboxFam("reselect-other", d, oracles, 2, nil, famReselectOther()),
	}
}

func C01(tier string) int {
	d, du, budget := 4, 2, 300*time.Second
	if tier == "thorough" {
		d, du, budget = 6, 4, 25*time.Minute
	}
	return RunE1(E1Spec{
		Prop: "C01", Level: "model_checking", Budget: budget,
		Families: sessionFamilies([]string{"c01"}, d, du),
		Assume: []string{
			"bounded: <=3 sessions, 2 mailboxes, 3 initial messages, depth as reported per family",
			"update delivery is the only scheduling nondeterminism between session and update goroutines (made explicit by the verif hold/deliver hooks)",
			"\\Recent is not compared; flags of messages addressed by the session's own .SILENT store count as unknown",
		},
	})
}

func init() {
	DebugFamilies["C01"] = func() []explore.Family { return sessionFamilies([]string{"c01"}, 4, 2) }
}
