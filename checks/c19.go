package checks

import (
	"time"

	"verif/scen/teardown"
)

func C19(tier string) int {
	states := []string{"greeted", "auth", "selected", "idle", "literal", "inflight", "held"}
	actions := []string{"logout", "drop", "removeuser", "close"}
	var cases []any
	for _, a := range actions {
		for _, s1 := range states {
			cases = append(cases, teardown.Case{States: []string{s1}, Action: a})
			for _, s2 := range states {
				if tier != "thorough" && !(s2 == "selected" || s2 == "idle" || s2 == "held") {
					continue
				}
				cases = append(cases, teardown.Case{States: []string{s1, s2}, Action: a})
			}
		}
	}
	return RunEnum(EnumSpec{Prop: "C19", Level: "exploration", Budget: 10 * time.Minute, Call: "c19", Cases: cases, Chunk: 6,
		Rule: "every tear-down configuration: protocol state of the first session {greeted, authenticated, selected, IDLE, mid-literal, command in flight, held + unflushed update} x optional second session state x {LOGOUT, abrupt disconnect, RemoveUser, Server.Close}; the action and the final Server.Close must return, and no goroutine with a gluon frame may be left; distinct = distinct configurations completed",
		Assume: []string{
			"this check enumerates configurations, each executed once under the Go scheduler: it decides 'RemoveUser and Close return' and 'no goroutine is left' for the enumerated configurations, not for every interleaving inside them",
			"lock-level interleavings are explored exhaustively only for the units covered by the cooperative scheduler (WriteControlledStore in C09, QueuedChannel in C02, the UIDVALIDITY generator in C04); interleavings of backend locks (user/state tables, wait groups) were not explored, and data-race freedom is not decided by interleaving exploration at all (see DESIGN.md)",
		},
	})
}

func init() { Registry["C19"] = C19 }
