package checks

import (
	"regexp"
	"strings"
	"time"

	"verif/engine/explore"

	"verif/scen/teardown"
)

func C19(tier string) int {
	states := []string{"greeted", "auth", "selected", "idle", "literal", "inflight", "held"}
	actions := []string{"logout", "logout-pipelined", "drop", "removeuser", "close"}
	var cases []any
	for _, a := range actions {
		for _, s1 := range states {
			cases = append(cases, teardown.Case{States: []string{s1}, Action: a})
			for _, s2 := range states {
				if tier != "thorough" && !(s2 == "selected" || s2 == "idle" || s2 == "held") {
					continue
				}
				cases = append(cases, teardown.Case{States: []string{s1, s2}, Action: a})
			}
		}
	}
	code := RunEnum(EnumSpec{Prop: "C19", Level: "exploration", Budget: 10 * time.Minute, Call: "c19", Cases: cases, Chunk: 6,
		Rule: "every tear-down configuration: protocol state of the first session {greeted, authenticated, selected, IDLE, mid-literal, command in flight, held + unflushed update} x optional second session state x {LOGOUT, abrupt disconnect, RemoveUser, Server.Close}; the action and the final Server.Close must return, and no goroutine with a gluon frame may be left; distinct = distinct configurations completed",
		Assume: []string{
			"this check enumerates configurations, each executed once under the Go scheduler: it decides 'RemoveUser and Close return' and 'no goroutine is left' for the enumerated configurations, not for every interleaving inside them",
			"lock-level interleavings are explored exhaustively only for the units covered by the cooperative scheduler (WriteControlledStore in C09, QueuedChannel in C02, the UIDVALIDITY generator in C04); interleavings of backend locks (user/state tables, wait groups) were not explored, and data-race freedom is not decided by interleaving exploration at all (see DESIGN.md)",
		},
	})
	// interleaving part: parties acting at once, every order of their database transactions
	core := []string{`STORE 2 +FLAGS (\Seen)`, `EXPUNGE`, `APPEND`, `MOVE 2 other`}
	cmd1 := core
	tds := []string{"drop1", "logout2", "removeuser", "close"}
	conns := []string{"created"}
	bound, maxSec := 2, 60
	if tier == "thorough" {
		cmd1 = append(append([]string{}, core...), `FETCH 1:* (BODY[])`, `CLOSE`, `SELECT other`, `CREATE x/y`, `UID COPY 2:3 other`)
		tds = append(tds, "drop2")
		conns = append(conns, "deleted", "mboxdeleted")
		bound, maxSec = 3, 240
	}
	var cc []any
	for _, c1 := range cmd1 {
		for _, td := range tds {
			// two parties: the command in flight and the tear-down action
			cc = append(cc, teardown.ConcCase{Cmd1: c1, Teardown: td, Bound: bound, MaxSec: maxSec})
			// further commands of session 1 are already in the command reader's hands
			cc = append(cc, teardown.ConcCase{Cmd1: c1, Teardown: td, Bound: 2, Pipe: true, MaxSec: maxSec})
			// a connector update as third party
			for _, cn := range conns {
				cc = append(cc, teardown.ConcCase{Cmd1: c1, Conn: cn, Teardown: td, Bound: 2, MaxSec: maxSec})
			}
			if tier == "thorough" {
				// held-update variant: state updates are handed to the sessions by the explorer
				cc = append(cc, teardown.ConcCase{Cmd1: c1, Teardown: td, Bound: 2, Hold: true, MaxSec: maxSec})
			}
		}
	}
	if tier == "thorough" {
		// a command on session 2 as third party
		for _, c1 := range core {
			for _, td := range []string{"drop1", "drop2", "removeuser", "close"} {
				for _, c2 := range []string{`STORE 3 +FLAGS (\Flagged)`, `EXPUNGE`} {
					cc = append(cc, teardown.ConcCase{Cmd1: c1, Cmd2: c2, Teardown: td, Bound: 2, MaxSec: maxSec})
				}
			}
		}
	}
	c2 := RunEnumMerge("C19", "interleavings", EnumSpec{Prop: "C19", Level: "exploration", Budget: 10 * time.Minute, Call: "c19conc", Cases: cc, Chunk: 1,
		Rule:   "parties acting at once on a real server (command in flight on session 1, optional command on session 2, optional connector update, tear-down action); every database transaction of the server parks at its start, the explorer waits for process-wide quiescence (goroutine dump: nobody but the explorer is runnable) and chooses which parked transaction proceeds; all orders within the preemption bound by depth-first replay on fresh servers; oracle: quiescent + nothing parked => every party completed (else deadlock), then Close returns and no gluon goroutine is left; distinct = distinct (case, completion statuses)",
		Assume: []string{"interleaving part: the scheduling unit is the database transaction (plus blocking points, since a party runs until it parks, blocks or completes); interleavings inside a transaction and of memory accesses are not explored"}})
	if c2 > code {
		code = c2
	}
	return code
}

// C19race is run by ./check with a -race build of this harness: the tear-down configurations and the concurrent
// parties of the interleaving part are executed free-running (no gates, no held updates: the explorer's hand-offs
// would be happens-before edges that blind the detector); the race detector halts the worker at the first report,
// which the enumeration driver attributes to the case and reports with the detector's output.
func C19race(tier string) int {
	states := []string{"selected", "idle", "inflight"}
	actions := []string{"logout", "drop", "removeuser", "close"}
	var cases []any
	for _, a := range actions {
		for _, s1 := range states {
			for _, s2 := range states {
				cases = append(cases, teardown.Case{States: []string{s1, s2}, Action: a})
			}
		}
	}
	cmd1 := []string{`STORE 2 +FLAGS (\Seen)`, `EXPUNGE`, `APPEND`, `MOVE 2 other`, `FETCH 1:* (BODY[])`, `SEARCH OR SEEN LARGER 1`, `CLOSE`, `SELECT other`}
	cmd2 := []string{"", `STORE 3 +FLAGS (\Flagged)`, `EXPUNGE`, `NOOP`, `FETCH 1:* (BODY[])`}
	var cc []any
	for _, c1 := range cmd1 {
		for _, td := range []string{"drop1", "drop2", "logout2", "removeuser", "close"} {
			for _, cn := range []string{"", "created", "deleted"} {
				for _, c2 := range cmd2 {
					if c2 != "" && td == "logout2" {
						continue
					}
					if tier != "thorough" && c2 != "" && cn != "" {
						continue
					}
					cc = append(cc, teardown.ConcCase{Cmd1: c1, Cmd2: c2, Conn: cn, Teardown: td, Free: true})
				}
			}
		}
	}
	raceSig := func(stderr string) (string, string) {
		if i := strings.Index(stderr, "WARNING: DATA RACE"); i >= 0 {
			return "data-race", raceSignature(stderr[i:])
		}
		return "CRASH", explore.CrashSig(stderr)
	}
	rule := "free-running executions under the Go race detector (GORACE halt_on_error): tear-down configurations and concurrent parties (command on session 1, optional command on session 2, optional connector update, tear-down action), each party set 4 times; a report is attributed to its case by re-running; distinct = distinct (case, completion statuses). Supporting pass, not an exhaustive one: the detector only sees the schedules the Go scheduler happens to produce"
	return RunEnumMerge("C19", "race", EnumSpec{Prop: "C19", Level: "exploration", Budget: 10 * time.Minute, Call: "c19", Cases: cases, Chunk: 3, Rule: rule, CrashSig: raceSig,
		Assume: []string{"race pass: a data race is reported only if the detector observes it in one of the free-running executions; absence of a report is not a proof of race freedom"}},
		EnumSpec{Prop: "C19", Level: "exploration", Call: "c19conc", Cases: cc, Chunk: 2, Rule: rule, CrashSig: raceSig})
}

var raceFrame = regexp.MustCompile(`(?m)^  (github\.com/ProtonMail/gluon\S*)\(\)$`)

// raceSignature names a race by the innermost gluon functions of its two accesses.
func raceSignature(report string) string {
	parts := strings.SplitN(report, "Previous ", 2)
	first, second := "?", "?"
	if m := raceFrame.FindStringSubmatch(parts[0]); m != nil {
		first = strings.TrimPrefix(m[1], "github.com/ProtonMail/gluon")
	}
	if len(parts) > 1 {
		body := parts[1]
		if i := strings.Index(body, "Goroutine "); i > 0 {
			body = body[:i]
		}
		if m := raceFrame.FindStringSubmatch(body); m != nil {
			second = strings.TrimPrefix(m[1], "github.com/ProtonMail/gluon")
		}
	}
	if second < first {
		first, second = second, first
	}
	return first + " x " + second
}

func init() { Registry["C19"] = C19; Registry["C19race"] = C19race }
