package checks

import (
	"time"

	"verif/engine/explore"
	"verif/engine/vconn"
	"verif/scen/mbox"
)

type C06P struct{ mbox.C06Params }

func (p C06P) AlphabetStrings() []string {
	var out []string
	for _, e := range p.Alphabet {
		out = append(out, e.String())
	}
	return out
}

func up(s vconn.Spec) explore.Event { return explore.Event{K: "conn", Spec: &s} }

const recoveryID = "GLUON-INTERNAL-RECOVERY-MBOX"

func c06Mailbox() []explore.Event {
	return []explore.Event{
		up(vconn.Spec{Kind: "MailboxCreated", Mbox: "mb-x", Name: []string{"x"}}),
		up(vconn.Spec{Kind: "MailboxCreated", Mbox: "mb-x", Name: []string{"x"}}), // duplicate
		up(vconn.Spec{Kind: "MailboxCreated", Mbox: recoveryID, Name: []string{"Recovered Messages"}}),
		up(vconn.Spec{Kind: "MailboxUpdated", Mbox: "mb-m2", Name: []string{"m2renamed"}}),
		up(vconn.Spec{Kind: "MailboxUpdated", Mbox: "mb-none", Name: []string{"y"}}),
		up(vconn.Spec{Kind: "MailboxUpdated", Mbox: recoveryID, Name: []string{"z"}}),
		up(vconn.Spec{Kind: "MailboxDeleted", Mbox: "mb-m2"}),
		up(vconn.Spec{Kind: "MailboxDeleted", Mbox: "mb-none"}),
		up(vconn.Spec{Kind: "MailboxDeleted", Mbox: recoveryID}),
		up(vconn.Spec{Kind: "MailboxIDChanged", Mbox: "mb-m2", NewID: "mb-m2-new"}),
		up(vconn.Spec{Kind: "MessagesCreated", Msg: "c-n1", Key: "n1", Mboxes: []string{"mb-m2"}}),
		up(vconn.Spec{Kind: "UIDValidityBumped"}),
		up(vconn.Spec{Kind: "Noop"}),
		ev("cmd", 0, "NOOP"),
	}
}

func c06Message() []explore.Event {
	return []explore.Event{
		up(vconn.Spec{Kind: "MessagesCreated", Msgs: []string{"c-n1", "c-n2"}, Keys: []string{"n1", "n2"}, Mboxes: []string{"0"}}),
		up(vconn.Spec{Kind: "MessagesCreated", Msg: "c-n3", Key: "n3", Mboxes: []string{"mb-none"}}),
		up(vconn.Spec{Kind: "MessagesCreated", Msg: "c-n3", Key: "n3", Mboxes: []string{"0", "mb-none"}, Ignore: true}),
		up(vconn.Spec{Kind: "MessagesCreated", Msg: "c-a", Key: "a", Mboxes: []string{"0", "mb-m2"}, Flags: []string{`\Seen`}}), // existing message
		up(vconn.Spec{Kind: "MessageMailboxesUpdated", Msg: "c-a", Mboxes: []string{"mb-m2"}, Flags: []string{`\Seen`}}),
		up(vconn.Spec{Kind: "MessageMailboxesUpdated", Msg: "c-a", Mboxes: []string{"0", "mb-m2"}, Flags: []string{`\Seen`, `\Flagged`}}),
		up(vconn.Spec{Kind: "MessageMailboxesUpdated", Msg: "c-b", Mboxes: []string{}, Flags: []string{}}),
		up(vconn.Spec{Kind: "MessageMailboxesUpdated", Msg: "c-none", Mboxes: []string{"0"}, Flags: []string{}}),
		up(vconn.Spec{Kind: "MessageMailboxesUpdated", Msg: "c-a", Mboxes: []string{recoveryID}, Flags: []string{}}),
		up(vconn.Spec{Kind: "MessageFlagsUpdated", Msg: "c-b", Flags: []string{`\Flagged`}}),
		up(vconn.Spec{Kind: "MessageFlagsUpdated", Msg: "c-none", Flags: []string{`\Seen`}}),
		up(vconn.Spec{Kind: "MessageDeleted", Msg: "c-a"}),
		up(vconn.Spec{Kind: "MessageDeleted", Msg: "c-none"}),
		ev("cmd", 0, "NOOP"),
	}
}

func c06Update() []explore.Event {
	return []explore.Event{
		up(vconn.Spec{Kind: "MessageUpdated", Msg: "c-a", Key: "a", Mboxes: []string{"0"}, Flags: []string{`\Seen`, `\Flagged`}}),
		up(vconn.Spec{Kind: "MessageUpdated", Msg: "c-a", Key: "a2", Mboxes: []string{"0"}, Flags: []string{`\Seen`}}),
		up(vconn.Spec{Kind: "MessageUpdated", Msg: "c-a", Key: "a", Mboxes: []string{"mb-m2"}, Flags: []string{}}),
		up(vconn.Spec{Kind: "MessageUpdated", Msg: "c-new", Key: "nw", Mboxes: []string{"0"}, Flags: []string{}, Allow: true}),
		up(vconn.Spec{Kind: "MessageUpdated", Msg: "c-new2", Key: "nw2", Mboxes: []string{"0"}, Flags: []string{}}),
		up(vconn.Spec{Kind: "MessageIDChanged", Msg: "c-b", NewID: "c-b-new"}),
		up(vconn.Spec{Kind: "MessageIDChanged", Msg: "c-none", NewID: "c-x"}),
		up(vconn.Spec{Kind: "MessageFlagsUpdated", Msg: "c-b-new", Flags: []string{`\Flagged`}}),
		up(vconn.Spec{Kind: "MessageDeleted", Msg: "c-b"}),
		ev("cmd", 0, "NOOP"),
	}
}

func c06Client() []explore.Event {
	return []explore.Event{
		ev("cmd", 0, `STORE 1 +FLAGS (\Flagged)`),
		ev("cmd", 0, `STORE 1 -FLAGS (\Seen)`),
		ev("cmd", 0, `MOVE 1 m2`),
		ev("cmd", 0, `COPY 1 m2`),
		ev("append", 0, "INBOX"),
		{K: "echo"},
		up(vconn.Spec{Kind: "MessageFlagsUpdated", Msg: "c-b", Flags: []string{`\Flagged`}}),
		up(vconn.Spec{Kind: "MessageMailboxesUpdated", Msg: "c-a", Mboxes: []string{"mb-m2"}, Flags: []string{`\Seen`}}),
		up(vconn.Spec{Kind: "MessagesCreated", Msg: "c-n1", Key: "n1", Mboxes: []string{"0"}}),
		ev("cmd", 0, "NOOP"),
	}
}

func c06Families(d int) []explore.Family {
	mk := func(name string, a []explore.Event) explore.Family {
		return explore.Family{Name: name, Scenario: "c06", Depth: d, Params: C06P{mbox.C06Params{Alphabet: a}}}
	}
	return []explore.Family{mk("mailbox-updates", c06Mailbox()), mk("message-updates", c06Message()), mk("message-updated+id", c06Update()), mk("client-echo", c06Client())}
}

func C06(tier string) int {
	d, budget := 3, 170*time.Second
	if tier == "thorough" {
		d, budget = 4, 25*time.Minute
	}
	return RunE1(E1Spec{
		Prop: "C06", Level: "model_checking", Budget: budget,
		Families: c06Families(d),
		Assume: []string{
			"bounded: 1 observer session, 2-3 mailboxes, 2 initial messages, update lists of the reported depth over ~45 update instances (every kind x valid / unknown id / protected mailbox / duplicate)",
			"an update counts as valid when it refers only to known objects and not to the protected mailbox; for other updates only 'acknowledged once' and 'later updates are still processed' are judged",
			"restatements = echoes of the last client action, the last applied update again, and updates synthesised from the current state; flags are limited to \\Seen/\\Flagged because the remote side does not know about client keywords",
		},
	})
}

func init() {
	Registry["C06"] = C06
	DebugFamilies["C06"] = func() []explore.Family { return c06Families(3) }
}
