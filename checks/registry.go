package checks

var Registry = map[string]func(tier string) int{
	"C01": C01,
}
