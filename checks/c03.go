package checks

import (
	"time"

	"github.com/ProtonMail/gluon/db"

	"verif/engine/explore"
	"verif/scen/mbox"
)

type C03P struct{ mbox.C03Params }

func (p C03P) AlphabetStrings() []string {
	var out []string
	for _, e := range p.Alphabet {
		out = append(out, e.String())
	}
	return out
}

var c03Init = map[string][]mbox.InitMsg{
	"INBOX": {{Key: "a", Flags: []string{`\Seen`}}, {Key: "b"}, {Key: "c", Flags: []string{`\Flagged`}}},
	"m2":    {{Key: "d"}},
}

func c03Fam(name string, depth int, sel []string, alphabet []explore.Event) explore.Family {
	return explore.Family{Name: name, Scenario: "c03", Depth: depth, Params: C03P{mbox.C03Params{Sel: sel, Mailboxes: []string{"m2", "m3"}, Init: c03Init, Alphabet: alphabet}}}
}

func c03StoreExpunge() []explore.Event {
	return []explore.Event{
		ev("append", 0, "INBOX"),
		ev("append", 0, "INBOX", `\Deleted`),
		ev("cmd", 0, `STORE 1 +FLAGS (\Seen)`),
		ev("cmd", 0, `STORE 1:* +FLAGS (\Deleted)`),
		ev("cmd", 0, `STORE 2:3 -FLAGS (\seen \Deleted)`),
		ev("cmd", 0, `STORE * FLAGS (kw)`),
		ev("cmd", 0, `STORE 1:* FLAGS ()`),
		ev("cmd", 0, `UID STORE 1:2 +FLAGS.SILENT (KW \Flagged)`),
		ev("cmd", 0, `EXPUNGE`),
		ev("cmd", 0, `UID EXPUNGE 1:2`),
		ev("reselect", 0),
		ev("cmd", 1, `STORE 1 +FLAGS (\Deleted)`),
		ev("cmd", 1, `EXPUNGE`),
	}
}

func c03CopyMove() []explore.Event {
	return []explore.Event{
		ev("append", 1, "INBOX", `\Seen`),
		ev("cmd", 0, `COPY 1 INBOX`),
		ev("cmd", 0, `COPY 1:* m2`),
		ev("cmd", 0, `COPY 2:3 m2`),
		ev("cmd", 0, `MOVE 1 m2`),
		ev("cmd", 0, `MOVE * INBOX`),
		ev("cmd", 0, `UID MOVE 1:* m3`),
		ev("cmd", 1, `COPY 1 INBOX`),
		ev("cmd", 1, `MOVE 1:* INBOX`),
		ev("cmd", 0, `STORE 1 +FLAGS (\Deleted)`),
		ev("cmd", 1, `STORE * +FLAGS (\Deleted \Seen)`),
		ev("cmd", 0, `EXPUNGE`),
		ev("cmd", 1, `EXPUNGE`),
	}
}

// c03Shared: one message lives in two mailboxes (its flags are shared, its \Deleted mark is per mailbox) and each
// mailbox is open in a different session, so that every flag change made in one mailbox reaches the other
// session as an update about a message it holds too.
func c03Shared() []explore.Event {
	return []explore.Event{
		ev("cmd", 0, `STORE 1 +FLAGS (\Deleted)`),
		ev("cmd", 0, `STORE 1 -FLAGS (\Deleted)`),
		ev("cmd", 0, `STORE 1 +FLAGS (kw1)`),
		ev("cmd", 0, `EXPUNGE`),
		ev("reselect", 0),
		ev("cmd", 1, `STORE * +FLAGS (kw2)`),
		ev("cmd", 1, `STORE * -FLAGS (\Seen)`),
		ev("cmd", 1, `STORE * +FLAGS (\Deleted)`),
		ev("cmd", 1, `EXPUNGE`),
	}
}

var c03SharedInit = map[string][]mbox.InitMsg{
	"INBOX": {{Key: "a", Flags: []string{`\Seen`}}, {Key: "b"}},
	"m2":    {{Key: "d"}, {Key: "a", Flags: []string{`\Seen`}}},
}

func c03Families(d int) []explore.Family {
	shared := c03Fam("shared-message", d+1, []string{"INBOX", "m2"}, c03Shared())
	shared.Params = C03P{mbox.C03Params{Sel: []string{"INBOX", "m2"}, Mailboxes: []string{"m2", "m3"}, Init: c03SharedInit, Alphabet: c03Shared()}}
	return []explore.Family{
		c03Fam("store-expunge", d, []string{"INBOX", "INBOX"}, c03StoreExpunge()),
		c03Fam("copy-move", d, []string{"INBOX", "m2"}, c03CopyMove()),
		shared,
	}
}

func C03(tier string) int {
	d, budget := 3, 170*time.Second
	if tier == "thorough" {
		d, budget = 5, 25*time.Minute
	}
	code := RunE1(E1Spec{
		Prop: "C03", Level: "model_checking", Budget: budget,
		Families: c03Families(d),
		Assume: []string{
			"bounded: 2 sessions, 3 mailboxes, 4 initial messages, depth as reported",
			"every command is preceded by NOOP on its session so that sequence numbers refer to the current mailbox (stale views are the subject of C01/C02/C05); which messages a set addresses is read from the session's snapshot (set resolution itself is C16)",
			"reference semantics: flags shared per message, \\Deleted per mailbox, case-insensitive; COPY/MOVE onto a mailbox that already holds the message re-adds it at the end; NO/BAD leaves the model unchanged",
		},
	})
	// batch grid: message sets on both sides of the statement-batching limit L (db.ChunkLimit), through IMAP
	L := db.ChunkLimit
	ns := []int{L - 1, L, L + 1, 2*L + 1}
	if tier == "thorough" {
		ns = []int{L/2 - 1, L / 2, L/2 + 1, L - 1, L, L + 1, 2*L - 1, 2 * L, 2*L + 1}
	}
	var cases []any
	for _, op := range []string{"store+kw", "store-kw", "store-seen", "store=seen", "store=none", "expunge", "uidexpunge", "close", "copy-other", "move-other", "copy-same"} {
		for _, n := range ns {
			cases = append(cases, mbox.GridCase{N: n, Op: op})
		}
	}
	c2 := RunEnumMerge("C03", "batch_grid", EnumSpec{Prop: "C03", Level: "model_checking", Call: "c03grid", Cases: cases, Chunk: 1,
		Rule:   "grid: message count N on both sides of the index's statement-batching limit x {STORE +/-/= flags, EXPUNGE, UID EXPUNGE, CLOSE, COPY / MOVE 1:* to another and to the same mailbox}; N messages are created by one connector batch, the command is issued over IMAP and every mailbox is compared with the model (membership, order, flags); distinct = distinct (operation, N, resulting counts)",
		Assume: []string{"batch grid: one session, message set 1:* only"}})
	if c2 > code {
		code = c2
	}
	return code
}

func init() {
	Registry["C03"] = C03
	DebugFamilies["C03"] = func() []explore.Family { return c03Families(4) }
}
