package checks

import (
	"fmt"
	"sort"
	"time"

	"verif/scen/store09"
)

// c09Sizes is the set of content lengths of the sizes part. blockSize (disk.go) counts bytes of the COMPRESSED
// stream: incompressible content of n bytes compresses to n + 7 (frame header) + 4 per started 64 KiB + 4 (end
// mark), so the window below each multiple of blockSize is widened to 64 bytes to make the compressed length hit
// every value around the AEAD block boundary as well (k*blockSize-27-4k).
func c09Sizes(tier string) []int {
	bs := store09.BlockSize
	set := map[int]bool{}
	add := func(v ...int) {
		for _, x := range v {
			if x >= 0 {
				set[x] = true
			}
		}
	}
	add(0, 1, 15, 16, 17, 64*1024-1, 64*1024, 64*1024+1, 4<<20+1)
	window := func(k int) {
		for d := -64; d <= 17; d++ {
			add(k*bs + d)
		}
	}
	window(1)
	window(2)
	if tier == "thorough" {
		for n := 0; n <= 4096; n++ {
			add(n)
		}
		for k := 1; k <= 32; k++ { // around every LZ4 block boundary of the plain text
			add(k*64*1024-1, k*64*1024, k*64*1024+1)
		}
		for k := 3; k <= 8; k++ {
			window(k)
		}
		add(16<<20+1, 32<<20+1, 64<<20+1)
	}
	var out []int
	for v := range set {
		out = append(out, v)
	}
	sort.Ints(out)
	return out
}

func c09CorruptCases(tier string) ([]any, map[string]int, error) {
	var cases []any
	fileLen := map[string]int{}
	otherPass := []string{"", "c09-passphrasf", "c09-passphras", "c09-passphrase\x00", "C09-passphrase", "c09-passphrasec09-passphrase"}
	ops := func(file string, pos int, all bool) {
		if all {
			for m := 1; m <= 255; m++ {
				cases = append(cases, store09.CorruptCase{File: file, Op: "xor", Pos: pos, Val: m})
			}
			return
		}
		for bit := 0; bit < 8; bit++ {
			cases = append(cases, store09.CorruptCase{File: file, Op: "xor", Pos: pos, Val: 1 << bit})
		}
		cases = append(cases, store09.CorruptCase{File: file, Op: "set", Pos: pos, Val: 0x00}, store09.CorruptCase{File: file, Op: "set", Pos: pos, Val: 0xFF})
	}
	// small files: EVERY truncation length and EVERY single-byte alteration
	small := []string{"small", "empty", "small-text"}
	for _, f := range small {
		b, err := store09.GetBase(f)
		if err != nil {
			return nil, nil, err
		}
		fileLen[f] = len(b.Raw)
		for n := 0; n <= len(b.Raw); n++ {
			cases = append(cases, store09.CorruptCase{File: f, Op: "trunc", Pos: n})
		}
		for p := 0; p < len(b.Raw); p++ {
			ops(f, p, tier == "thorough")
		}
		for _, o := range otherPass {
			cases = append(cases, store09.CorruptCase{File: f, Op: "pass", Arg: o})
		}
	}
	// 3-block files: truncation at every format boundary +-1, alteration of first/last byte of every region
	for _, f := range []string{"blocks3", "aligned3"} {
		b, err := store09.GetBase(f)
		if err != nil {
			return nil, nil, err
		}
		if b.NBlocks != 3 {
			return nil, nil, fmt.Errorf("base file %s has %d blocks, want 3", f, b.NBlocks)
		}
		fileLen[f] = len(b.Raw)
		tr := map[int]bool{0: true, 1: true}
		al := map[int]bool{}
		for _, r := range b.Regions {
			for _, n := range []int{r.Start - 1, r.Start, r.Start + 1, r.End - 1, r.End, r.End + 1} {
				if n >= 0 && n <= len(b.Raw) {
					tr[n] = true
				}
			}
			al[r.Start], al[r.End-1] = true, true
			if tier == "thorough" {
				for d := 0; d < 64 && r.Start+d < r.End; d++ {
					al[r.Start+d], al[r.End-1-d] = true, true
				}
			}
		}
		if tier == "thorough" {
			// every truncation length inside the header, nonce and first tag-sized piece of each block
			for n := 0; n <= store09.HeaderLen+store09.NonceLen+store09.TagLen+1; n++ {
				tr[n] = true
			}
		}
		for _, n := range sortedKeys(tr) {
			cases = append(cases, store09.CorruptCase{File: f, Op: "trunc", Pos: n})
		}
		for _, p := range sortedKeys(al) {
			ops(f, p, false)
		}
		for _, o := range store09.BlockOps {
			cases = append(cases, store09.CorruptCase{File: f, Op: "blocks", Arg: o})
		}
		for _, o := range otherPass {
			cases = append(cases, store09.CorruptCase{File: f, Op: "pass", Arg: o})
		}
	}
	return cases, fileLen, nil
}

func sortedKeys(m map[int]bool) []int {
	var out []int
	for k := range m {
		out = append(out, k)
	}
	sort.Ints(out)
	return out
}

// c09Sequential returns the sequential parts of C09: sizes x contents x scenarios, and file corruption.
func c09Sequential(tier string) []EnumSpec {
	var sizeCases, bigCases []any // multi-megabyte sizes get one worker job per case
	sizes := c09Sizes(tier)
	contents := store09.Contents
	if tier == "thorough" {
		contents = append(append([]string{}, contents...), "mixed")
	}
	for _, n := range sizes {
		for _, c := range contents {
			for _, s := range store09.Scenarios {
				if n >= 1<<20 {
					bigCases = append(bigCases, store09.SizeCase{Size: n, Content: c, Scen: s})
					continue
				}
				sizeCases = append(sizeCases, store09.SizeCase{Size: n, Content: c, Scen: s})
			}
		}
	}
	corrupt, fileLen, err := c09CorruptCases(tier)
	if err != nil {
		// surfaces as an engine error of the part: a single undecodable case makes the batch function fail
		fmt.Printf("ENGINE-ERROR C09: cannot build the base files: %v\n", err)
		corrupt = []any{store09.CorruptCase{File: "base-file-construction-failed: " + err.Error(), Op: "trunc"}}
	}
	ruleS := fmt.Sprintf("sizes part: %d content lengths {0,1,15,16,17,64KiB-1..+1, every value k*blockSize-64..k*blockSize+17 for k=1,2%s, 4MiB+1%s} x content {zeros,text,incompressible splitmix64 stream} x scenario {fresh,overwrite larger->smaller->back,neighbour ids untouched,delete,list,failset (reader fails after 0,n/2,n-1,n bytes)}, every combination; "+
		"corruption part: every truncation length and every single-byte alteration (8 bit flips, 0x00, 0xFF%s) of a 300-byte, a 58-byte (empty content) and a compressible-text file; for two 3-block files (one whose LZ4 block boundaries coincide with the AEAD block boundaries) every truncation at each format boundary +-1, first/last byte of every region (magic, version, nonce, each block's ciphertext and tag) x 10 alterations, 8 whole-block operations (swap, duplicate, drop, append), 6 other passphrases; "+
		"distinct = distinct (part, scenario|file, content|operation, number of AEAD blocks and tail class | format region, result class)", len(sizes),
		map[bool]string{true: ",...,8; every length 0..4096; 64KiB*k-1..+1 for k<=32", false: ""}[tier == "thorough"],
		map[bool]string{true: ", 16/32/64MiB+1; plus content 'mixed' (512 B incompressible / 512 B zeros alternating)", false: ""}[tier == "thorough"],
		map[bool]string{true: "; thorough: all 255 other values of every byte, and 64 bytes at both ends of every region of the 3-block files", false: ""}[tier == "thorough"])
	assume := []string{
		"blockSize/header/nonce/tag lengths mirror store/disk.go; every base file written by the real Set is checked against this layout (decrypting block by block) and a mismatch is an engine error",
		"while a BASE file for the corruption part is written, crypto/rand.Reader is replaced by a fixed stream so the nonce (and the file) is identical in every run; all other Sets use the real random nonce",
		"after a Set whose reader failed, Get may return the old bytes, the complete new bytes or an error",
		"an alteration that leaves the file unchanged (byte already has the value) and the truncation to the full length are judged by the same oracle (original bytes expected or error)",
		"store opened without Fallback (the default of OnDiskStoreBuilder)",
	}
	// The corruption part runs first (its cases are the simplest: a 300-byte file), so the witness kept for a
	// violation class that both parts can show is the plain altered file.
	return []EnumSpec{
		{Prop: "C09", Level: "fault_enumeration", Budget: 14 * time.Minute, Call: "c09c", Common: store09.Common{Run: store09.RunTag(), FileLen: fileLen}, Cases: corrupt, Chunk: 64,
			Rule: ruleS, Assume: assume, Extra: map[string]any{"base_file_bytes": fileLen}},
		{Prop: "C09", Level: "fault_enumeration", Call: "c09s", Common: store09.Common{Run: store09.RunTag()}, Cases: sizeCases, Chunk: 24, Rule: "sizes part (see first rule)",
			Extra: map[string]any{"sizes": len(sizes), "block_size": store09.BlockSize}},
		{Prop: "C09", Level: "fault_enumeration", Call: "c09s", Common: store09.Common{Run: store09.RunTag()}, Cases: bigCases, Chunk: 1, Rule: "sizes part, multi-megabyte sizes (see first rule)"},
	}
}

func C09(tier string) int {
	defer store09.Cleanup()
	return RunEnum(c09Sequential(tier)...)
}

func init() { Registry["C09"] = C09 }
