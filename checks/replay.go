package checks

import (
	"encoding/json"
	"fmt"
	"os"

	"verif/engine/enumt"
	"verif/engine/explore"
)

// Replay re-executes a replay artefact without the explorer (in this process) and prints what it finds.
func Replay(path string) int {
	b, err := os.ReadFile(path)
	if err != nil {
		fmt.Println(err)
		return 2
	}
	var art struct {
		Property  string `json:"property"`
		Signature string `json:"signature"`
		Replay    struct {
			Engine   string          `json:"engine"`
			Scenario string          `json:"scenario"`
			Params   json.RawMessage `json:"params"`
			Events   []explore.Event `json:"events"`
			Call     string          `json:"call"`
			Common   json.RawMessage `json:"common"`
			Case     json.RawMessage `json:"case"`
		} `json:"replay"`
	}
	if err := json.Unmarshal(b, &art); err != nil {
		fmt.Println(err)
		return 2
	}
	found := 0
	switch art.Replay.Engine {
	case "E1":
		run, err := explore.NewRun(art.Replay.Scenario, art.Replay.Params)
		if err != nil {
			fmt.Println(err)
			return 2
		}
		var vs []explore.Violation
		for _, e := range art.Replay.Events {
			fmt.Println("event:", e)
			vs = append(vs, run.Step(e)...)
		}
		vs = append(vs, run.Extensions()...)
		run.Close()
		for _, v := range vs {
			fmt.Printf("  %s %s/%s: %s\n", v.Prop, v.Clause, v.Sig, v.Msg)
			found++
		}
	case "ENUM":
		chunk := enumt.Chunk{Common: art.Replay.Common, Cases: []json.RawMessage{art.Replay.Case}}
		raw, _ := json.Marshal(chunk)
		res, err := explore.Call(art.Replay.Call, raw)
		if err != nil {
			fmt.Println("error:", err)
			return 2
		}
		out, _ := json.Marshal(res)
		var er enumt.Result
		_ = json.Unmarshal(out, &er)
		for _, v := range er.Viol {
			fmt.Printf("  %s/%s: %s\n", v.Clause, v.Sig, v.Msg)
			found++
		}
	default:
		fmt.Println("unknown replay engine", art.Replay.Engine)
		return 2
	}
	if found > 0 {
		fmt.Printf("VIOLATION property=%s replay=%s\n", art.Property, path)
		return 1
	}
	fmt.Println("no violation reproduced")
	return 0
}
