package checks

import (
	"fmt"
	"time"

	"verif/scen/parse10"
)

// C10: every valid IMAP command parses to exactly the command that was written.
//
// The coordinator runs the deterministic generator once to learn the families and their sizes; a case is just
// (family, index) - the worker re-generates the family and renders / parses every variant of that abstract command.
func C10(tier string) int {
	thorough := tier == "thorough"
	g := parse10.Generate(thorough, "", false)
	var cases []any
	total := 0
	fams := map[string]int{}
	for _, name := range g.Order {
		n := g.Count[name]
		fams[name] = n
		total += n
		for i := 0; i < n; i++ {
			cases = append(cases, parse10.Case{Fam: name, Idx: i})
		}
	}
	fmt.Printf("C10 generator: %d families, %d abstract commands\n", len(g.Order), total)
	chunk := 150
	budget := 5 * time.Minute
	if thorough {
		budget = 30 * time.Minute
	}
	rule := "abstract commands are generated from the RFC 3501/2971/4315/6851/2177/3691 grammar as (expected command.Command, wire pieces): " +
		"every command; every string slot swept over every printable ATOM-CHAR (alone and inside an atom) plus one representative per string class " +
		"(needs quoting, empty, quoted-specials, resp-special, 8-bit+CRLF, literal-header look-alike, keyword look-alike, digits); " +
		"sequence sets of <=3 elements over {1,2,4294967295,*} as numbers and ranges (all 8420 for UID EXPUNGE, FETCH, the SEARCH sequence-set key; the other commands <=2 in quick, <=3 in thorough); " +
		"flag lists <=3 over 8 flags x 3 actions x SILENT x parenthesised/bare; all fetch attributes, 149 section forms x PEEK x 7 partials, attribute lists of 2 (18 representatives) and 3; " +
		"search: all 34 leaf keys, NOT/OR/list to depth 2 over all keys (also under UID SEARCH), top-level sequences and lists of 2 (all leaves) and 3 (class representatives), CHARSET x every first key, " +
		"depth 3 over one representative per argument class (thorough: complete; quick: 6 spines x 64); dates and date-times over a grid; APPEND flags/date-time/literal bytes incl. 5000-byte literal; ID lists <=3. " +
		"Each abstract command is rendered in keyword case {UPPER, lower, aLtErNaTe, AlTeRnAtE} x string encodings (full product atom/quoted/literal of all string slots up to 27 (thorough 81) combinations, else 3 uniform + all single deviations); " +
		"each rendering is parsed with the whole stream in one read, as a synchronising client (literal bytes only after the continuation request, next command only after the parse returned), 1 byte per read, " +
		"every 2-way split (all renderings of short commands; UPPER x uniform encodings and aLtErNaTe otherwise; thorough: practically all renderings), thorough: all 3-way splits of wires <= 40 bytes (UPPER and aLtErNaTe x uniform encodings). " +
		"Oracle: parse succeeds, result deep-equals the expected value (nil==empty slice, time via Equal, \\flag case folded), one continuation request per literal, no read beyond what a synchronising client has sent, and the following command (NOOP) parses. " +
		"An outcome is non-trivial if the command parsed; distinct = distinct (verb, type skeleton of the payload)"
	return RunEnum(EnumSpec{
		Prop: "C10", Level: "exploration", Budget: budget, Call: "c10", Common: parse10.Common{Thorough: thorough},
		Cases: cases, Chunk: chunk, Rule: rule,
		Extra: map[string]any{"families": fams, "abstract_commands": total},
		Assume: []string{
			"a mailbox argument spelled INBOX in any letter case denotes \"INBOX\"; a LIST/LSUB pattern is kept as written",
			"ID: a NIL value is represented as the empty string (the payload type has no other representation)",
			"8-bit bytes, CR and LF are sent in literals only (RFC 3501 quoted strings are 7-bit TEXT-CHAR); LITERAL+ is not supported by gluon and not generated",
			"UID EXPUNGE is represented by *command.UIDExpunge (not wrapped in *command.UID), as the package defines it",
			"dates are real calendar dates; leap seconds are not generated",
		},
	})
}

func init() { Registry["C10"] = C10 }
