package checks

import (
	"time"

	"verif/engine/explore"
	"verif/scen/mbox"
)

type C20P struct{ mbox.C20Params }

func (p C20P) AlphabetStrings() []string {
	var out []string
	for _, e := range p.Alphabet {
		out = append(out, e.String())
	}
	return out
}

func c20Append() []explore.Event {
	return []explore.Event{
		ev("fault", 0, "CreateMessage:fail"),
		ev("fault", 0, "CreateMessage:fail-size"),
		ev("append", 0, "INBOX", "m1"),
		ev("append", 0, "INBOX", "m2"),
		ev("append", 0, "INBOX", "u1"),
		ev("append", 0, "INBOX", "v1"),
		ev("append", 0, "other", "m1"),
		ev("append", 0, "Recovered Messages", "m3"),
		ev("append", 0, "recovered messages", "m3"),
		ev("cmd", 0, `SELECT "Recovered Messages"`),
		ev("cmd", 0, `SELECT INBOX`),
		{K: "restart"},
	}
}

func c20MoveOut() []explore.Event {
	return []explore.Event{
		ev("fault", 0, "CreateMessage:fail"),
		ev("append", 0, "INBOX", "m1"),
		ev("append", 0, "INBOX", "m2"),
		ev("cmd", 0, `SELECT "Recovered Messages"`),
		ev("cmd", 0, `COPY 1 INBOX`),
		ev("cmd", 0, `MOVE 1 other`),
		ev("cmd", 0, `STORE 1 +FLAGS (\Deleted)`),
		ev("cmd", 0, `EXPUNGE`),
		ev("cmd", 0, `NOOP`),
	}
}

func c20Forbidden() []explore.Event {
	return []explore.Event{
		ev("fault", 0, "CreateMessage:fail"),
		ev("append", 0, "INBOX", "m1"),
		ev("cmd", 0, `CREATE "Recovered Messages"`),
		ev("cmd", 0, `CREATE "recovered messages"`),
		ev("cmd", 0, `CREATE "Recovered Messages/x"`),
		ev("cmd", 0, `DELETE "Recovered Messages"`),
		ev("cmd", 0, `DELETE "RECOVERED MESSAGES"`),
		ev("cmd", 0, `RENAME "Recovered Messages" r`),
		ev("cmd", 0, `RENAME other "Recovered Messages"`),
		ev("cmd", 0, `SELECT INBOX`),
		ev("cmd", 0, `COPY 1 "Recovered Messages"`),
		ev("cmd", 0, `MOVE 1 "recovered messages"`),
	}
}

// recovery mailbox under a message limit: rejected messages are kept while there is room, and again once room has
// been made (the remote refuses every creation in this family).
func c20Limit() []explore.Event {
	return []explore.Event{
		ev("append", 0, "INBOX", "m1"),
		ev("append", 0, "INBOX", "m2"),
		ev("cmd", 0, `SELECT "Recovered Messages"`),
		ev("cmd", 0, `STORE 1 +FLAGS.SILENT (\Deleted)`),
		ev("cmd", 0, `EXPUNGE`),
	}
}

func c20Families(d, faults int) []explore.Family {
	mk := func(name string, a []explore.Event, depth int) explore.Family {
		return explore.Family{Name: name, Scenario: "c20", Depth: depth, Params: C20P{mbox.C20Params{Alphabet: a, MaxFaults: faults}}}
	}
	// the move-out family is small and its interesting histories are long (reject, move out, reject again): deeper
	limit := explore.Family{Name: "recovery-limit", Scenario: "c20", Depth: d + 2, Params: C20P{mbox.C20Params{Alphabet: c20Limit(), MaxFaults: faults, MaxMessages: 1, FailAlways: true}}}
	return []explore.Family{mk("append+faults", c20Append(), d), mk("move-out", c20MoveOut(), d+2), mk("forbidden", c20Forbidden(), d), limit}
}

func C20(tier string) int {
	d, faults, budget := 4, 2, 170*time.Second
	if tier == "thorough" {
		d, faults, budget = 5, 3, 25*time.Minute
	}
	return RunE1(E1Spec{
		Prop: "C20", Level: "model_checking", Budget: budget,
		Families: c20Families(d, faults),
		Assume: []string{
			"bounded: 1 session, mailboxes INBOX/other/recovery, 3 distinct messages, depth as reported, at most 2 (quick) / 3 (thorough) injected remote failures per history (deviation bound)",
			"remote answers are explorer-chosen events (create-message ok / fail / fail-size); a size refusal need not be kept in the recovery mailbox",
		},
	})
}

func init() {
	Registry["C20"] = C20
	DebugFamilies["C20"] = func() []explore.Family { return c20Families(4, 2) }
}
