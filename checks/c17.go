package checks

import (
	"fmt"
	"time"

	"verif/engine/explore"
	"verif/scen/mbox"
)

type C17P struct{ mbox.C17Params }

func (p C17P) AlphabetStrings() []string {
	var out []string
	for _, e := range p.Alphabet {
		out = append(out, e.String())
	}
	return out
}

func c17Alphabet() []explore.Event {
	return []explore.Event{
		ev("append", 0, "INBOX"),
		ev("cmd", 1, `COPY 1:2 INBOX`),
		ev("cmd", 1, `MOVE 1:2 INBOX`),
		ev("cmd", 0, `COPY 1 INBOX`),
		ev("cmd", 0, `STORE 1 +FLAGS.SILENT (\Deleted)`),
		ev("cmd", 0, `EXPUNGE`),
		ev("cmd", 0, `CREATE a`),
		ev("cmd", 0, `CREATE a/b/c`),
		ev("cmd", 0, `RENAME src y/z`),
		conn("create2:INBOX"),
		conn("mailbox"),
	}
}

func c17Families(d int, full bool) []explore.Family {
	var out []explore.Family
	type cfg struct{ mb, msg, uid uint32 }
	cfgs := []cfg{{5, 3, 4}, {4, 2, 3}}
	if full {
		cfgs = []cfg{{5, 3, 4}, {4, 2, 3}, {5, 2, 4}, {4, 3, 3}, {6, 3, 100}, {100, 3, 4}}
	}
	for _, c := range cfgs {
		out = append(out, explore.Family{Name: fmt.Sprintf("limits[mb=%d,msg=%d,uid=%d]", c.mb, c.msg, c.uid), Scenario: "c17", Depth: d,
			Params: C17P{mbox.C17Params{MaxMailboxes: c.mb, MaxMessages: c.msg, MaxUID: c.uid, Alphabet: c17Alphabet()}}})
	}
	return out
}

func C17(tier string) int {
	d, budget := 3, 170*time.Second
	if tier == "thorough" {
		d, budget = 5, 25*time.Minute
	}
	return RunE1(E1Spec{
		Prop: "C17", Level: "model_checking", Budget: budget,
		Families: c17Families(d, tier == "thorough"),
		Assume: []string{
			"sequential histories only in this check (bounded: 2 sessions, limit configurations as listed, depth as reported); concurrent approaches to a limit are listed in DESIGN.md as pending scheduler work",
			"the mailbox count includes INBOX and the recovery mailbox (as the server counts them); an operation is required to be accepted only if it fits every limit with a margin of one",
		},
	})
}

func init() {
	Registry["C17"] = C17
	DebugFamilies["C17"] = func() []explore.Family { return c17Families(3, false) }
}
