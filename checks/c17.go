package checks

import (
	"fmt"
	"time"

	"verif/engine/explore"
	"verif/scen/mbox"
)

type C17P struct{ mbox.C17Params }

func (p C17P) AlphabetStrings() []string {
	var out []string
	for _, e := range p.Alphabet {
		out = append(out, e.String())
	}
	return out
}

func c17Alphabet() []explore.Event {
	return []explore.Event{
		ev("append", 0, "INBOX"),
		ev("cmd", 1, `COPY 1:2 INBOX`),
		ev("cmd", 1, `MOVE 1:2 INBOX`),
		ev("cmd", 0, `COPY 1 INBOX`),
		ev("cmd", 0, `MOVE 1 src`),
		ev("cmd", 1, `MOVE 1 INBOX`),
		ev("cmd", 0, `STORE 1 +FLAGS.SILENT (\Deleted)`),
		ev("cmd", 0, `EXPUNGE`),
		ev("cmd", 0, `CREATE a`),
		ev("cmd", 0, `CREATE a/b/c`),
		ev("cmd", 0, `RENAME src y/z`),
		conn("create2:INBOX"),
		conn("mailbox"),
	}
}

func c17Families(d int, full bool) []explore.Family {
	var out []explore.Family
	type cfg struct{ mb, msg, uid uint32 }
	// each limit also alone (the others far away): a limit that sits one step behind another one is masked by it
	cfgs := []cfg{{5, 3, 4}, {4, 2, 3}, {6, 3, 100}, {6, 100, 4}}
	if full {
		cfgs = []cfg{{5, 3, 4}, {4, 2, 3}, {5, 2, 4}, {4, 3, 3}, {6, 3, 100}, {100, 3, 4}, {6, 100, 4}, {4, 100, 100}}
	}
	for _, c := range cfgs {
		out = append(out, explore.Family{Name: fmt.Sprintf("limits[mb=%d,msg=%d,uid=%d]", c.mb, c.msg, c.uid), Scenario: "c17", Depth: d,
			Params: C17P{mbox.C17Params{MaxMailboxes: c.mb, MaxMessages: c.msg, MaxUID: c.uid, Alphabet: c17Alphabet()}}})
	}
	return out
}

func C17(tier string) int {
	d, budget := 3, 170*time.Second
	if tier == "thorough" {
		d, budget = 5, 25*time.Minute
	}
	code := RunE1(E1Spec{
		Prop: "C17", Level: "model_checking", Budget: budget,
		Families: c17Families(d, tier == "thorough"),
		Assume: []string{
			"sequential part: bounded to 2 sessions issuing commands one at a time, limit configurations as listed, depth as reported; the concurrent part is reported under coverage.concurrent",
			"the mailbox count includes INBOX and the recovery mailbox (as the server counts them); an operation is required to be accepted only if it fits every limit with a margin of one",
		},
	})
	// concurrent clause: every interleaving of the database transactions of two / three operations issued at once
	pairs := [][]string{{"append", "append"}, {"append", "copy2"}, {"copy2", "move2"}, {"append", "conn2"}, {"create:a", "create:b/c"}, {"create:x/y", "create:p/q"}}
	if tier == "thorough" {
		pairs = append(pairs, []string{"append", "append", "append"}, []string{"copy2", "conn2"}, []string{"move2", "conn2"}, []string{"append", "copy2", "conn2"})
	}
	var cases []any
	for _, p := range pairs {
		cases = append(cases, mbox.ConcCase{MaxMailboxes: 7, MaxMessages: 3, Ops: p})
	}
	c2 := RunEnumMerge("C17", "concurrent", EnumSpec{Prop: "C17", Level: "model_checking", Call: "c17conc", Cases: cases, Chunk: 1,
		Rule:   "operations that together exceed a limit are issued at once from a state one below the limit; every interleaving of their database transactions (each db.Client Read / Write is parked at its start and released by the explorer) is enumerated by depth-first replay; distinct = distinct (operation set, acknowledgements, resulting counts)",
		Assume: []string{"concurrent clause: scheduling granularity is the database transaction (the unit in which a limit is checked and an insertion is made); interleavings inside a transaction are serialised by SQLite"}})
	if c2 > code {
		code = c2
	}
	return code
}

func init() {
	Registry["C17"] = C17
	DebugFamilies["C17"] = func() []explore.Family { return c17Families(3, false) }
}
