package checks

import (
	"fmt"
	"os"
	"sort"
	"strconv"
	"strings"
	"time"

	"verif/scen/mime12"
)

// c12Trees enumerates every MIME tree of depth <= d with at most two children per multipart (leaf depth 0; a
// multipart or an embedded message is one deeper than its deepest child), simplest first.
func c12Trees(d int) []string {
	type tr struct {
		s     string
		depth int
	}
	level := []tr{{"p", 0}, {"h", 0}, {"b", 0}}
	for i := 1; i <= d; i++ {
		next := []tr{{"p", 0}, {"h", 0}, {"b", 0}}
		for _, t := range level {
			next = append(next, tr{"m(" + t.s + ")", t.depth + 1}, tr{"M(" + t.s + ")", t.depth + 1})
		}
		for _, a := range level {
			for _, b := range level {
				dd := a.depth
				if b.depth > dd {
					dd = b.depth
				}
				next = append(next, tr{"M(" + a.s + "," + b.s + ")", dd + 1})
			}
		}
		level = next
	}
	sort.SliceStable(level, func(i, j int) bool {
		if level[i].depth != level[j].depth {
			return level[i].depth < level[j].depth
		}
		return len(level[i].s) < len(level[j].s)
	})
	out := make([]string, len(level))
	for i, t := range level {
		out[i] = t.s
	}
	return out
}

func c12Depth(s string) int {
	d, max := 0, 0
	for _, c := range s {
		switch c {
		case '(':
			d++
			if d > max {
				max = d
			}
		case ')':
			d--
		}
	}
	return max
}

func C12(tier string) int {
	thorough := tier == "thorough"

	// ---- (a) MIME trees
	treeDepth := 2
	if thorough {
		treeDepth = 3
	}
	var treeCases, starCases []any
	nFull, nStar := 0, 0
	for _, t := range c12Trees(treeDepth) {
		full := c12Depth(t) <= 2
		if full {
			nFull++
		} else {
			nStar++
		}
		if full {
			treeCases = append(treeCases, mime12.TreeCase{Tree: t, Full: true})
		} else {
			starCases = append(starCases, mime12.TreeCase{Tree: t, Full: false})
		}
	}
	ruleA := fmt.Sprintf("(a) every MIME tree of depth <= %d with <= 2 children per multipart over leaves {text/plain, text/html, application/octet-stream, message/rfc822 embedding a smaller tree} (%d trees); trees of depth <= 2 are rendered in the full cross product Content-Type spelling %v x message header forms %v x line endings %v x boundary placement %v x leaf body %v, trees of depth 3 in the star design (all line ending x placement x body combinations with default headers + every header variant on two base renderings); identical renderings are evaluated once; message bytes and expected tree (types, parameters, byte ranges, sizes, line counts) are built together; distinct = distinct BODY shapes (numbers abstracted)",
		treeDepth, nFull+nStar, mime12.CTNames, mime12.HdrNames, mime12.EOLNames, mime12.PlaceNames, mime12.BodyNames)

	// ---- (b) garbage
	maxLen := 4
	if thorough {
		maxLen = 5
	}
	var garbage []any
	first := 1
	if maxLen < first {
		first = maxLen
	}
	garbage = append(garbage, mime12.GarbageCase{Prefix: []int{}, MaxLen: first})
	nTok := len(mime12.GarbageTokens)
	for a := 0; a < nTok; a++ {
		for b := 0; b < nTok; b++ {
			garbage = append(garbage, mime12.GarbageCase{Prefix: []int{a, b}, MaxLen: maxLen})
		}
	}
	ruleB := fmt.Sprintf("(b) every concatenation of <= %d tokens over the %d-token alphabet %q", maxLen, nTok, mime12.GarbageTokens)

	// ---- (c) scale axis
	type axisT struct {
		name  string
		ops   []string
		quick int // deepest depth run in the quick tier
	}
	axes := []axisT{
		{"comment-from", []string{"parsed"}, 1 << 23},
		{"comment-to", []string{"parsed"}, 1 << 22},
		{"comment-date", []string{"date"}, 1 << 22},
		{"group", []string{"parsed"}, 1 << 22},
		{"angle", []string{"parsed"}, 1 << 22},
		{"multipart", []string{"parsed", "walk"}, 4096},
		{"rfc822", []string{"parsed", "walk"}, 4096},
	}
	cpuLimit := 300
	if v, err := strconv.Atoi(os.Getenv("VERIF_C12_CPU_LIMIT")); err == nil && v > 0 {
		cpuLimit = v // debugging aid: exercise the timeout path quickly
	}
	var scale []mime12.ScaleCase
	for _, ax := range axes {
		max := mime12.ScaleMaxDepth(ax.name)
		depths := []int{1, 2, 3, 64, 4096, 1 << 16, 1 << 20, 1 << 22, 1 << 23, max}
		seen := map[int]bool{}
		last := 0
		for _, d := range depths {
			if d > max || seen[d] {
				continue
			}
			if d == max && last > 0 && max*4 < last*5 {
				continue // the deepest fitting depth is within 25% of a listed depth that is run anyway
			}
			last = d
			seen[d] = true
			if !thorough && d > ax.quick {
				continue
			}
			for _, op := range ax.ops {
				if op == "walk" && ax.name == "rfc822" && !thorough && d > 4096 {
					continue
				}
				scale = append(scale, mime12.ScaleCase{Axis: ax.name, Op: op, Depth: d, CPULimitS: cpuLimit})
			}
		}
	}
	sort.SliceStable(scale, func(i, j int) bool { return scale[i].Depth < scale[j].Depth })
	var scaleCases []any
	for _, s := range scale {
		scaleCases = append(scaleCases, s)
	}
	ruleC := "(c) nesting depth {1,2,3,64,4096,2^16,2^20,2^22,2^23, deepest that fits the 30 MiB literal limit} (depths whose input exceeds the limit are dropped) on the axes comment-from, comment-to, comment-date (rfc5322.ParseDateTime), group, angle, multipart, rfc822; every case runs alone in a fresh process that must neither die nor use more than 300 s of CPU time; quick tier stops at the per-axis depth that keeps it under 90 s"

	specs := []EnumSpec{
		{Prop: "C12", Level: "exploration", Budget: 14 * time.Minute, Call: "c12a", Cases: treeCases, Chunk: 4, Rule: ruleA + "; " + ruleB + "; " + ruleC,
			Extra: map[string]any{"trees_full_cross": nFull, "trees_star": nStar},
			Assume: []string{
				"the list reader is lenient: balanced parentheses, items NIL | number | atom | quoted string (every backslash followed by a character, no raw CR/LF/NUL) | list; '()' is accepted where RFC 3501 wants NIL",
				"line count of a body whose last line is not terminated: the number of line breaks and that number plus one are both accepted",
				"a part without Content-Type may be reported with no parameters or with charset us-ascii",
				"the line break before a boundary delimiter belongs to the delimiter (RFC 2046 5.1.1), so it is not counted in the size of the part before it",
				"media types and parameter names are compared case-insensitively; only types, parameters, sizes and line counts are judged (not id, description, encoding, disposition, envelope contents)",
				"a boundary that is a prefix of another one is rendered so that no delimiter line of one multipart equals a delimiter line of another (delimiter = whole line)",
			}},
		{Prop: "C12", Level: "exploration", Call: "c12a", Cases: starCases, Chunk: 96, Rule: "(a) depth-3 trees in the star design"},
		{Prop: "C12", Level: "exploration", Call: "c12b", Cases: garbage, Chunk: 1, Rule: ruleB,
			Assume: []string{"an error return on garbage is acceptable; only panics, non-termination (60 s watchdog per evaluation, normal time < 1 ms), malformed output and sections outside their parent are violations"}},
		{Prop: "C12", Level: "exploration", Call: "c12c", Cases: scaleCases, Chunk: 1, Rule: ruleC,
			Assume: []string{"inputs are limited to gluon's literal size limit (30 MiB - 1)", "deadline measured in CPU seconds of the child process (300 s; wall clock backstop 3000 s, reachable only by a process that sleeps) so that machine load does not change the verdict"}},
	}
	if len(starCases) == 0 {
		specs = append(specs[:1], specs[2:]...)
	}
	// VERIF_C12_PARTS=a,b,c restricts the run to some parts (debugging aid; the default is all three).
	if sel := os.Getenv("VERIF_C12_PARTS"); sel != "" {
		var keep []EnumSpec
		for _, sp := range specs {
			if strings.Contains(sel, strings.TrimPrefix(sp.Call, "c12")) {
				keep = append(keep, sp)
			}
		}
		if len(keep) > 0 {
			specs = keep
		}
	}
	return RunEnum(specs...)
}

func init() { Registry["C12"] = C12 }
