#!/bin/sh
# usage: ./seedrun.sh <patch> <check>...   — applies a seeded change to /repo, runs the checks (quick), reverts
P="$1"; shift
git -C /repo apply "$P" || { echo "patch does not apply"; exit 2; }
for c in "$@"; do
  ./check "$c" quick 2>&1 | grep -E "VIOLATION|violation detail|quick:|BUILD-FAILED|ENGINE-ERROR" | cut -c1-400
done
git -C /repo checkout -- . 
git -C /repo status --short | head -3
