#!/bin/sh
# usage: ./seedrun.sh <patch> <check>...
# Runs the quick checks against a seeded change WITHOUT touching /repo: the patch is applied in a scratch worktree
# and the changed files are passed to the builds as a go overlay (VERIF_OVERLAY).
P="$1"; shift
W=/tmp/seedo/$$
rm -rf "$W"; mkdir -p /tmp/seedo; git -C /repo worktree prune
git -C /repo worktree add -q "$W" HEAD || exit 2
( cd "$W" && git apply "$P" ) || { echo "patch does not apply"; git -C /repo worktree remove --force "$W"; exit 2; }
python3 - "$W" > "$W.overlay.json" <<'PY'
import json,subprocess,sys
w=sys.argv[1]
files=subprocess.check_output(['git','-C',w,'diff','--name-only']).decode().split()
print(json.dumps({"Replace":{"/repo/"+f: w+"/"+f for f in files}}))
PY
for c in "$@"; do
  VERIF_EVIDENCE_DIR="$W.evidence" VERIF_OVERLAY="$W.overlay.json" ./check "$c" quick 2>&1 | grep -E "VIOLATION|violation detail|quick:|BUILD-FAILED|ENGINE-ERROR" | cut -c1-400
done
git -C /repo worktree remove --force "$W"; rm -rf "$W.overlay.json" "$W.evidence"
