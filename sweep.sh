#!/bin/sh
# runs every check's thorough tier one after the other (for background validation)
for c in C16 C15 C18 C13 C09 C14 C20 C17 C04 C06 C03 C05 C12 C11 C10 C08 C19 C07 C02 C01; do
  echo "=== $c $(date +%H:%M:%S)"
  ./check $c thorough 2>&1 | grep -E "VIOLATION|violation detail|KNOWN-FINDING|thorough:|ENGINE-ERROR|BUILD-FAILED|family|enum|sch " | cut -c1-300
done
echo "=== done $(date +%H:%M:%S)"
