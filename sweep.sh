#!/bin/sh
# runs every check's thorough tier one after the other (for background validation)
for c in ${SWEEP:-C01 C02 C05 C03 C06 C04 C20 C18 C13 C19 C12 C11 C08 C07 C10 C09 C14 C15 C16 C17}; do
  echo "=== $c $(date +%H:%M:%S)"
  ./check $c thorough 2>&1 | grep -E "VIOLATION|violation detail|KNOWN-FINDING|thorough:|ENGINE-ERROR|BUILD-FAILED|family|enum|sch " | cut -c1-300
done
echo "=== done $(date +%H:%M:%S)"
