// mkoverlay generates the `go build -overlay` file for the scheduler builds from /repo's CURRENT working tree:
// the shim packages are mapped into the gluon module path as virtual packages and the listed gluon source files
// get their sync / sync/atomic / time imports rewritten to the shims. /repo itself is not touched.
package main

import (
	"encoding/json"
	"fmt"
	"os"
	"path/filepath"
	"strings"
)

type target struct {
	File    string
	Rewrite map[string]string // import path -> replacement import spec
}

const mod = "github.com/ProtonMail/gluon/verifshim/"

func main() {
	if len(os.Args) != 4 {
		fmt.Fprintln(os.Stderr, "usage: mkoverlay <repo> <verif dir> <out dir>")
		os.Exit(2)
	}
	repo, verif, out := os.Args[1], os.Args[2], os.Args[3]
	syncRw := map[string]string{`"sync"`: `sync "` + mod + `vsync"`, `"sync/atomic"`: `atomic "` + mod + `vatomic"`}
	targets := []target{
		{"store/write_controlled_store.go", syncRw},
		{"async/queued_channel.go", syncRw},
		{"async/bool.go", syncRw},
		{"imap/uid_validity_generator.go", map[string]string{`"sync/atomic"`: `atomic "` + mod + `vatomic"`, `"time"`: `time "` + mod + `vtime"`}},
	}
	replace := map[string]string{}
	// an outer overlay (VERIF_OVERLAY) replaces files of /repo: read the sources through it and keep its entries
	outer := map[string]string{}
	if ov := os.Getenv("VERIF_OVERLAY"); ov != "" {
		var o struct{ Replace map[string]string }
		if b, err := os.ReadFile(ov); err == nil && json.Unmarshal(b, &o) == nil {
			outer = o.Replace
		}
	}
	for k, v := range outer {
		replace[k] = v
	}
	_ = os.RemoveAll(out)
	for _, pkg := range []string{"sched", "vsync", "vatomic", "vtime"} {
		files, _ := filepath.Glob(filepath.Join(verif, "shim", pkg, "*.go"))
		if len(files) == 0 {
			fmt.Fprintln(os.Stderr, "no shim sources for", pkg)
			os.Exit(1)
		}
		for _, f := range files {
			replace[filepath.Join(repo, "verifshim", pkg, filepath.Base(f))] = f
		}
	}
	// extra files added to gluon packages (exports needed by the harness)
	extras, _ := filepath.Glob(filepath.Join(verif, "shim", "extra", "*", "*.go.txt"))
	for _, f := range extras {
		pkgDir := filepath.Base(filepath.Dir(f))
		dst := filepath.Join(repo, strings.ReplaceAll(pkgDir, "__", "/"), strings.TrimSuffix(filepath.Base(f), ".txt"))
		replace[dst] = f
	}
	for _, t := range targets {
		srcPath := filepath.Join(repo, t.File)
		if r, ok := outer[srcPath]; ok {
			srcPath = r
		}
		src, err := os.ReadFile(srcPath)
		if err != nil {
			fmt.Fprintln(os.Stderr, err)
			os.Exit(1)
		}
		text := string(src)
		n := 0
		for from, to := range t.Rewrite {
			// only inside the import block: the quoted path on its own line
			if strings.Contains(text, "\t"+from+"\n") {
				text = strings.Replace(text, "\t"+from+"\n", "\t"+to+"\n", 1)
				n++
			} else if strings.Contains(text, "import "+from+"\n") {
				text = strings.Replace(text, "import "+from+"\n", "import "+to+"\n", 1)
				n++
			}
		}
		if n == 0 {
			fmt.Fprintf(os.Stderr, "mkoverlay: no sync/atomic/time import found in %s (the overlay list is out of date)\n", t.File)
			os.Exit(1)
		}
		dst := filepath.Join(out, t.File)
		_ = os.MkdirAll(filepath.Dir(dst), 0o755)
		if err := os.WriteFile(dst, []byte(text), 0o644); err != nil {
			fmt.Fprintln(os.Stderr, err)
			os.Exit(1)
		}
		replace[filepath.Join(repo, t.File)] = dst
	}
	b, _ := json.MarshalIndent(map[string]any{"Replace": replace}, "", " ")
	if err := os.WriteFile(filepath.Join(out, "overlay.json"), b, 0o644); err != nil {
		fmt.Fprintln(os.Stderr, err)
		os.Exit(1)
	}
}
