package mime12

import (
	"fmt"
	"io"
	"os"
	"runtime"
	"strings"
	"sync"
	"sync/atomic"
	"time"
	"unsafe"

	"github.com/ProtonMail/gluon/imap"
	"github.com/ProtonMail/gluon/rfc5322"
	"github.com/ProtonMail/gluon/rfc822"
	"github.com/sirupsen/logrus"
)

var quietOnce sync.Once

// quiet silences gluon's logging (every unparsable address is logged at error level).
func quiet() {
	quietOnce.Do(func() {
		logrus.SetOutput(io.Discard)
		logrus.SetLevel(logrus.PanicLevel)
	})
}

// ---- watchdog: an evaluation of parts (a)/(b) normally takes well under a millisecond; one that is still running
// after watchdogLimit is reported as non-terminating by killing the worker with a meaningful first stderr line.

const watchdogLimit = 60 * time.Second

var (
	wdStart atomic.Int64 // unix nanos of the start of the running evaluation, 0 = idle
	wdWhat  atomic.Value // string: description of the running evaluation
	wdOnce  sync.Once
)

func watchdogBegin(what func() string) {
	wdOnce.Do(func() {
		go func() {
			for {
				time.Sleep(time.Second)
				st := wdStart.Load()
				if st != 0 && time.Since(time.Unix(0, st)) > watchdogLimit {
					w, _ := wdWhat.Load().(func() string)
					desc := ""
					if w != nil {
						desc = w()
					}
					fmt.Fprintf(os.Stderr, "panic: watchdog: C12 evaluation still running after %v (does not terminate)\ninput: %s\n", watchdogLimit, desc)
					os.Exit(3)
				}
			}
		}()
	})
	wdWhat.Store(what)
	wdStart.Store(time.Now().UnixNano())
}

func watchdogEnd() { wdStart.Store(0) }

// ---- running gluon with panic capture

// panicSite names the innermost gluon function on the stack of a recovered panic.
func panicSite() string {
	pcs := make([]uintptr, 64)
	n := runtime.Callers(2, pcs)
	frames := runtime.CallersFrames(pcs[:n])
	for {
		f, more := frames.Next()
		if strings.Contains(f.Function, "ProtonMail/gluon/") {
			fn := f.Function
			if i := strings.Index(fn, "ProtonMail/gluon/"); i >= 0 {
				fn = fn[i+len("ProtonMail/gluon/"):]
			}
			return fn
		}
		if !more {
			return "unknown"
		}
	}
}

type panicInfo struct {
	Site string
	Msg  string
}

func catch(pi **panicInfo) {
	if r := recover(); r != nil {
		*pi = &panicInfo{Site: panicSite(), Msg: fmt.Sprint(r)}
	}
}

func runParsed(lit []byte) (pm *imap.ParsedMessage, err error, pi *panicInfo) {
	defer catch(&pi)
	pm, err = imap.NewParsedMessage(lit)
	return
}

func runAddressList(s string) (n int, err error, pi *panicInfo) {
	defer catch(&pi)
	l, err := rfc5322.ParseAddressList(s)
	return len(l), err, nil
}

func runDateTime(s string) (err error, pi *panicInfo) {
	defer catch(&pi)
	_, err = rfc5322.ParseDateTime(s)
	return err, nil
}

// ---- sub-slice arithmetic

// within reports whether child is a sub-slice (same backing array, inside the bounds) of parent.
func within(child, parent []byte) bool {
	c := uintptr(unsafe.Pointer(unsafe.SliceData(child)))
	p := uintptr(unsafe.Pointer(unsafe.SliceData(parent)))
	if len(child) == 0 && cap(child) == 0 {
		// nil, or an empty slice taken at the very end of its backing array: Go does not advance the data pointer
		// of a zero-capacity result, so it cannot be located; an empty range lies inside anything.
		return true
	}
	return c >= p && c+uintptr(len(child)) <= p+uintptr(len(parent))
}

// offsetIn returns the offset of child in base (valid only when within(child, base)).
func offsetIn(child, base []byte) int {
	return int(uintptr(unsafe.Pointer(unsafe.SliceData(child))) - uintptr(unsafe.Pointer(unsafe.SliceData(base))))
}

// sectionProblem walks every section reachable through Children and checks that it lies inside the message and
// inside its parent, and that header and body tile the section. It returns "" or a description; class is a stable
// short name of the kind of problem.
type sectionWalk struct {
	root     []byte
	count    int
	maxDepth int
	class    string
	detail   string
	path     []int
}

func (w *sectionWalk) fail(class, format string, a ...any) {
	if w.class == "" {
		w.class = class
		w.detail = fmt.Sprintf(format, a...)
	}
}

// pathString renders the current position (built lazily: a path string per level would make the checker itself
// quadratic in memory on deeply nested inputs).
func (w *sectionWalk) pathString() string {
	if len(w.path) > 16 {
		return fmt.Sprintf("root%s...(depth %d)", intsDotted(w.path[:8]), len(w.path))
	}
	return "root" + intsDotted(w.path)
}

func intsDotted(p []int) string {
	var sb strings.Builder
	for _, i := range p {
		fmt.Fprintf(&sb, ".%d", i)
	}
	return sb.String()
}

func (w *sectionWalk) visit(sec *rfc822.Section, parent []byte, depth int) {
	w.count++
	if depth > w.maxDepth {
		w.maxDepth = depth
	}
	lit := sec.Literal()
	hdr := sec.Header()
	body := sec.Body()
	if !within(lit, w.root) {
		w.fail("section-outside-message", "section %s: literal is not a sub-slice of the message", w.pathString())
		return
	}
	if !within(lit, parent) {
		w.fail("section-outside-parent", "section %s: literal [%d,%d) is not inside its parent [%d,%d)", w.pathString(), offsetIn(lit, w.root), offsetIn(lit, w.root)+len(lit), offsetIn(parent, w.root), offsetIn(parent, w.root)+len(parent))
		return
	}
	if !within(hdr, lit) || !within(body, lit) || len(hdr)+len(body) != len(lit) || (len(hdr) > 0 && offsetIn(hdr, lit) != 0) || (len(body) > 0 && offsetIn(body, lit) != len(hdr)) {
		w.fail("section-header-body-tiling", "section %s: header (%d bytes) and body (%d bytes) do not tile the section (%d bytes)", w.pathString(), len(hdr), len(body), len(lit))
		return
	}
	children, err := sec.Children()
	if err != nil {
		return // an error return is acceptable
	}
	for i, ch := range children {
		w.path = append(w.path, i+1)
		w.visit(ch, body, depth+1)
		w.path = w.path[:len(w.path)-1]
		if w.class != "" {
			return
		}
	}
}

// runSections parses the literal with rfc822 and checks Children / Walk / Part.
func runSections(lit []byte, partPaths [][]int) (w *sectionWalk, pi *panicInfo) {
	defer catch(&pi)
	w = &sectionWalk{root: lit}
	root := rfc822.Parse(lit)
	w.visit(root, lit, 0)
	if w.class != "" {
		return
	}
	// Walk must visit sections that all lie inside the message.
	walked := 0
	_ = root.Walk(func(s *rfc822.Section) error {
		walked++
		if !within(s.Literal(), lit) {
			w.fail("section-outside-message", "Walk section #%d is not a sub-slice of the message", walked)
		}
		return nil
	})
	if w.class == "" && walked != w.count {
		w.fail("walk-children-disagree", "Walk visited %d sections, Children recursion %d", walked, w.count)
	}
	for _, pp := range partPaths {
		s, err := root.Part(pp...)
		if err != nil || s == nil {
			continue
		}
		if !within(s.Literal(), lit) {
			w.fail("section-outside-message", "Part(%v) is not a sub-slice of the message", pp)
		}
	}
	return
}

func clip(s string, n int) string {
	if len(s) > n {
		return s[:n] + fmt.Sprintf("...(%d bytes)", len(s))
	}
	return s
}

// checkLists verifies that the three texts are well-formed lists; it returns the parsed BODYSTRUCTURE and BODY.
func checkLists(pm *imap.ParsedMessage) (bs, body *Val, which string, err error) {
	if bs, err = ParseList(pm.Structure); err != nil {
		return nil, nil, "BODYSTRUCTURE", err
	}
	if body, err = ParseList(pm.Body); err != nil {
		return nil, nil, "BODY", err
	}
	if _, err = ParseList(pm.Envelope); err != nil {
		return nil, nil, "ENVELOPE", err
	}
	return bs, body, "", nil
}
