package mime12

import (
	"bytes"
	"fmt"
	"strings"
)

// Node is one entity of a MIME tree. Notation: p = text/plain, h = text/html, b = application/octet-stream,
// m(T) = message/rfc822 embedding the message whose root entity is T, M(T) / M(T,T) = multipart/mixed.
type Node struct {
	Kind byte
	Kids []*Node

	// filled by Build
	Path     string
	Boundary string
	NoCT     bool
	EntStart int // absolute offsets into the message
	BodyAt   int
	End      int
}

func ParseTree(s string) (*Node, error) {
	n, rest, err := parseTree(s)
	if err != nil {
		return nil, err
	}
	if rest != "" {
		return nil, fmt.Errorf("trailing %q", rest)
	}
	return n, nil
}

func parseTree(s string) (*Node, string, error) {
	if s == "" {
		return nil, "", fmt.Errorf("empty tree")
	}
	switch s[0] {
	case 'p', 'h', 'b':
		return &Node{Kind: s[0]}, s[1:], nil
	case 'm', 'M':
		n := &Node{Kind: s[0]}
		if len(s) < 2 || s[1] != '(' {
			return nil, "", fmt.Errorf("expected ( in %q", s)
		}
		rest := s[2:]
		for {
			k, r, err := parseTree(rest)
			if err != nil {
				return nil, "", err
			}
			n.Kids = append(n.Kids, k)
			if r == "" {
				return nil, "", fmt.Errorf("unterminated")
			}
			if r[0] == ',' {
				rest = r[1:]
				continue
			}
			if r[0] == ')' {
				return n, r[1:], nil
			}
			return nil, "", fmt.Errorf("unexpected %q", r)
		}
	}
	return nil, "", fmt.Errorf("unexpected %q", s)
}

func (n *Node) String() string {
	switch n.Kind {
	case 'p', 'h', 'b':
		return string(n.Kind)
	}
	var parts []string
	for _, k := range n.Kids {
		parts = append(parts, k.String())
	}
	return string(n.Kind) + "(" + strings.Join(parts, ",") + ")"
}

func (n *Node) KindName() string {
	switch n.Kind {
	case 'p':
		return "text/plain"
	case 'h':
		return "text/html"
	case 'b':
		return "application/octet-stream"
	case 'm':
		return "message/rfc822"
	}
	return "multipart/mixed"
}

// SectionKids are the children rfc822 reports for the entity: the parts of a multipart; for an embedded message the
// parts of the embedded message's root.
func (n *Node) SectionKids() []*Node {
	switch n.Kind {
	case 'M':
		return n.Kids
	case 'm':
		return n.Kids[0].SectionKids()
	}
	return nil
}

// Variant selects how the tree is rendered to bytes.
type Variant struct {
	CT    int `json:"ct"`    // Content-Type spelling
	Hdr   int `json:"hdr"`   // message header forms (addresses, subject)
	EOL   int `json:"eol"`   // line endings
	Place int `json:"place"` // boundary placement
	Body  int `json:"body"`  // leaf body form
}

var (
	CTNames    = []string{"unquoted", "quoted", "folded", "missing", "upper", "compact"}
	HdrNames   = []string{"plain", "display-name", "quoted-display-name", "group", "comment", "encoded-word", "folded", "folded-after-name"}
	EOLNames   = []string{"CRLF", "LF", "mixed"}
	PlaceNames = []string{"plain", "preamble+epilogue", "no-close-delimiter", "outer-boundary-prefix-of-inner", "inner-boundary-prefix-of-outer", "delimiters-quoted-mid-line"}
	BodyNames  = []string{"terminated", "unterminated", "empty"}
)

func (v Variant) String() string {
	return fmt.Sprintf("ct=%s hdr=%s eol=%s place=%s body=%s", CTNames[v.CT], HdrNames[v.Hdr], EOLNames[v.EOL], PlaceNames[v.Place], BodyNames[v.Body])
}

type builder struct {
	buf    []byte
	v      Variant
	lineNo int
	encl   []string // boundaries of the enclosing multiparts
}

func (b *builder) eol() {
	switch b.v.EOL {
	case 0:
		b.buf = append(b.buf, '\r', '\n')
	case 1:
		b.buf = append(b.buf, '\n')
	default:
		if b.lineNo%2 == 0 {
			b.buf = append(b.buf, '\r', '\n')
		} else {
			b.buf = append(b.buf, '\n')
		}
	}
	b.lineNo++
}

func (b *builder) str(s string) { b.buf = append(b.buf, s...) }

// line writes one or more lines; "\n" inside s marks a fold (rendered with the variant's line ending).
func (b *builder) line(s string) {
	for i, part := range strings.Split(s, "\n") {
		if i > 0 {
			b.eol()
		}
		b.str(part)
	}
	b.eol()
}

// Build renders the tree as a message and records the byte ranges of every entity.
func Build(root *Node, v Variant) []byte {
	b := &builder{v: v}
	assignPaths(root, "")
	assignBoundaries(root, v.Place)
	b.entity(root, true)
	return b.buf
}

func assignPaths(n *Node, path string) {
	n.Path = path
	for i, k := range n.Kids {
		assignPaths(k, path+string(rune('1'+i)))
	}
}

// assignBoundaries names the boundaries. plain: "x<path>y" (no name is a prefix of another);
// outer-prefix-of-inner: "b<path>"; inner-prefix-of-outer: built bottom-up, an enclosing multipart appends to the
// name of the first multipart below it.
func assignBoundaries(n *Node, place int) string {
	var firstBelow string
	for _, k := range n.Kids {
		if s := assignBoundaries(k, place); s != "" && firstBelow == "" {
			firstBelow = s
		}
	}
	if n.Kind != 'M' {
		return firstBelow // the multipart inside an embedded message is "below" for the enclosing multipart as well
	}
	switch place {
	case 3:
		n.Boundary = "b" + n.Path
	case 4:
		if firstBelow == "" {
			n.Boundary = "b" + n.Path
		} else {
			n.Boundary = firstBelow + "z" + n.Path
		}
	default:
		n.Boundary = "x" + n.Path + "y"
	}
	return n.Boundary
}

func (b *builder) messageHeaders(n *Node) {
	id := "r" + n.Path
	from, to, subj := "alice@example.org", "bob@example.org", "hello "+id
	switch b.v.Hdr {
	case 1:
		from = "Alice Example <alice@example.org>"
		to = "Bob Example <bob@example.org>, Carol <carol@example.org>"
	case 2:
		from = `"Example, Alice" <alice@example.org>`
		to = `"Bob \"the\" Example" <bob@example.org>`
	case 3:
		to = "team: bob@example.org, Carol <carol@example.org>;"
	case 4:
		from = "alice@example.org (Alice (the first))"
		to = "(note) bob@example.org"
	case 5:
		from = "=?utf-8?q?Alic=C3=A9?= <alice@example.org>"
		subj = "=?utf-8?q?h=C3=A9llo?= =?utf-8?b?d29ybGQ=?= " + id
	case 6:
		to = "bob@example.org,\n\tcarol@example.org"
		subj = "hello\n folded " + id
	case 7:
		// folded directly after the field name (white space, line break, continuation) and an empty value with
		// trailing white space
		to = "\n\tbob@example.org"
		subj = "\n folded " + id
		b.line("X-Empty: ")
	}
	b.line("From: " + from)
	b.line("To: " + to)
	b.line("Subject: " + subj)
	b.line("Date: Mon, 02 Jan 2006 15:04:05 +0000")
	b.line("Message-Id: <" + id + "@example.org>")
	b.line("MIME-Version: 1.0")
}

func (b *builder) contentType(mt string, param, val string) {
	switch b.v.CT {
	case 1:
		if param == "" {
			b.line("Content-Type: " + mt)
		} else {
			b.line("Content-Type: " + mt + "; " + param + `="` + val + `"`)
		}
	case 2:
		if param == "" {
			b.line("Content-Type:\n " + mt)
		} else {
			b.line("Content-Type: " + mt + ";\n\t" + param + `="` + val + `"`)
		}
	case 4:
		if param == "" {
			b.line("CONTENT-TYPE: " + strings.ToUpper(mt))
		} else {
			b.line("CONTENT-TYPE: " + strings.ToUpper(mt) + "; " + strings.ToUpper(param) + "=" + val)
		}
	case 5:
		if param == "" {
			b.line("Content-Type:" + mt)
		} else {
			b.line("Content-Type:" + mt + ";" + param + "=" + val)
		}
	default: // 0 and 3 (3 = missing, handled by the caller for text/plain leaves)
		if param == "" {
			b.line("Content-Type: " + mt)
		} else {
			b.line("Content-Type: " + mt + "; " + param + "=" + val)
		}
	}
}

// entity writes headers, the blank line and the body of n. asMessage: n is the root entity of a message (the whole
// message or an embedded one) and carries the message headers.
func (b *builder) entity(n *Node, asMessage bool) {
	n.EntStart = len(b.buf)
	if asMessage {
		b.messageHeaders(n)
	}
	switch n.Kind {
	case 'p':
		if b.v.CT == 3 {
			n.NoCT = true
		} else {
			b.contentType("text/plain", "charset", "utf-8")
		}
	case 'h':
		b.contentType("text/html", "charset", "utf-8")
	case 'b':
		b.contentType("application/octet-stream", "name", "f.bin")
		b.line("Content-Transfer-Encoding: base64")
		b.line(`Content-Disposition: attachment; filename="f.bin"`)
	case 'm':
		b.contentType("message/rfc822", "", "")
	case 'M':
		b.contentType("multipart/mixed", "boundary", n.Boundary)
	}
	b.eol() // blank line
	n.BodyAt = len(b.buf)
	switch n.Kind {
	case 'p', 'h', 'b':
		b.leafBody(n)
	case 'm':
		b.entity(n.Kids[0], true)
	case 'M':
		closed := b.v.Place != 2
		if b.v.Place == 1 {
			b.line("This is the preamble of " + n.Boundary + ".")
		}
		b.encl = append(b.encl, n.Boundary)
		for i, k := range n.Kids {
			if i > 0 {
				b.eol() // the line break that belongs to the delimiter
			}
			b.str("--" + n.Boundary)
			b.eol()
			b.entity(k, false)
		}
		b.encl = b.encl[:len(b.encl)-1]
		if closed {
			b.eol()
			b.str("--" + n.Boundary + "--")
			if b.v.Place == 1 {
				b.eol()
				b.str("This is the epilogue of " + n.Boundary + ".")
			}
			if asMessage {
				b.eol() // a message file ends with a line break (part of the epilogue)
			}
		}
	}
	n.End = len(b.buf)
}

func (b *builder) leafBody(n *Node) {
	if b.v.Body == 2 {
		return
	}
	var l1, l2 string
	switch n.Kind {
	case 'p':
		l1, l2 = "plain part "+n.Path+" line one", "second line"
	case 'h':
		l1, l2 = "<html><body>part "+n.Path, "</body></html>"
	default:
		l1, l2 = "AAECAwQFBgcICQoLDA0ODxAREhMUFRYXGBkaGxwdHh8g", "ISIjJCUm"+strings.Repeat("QUJD", len(n.Path))
	}
	if b.v.Place == 5 && n.Kind != 'b' {
		// the enclosing delimiters quoted in the middle of a line are not delimiters
		for _, e := range b.encl {
			l1 += " x--" + e + " x--" + e + "--"
		}
	}
	b.str(l1)
	b.eol()
	b.str(l2)
	if b.v.Body == 0 {
		b.eol()
	}
}

// expected size and line counts of a single-part entity
func (n *Node) size() int { return n.End - n.BodyAt }

// lineCounts returns the acceptable values of the line count of the body: the number of line breaks, and - when
// the last line is not terminated - also that number plus one (the text of RFC 3501 does not decide).
func lineCounts(body []byte) (int, int) {
	nl := bytes.Count(body, []byte{'\n'})
	if len(body) == 0 || body[len(body)-1] == '\n' {
		return nl, nl
	}
	return nl, nl + 1
}

func hasKind(n *Node, k byte) bool {
	if n.Kind == k {
		return true
	}
	for _, c := range n.Kids {
		if hasKind(c, k) {
			return true
		}
	}
	return false
}
