package mime12

import (
	"bufio"
	"bytes"
	"encoding/json"
	"fmt"
	"os"
	"os/exec"
	"regexp"
	"sort"
	"strconv"
	"strings"
	"syscall"
	"time"

	"verif/engine/enumt"
	"verif/engine/explore"
)

// LiteralLimit: gluon's command parser refuses literals of 30 MiB and more (rfcparser/parser.go); the property
// quantifies over byte strings up to that limit.
const LiteralLimit = 30*1024*1024 - 1

// ScaleCase is one point of the scale axis.
//
//	axis comment-from / comment-to: From / To header whose value starts with a comment nested Depth deep
//	axis comment-date: Date header value with a comment nested Depth deep, given to rfc5322.ParseDateTime
//	axis multipart: Depth multiparts inside one another (distinct boundaries), one text leaf
//	axis rfc822: Depth message/rfc822 entities inside one another, one text message innermost
//	axis group: From header "g:g:g:...:a@b.c;;;..." (Depth group openers)
//	axis angle: From header "<<<...a@b.c>>>..." (Depth angle brackets)
//
// op parsed = imap.NewParsedMessage + list reader on its three texts; op walk = rfc822.Parse + Children / Walk /
// Part with the sub-slice checks; op date = rfc5322.ParseDateTime.
type ScaleCase struct {
	Axis  string `json:"axis"`
	Op    string `json:"op"`
	Depth int    `json:"depth"`
	// CPULimitS is the deadline in CPU seconds of the child process (wall clock backstop is 10x: only a process that sleeps instead of computing can hit it).
	CPULimitS int `json:"cpu_limit_s"`
}

type ScaleResult struct {
	Bytes   int         `json:"bytes"`
	Millis  int64       `json:"millis"`
	OutLen  int         `json:"out_len"`
	Err     string      `json:"err,omitempty"`
	Viol    *enumt.Viol `json:"viol,omitempty"`
	Outcome string      `json:"outcome"`
}

func init() {
	explore.RegisterCall("c12c", c12cCall)
	explore.RegisterCall("c12c-run", c12cRun)
}

// ScaleGroup is the root-cause class of an axis (the violation signature).
func ScaleGroup(axis string) string {
	switch axis {
	case "comment-from", "comment-to", "comment-date":
		return "header-comment-nesting"
	case "multipart":
		return "multipart-nesting"
	case "rfc822":
		return "message-rfc822-nesting"
	}
	return "address-nesting"
}

// ScaleMessage builds the input of a case.
func ScaleMessage(axis string, n int) []byte {
	var b bytes.Buffer
	switch axis {
	case "comment-from", "comment-to":
		h := "From: "
		if axis == "comment-to" {
			h = "To: "
		}
		b.Grow(2*n + 64)
		b.WriteString(h)
		b.Write(bytes.Repeat([]byte{'('}, n))
		b.Write(bytes.Repeat([]byte{')'}, n))
		b.WriteString(" a@b.c\r\n\r\nhi\r\n")
	case "comment-date":
		b.Grow(2*n + 64)
		b.Write(bytes.Repeat([]byte{'('}, n))
		b.Write(bytes.Repeat([]byte{')'}, n))
		b.WriteString(" Mon, 02 Jan 2006 15:04:05 +0000")
	case "group":
		b.WriteString("From: ")
		b.Write(bytes.Repeat([]byte("g:"), n))
		b.WriteString("a@b.c")
		b.Write(bytes.Repeat([]byte{';'}, n))
		b.WriteString("\r\n\r\nhi\r\n")
	case "angle":
		b.WriteString("From: ")
		b.Write(bytes.Repeat([]byte{'<'}, n))
		b.WriteString("a@b.c")
		b.Write(bytes.Repeat([]byte{'>'}, n))
		b.WriteString("\r\n\r\nhi\r\n")
	case "rfc822":
		b.Write(bytes.Repeat([]byte("Content-Type:message/rfc822\n\n"), n))
		b.WriteString("Subject: x\n\nbody\n")
	case "multipart":
		for i := 0; i < n; i++ {
			id := strconv.Itoa(i)
			b.WriteString("Content-Type: multipart/mixed; boundary=b")
			b.WriteString(id)
			b.WriteString("x\r\n\r\n--b")
			b.WriteString(id)
			b.WriteString("x\r\n")
		}
		b.WriteString("Content-Type: text/plain\r\n\r\nhi")
		for i := n - 1; i >= 0; i-- {
			b.WriteString("\r\n--b")
			b.WriteString(strconv.Itoa(i))
			b.WriteString("x--")
		}
		b.WriteString("\r\n")
	}
	return b.Bytes()
}

// ScaleMaxDepth is the largest depth whose input stays within the literal limit.
func ScaleMaxDepth(axis string) int {
	switch axis {
	case "comment-from", "comment-to", "comment-date":
		return (LiteralLimit - 64) / 2
	case "group":
		return (LiteralLimit - 64) / 3
	case "angle":
		return (LiteralLimit - 64) / 2
	case "rfc822":
		return (LiteralLimit - 64) / len("Content-Type:message/rfc822\n\n")
	case "multipart":
		lo, hi := 1, 1<<20
		size := func(n int) int {
			// per level: 41+d + 2 + 4+d+2 header and opener, 5+d+3 closer, d = digits of the level number
			total, lvl, digits := 64, 0, 1
			for pow := 10; lvl < n; pow *= 10 {
				cnt := pow - lvl
				if lvl+cnt > n {
					cnt = n - lvl
				}
				total += cnt * (40 + 3*digits + 20)
				lvl += cnt
				digits++
			}
			return total
		}
		for lo < hi {
			mid := (lo + hi + 1) / 2
			if size(mid) <= LiteralLimit {
				lo = mid
			} else {
				hi = mid - 1
			}
		}
		return lo
	}
	return 0
}

// c12cRun executes ONE scale case in this process (it is the grandchild started by c12cCall).
func c12cRun(raw json.RawMessage) (any, error) {
	quiet()
	var sc ScaleCase
	if err := json.Unmarshal(raw, &sc); err != nil {
		return nil, err
	}
	lit := ScaleMessage(sc.Axis, sc.Depth)
	if len(lit) > LiteralLimit {
		return nil, fmt.Errorf("case %+v exceeds the literal limit: %d bytes", sc, len(lit))
	}
	fmt.Fprintf(os.Stderr, "c12c: begin axis=%s op=%s depth=%d bytes=%d\n", sc.Axis, sc.Op, sc.Depth, len(lit))
	res := &ScaleResult{Bytes: len(lit)}
	input := map[string]any{"axis": sc.Axis, "op": sc.Op, "depth": sc.Depth, "bytes": len(lit)}
	start := time.Now()
	switch sc.Op {
	case "parsed":
		pm, err, pi := runParsed(lit)
		res.Millis = time.Since(start).Milliseconds()
		switch {
		case pi != nil:
			res.Viol = &enumt.Viol{Clause: "PANIC", Sig: pi.Site, Msg: fmt.Sprintf("axis %s depth %d: panic: %s", sc.Axis, sc.Depth, pi.Msg), Input: input}
			res.Outcome = "panic"
		case err != nil:
			res.Err = clip(err.Error(), 200)
			res.Outcome = "error"
		default:
			res.OutLen = len(pm.Structure)
			res.Outcome = "ok"
			if _, _, which, lerr := checkLists(pm); lerr != nil {
				res.Viol = &enumt.Viol{Clause: "MALFORMED-LIST", Sig: which, Msg: fmt.Sprintf("axis %s depth %d: %s is not a well-formed parenthesised list: %v", sc.Axis, sc.Depth, which, lerr), Input: input}
			}
		}
	case "walk":
		w, pi := runSections(lit, [][]int{{1}, {1, 1}, {2}, {1, 1, 1, 1}})
		res.Millis = time.Since(start).Milliseconds()
		res.Outcome = "ok"
		if pi != nil {
			res.Viol = &enumt.Viol{Clause: "PANIC", Sig: pi.Site, Msg: fmt.Sprintf("axis %s depth %d: panic: %s", sc.Axis, sc.Depth, pi.Msg), Input: input}
		} else if w.class != "" {
			res.Viol = &enumt.Viol{Clause: "SECTION", Sig: w.class, Msg: fmt.Sprintf("axis %s depth %d: %s", sc.Axis, sc.Depth, w.detail), Input: input}
		} else {
			res.OutLen = w.count
		}
	case "date":
		err, pi := runDateTime(string(lit))
		res.Millis = time.Since(start).Milliseconds()
		res.Outcome = "ok"
		if pi != nil {
			res.Viol = &enumt.Viol{Clause: "PANIC", Sig: pi.Site, Msg: fmt.Sprintf("axis %s depth %d: panic: %s", sc.Axis, sc.Depth, pi.Msg), Input: input}
		} else if err != nil {
			res.Err = clip(err.Error(), 200)
			res.Outcome = "error"
		}
	default:
		return nil, fmt.Errorf("unknown op %q", sc.Op)
	}
	return res, nil
}

// cpuSeconds reads utime+stime of a process from /proc.
func cpuSeconds(pid int) (float64, bool) {
	b, err := os.ReadFile(fmt.Sprintf("/proc/%d/stat", pid))
	if err != nil {
		return 0, false
	}
	s := string(b)
	i := strings.LastIndexByte(s, ')')
	if i < 0 {
		return 0, false
	}
	f := strings.Fields(s[i+1:])
	if len(f) < 13 {
		return 0, false
	}
	ut, _ := strconv.ParseFloat(f[11], 64)
	st, _ := strconv.ParseFloat(f[12], 64)
	return (ut + st) / 100, true
}

type capBuf struct {
	b   []byte
	max int
}

func (c *capBuf) Write(p []byte) (int, error) {
	if room := c.max - len(c.b); room > 0 {
		if len(p) < room {
			room = len(p)
		}
		c.b = append(c.b, p[:room]...)
	}
	return len(p), nil
}

var beginBytes = regexp.MustCompile(`c12c: begin [^\n]* bytes=(\d+)`)

var gluonFrame = regexp.MustCompile(`ProtonMail/gluon/([A-Za-z0-9_/]+\.[A-Za-z0-9_.()*]+)\(`)

// recursingFunctions summarises which gluon functions dominate a goroutine dump.
func recursingFunctions(stderr string) string {
	cnt := map[string]int{}
	for _, m := range gluonFrame.FindAllStringSubmatch(stderr, -1) {
		cnt[m[1]]++
	}
	var names []string
	for k, v := range cnt {
		if v >= 3 {
			names = append(names, k)
		}
	}
	sort.Strings(names)
	return strings.Join(names, ", ")
}

// stackFunctions lists the distinct gluon functions of a goroutine dump in order of first appearance.
func stackFunctions(stderr string) string {
	seen := map[string]bool{}
	var names []string
	for _, m := range gluonFrame.FindAllStringSubmatch(stderr, -1) {
		if !seen[m[1]] {
			seen[m[1]] = true
			names = append(names, m[1])
		}
	}
	if len(names) > 12 {
		names = names[:12]
	}
	return strings.Join(names, " < ")
}

const memoryExplosionMB = 8192

// heavySlot limits how many memory-hungry cases (depth >= 2^20: up to ~3 GB resident each on the current tree) run
// at the same time on the machine; the wait is not part of any measured time.
func heavySlot(sc ScaleCase) (release func()) {
	if sc.Depth < 1<<20 {
		return func() {}
	}
	const slots = 4
	for {
		for k := 0; k < slots; k++ {
			f, err := os.OpenFile(fmt.Sprintf("%s/verif-c12-heavy.%d.lock", os.TempDir(), k), os.O_CREATE|os.O_RDWR, 0o666)
			if err != nil {
				return func() {} // no lock files: run unthrottled
			}
			if syscall.Flock(int(f.Fd()), syscall.LOCK_EX|syscall.LOCK_NB) == nil {
				return func() {
					_ = syscall.Flock(int(f.Fd()), syscall.LOCK_UN)
					_ = f.Close()
				}
			}
			_ = f.Close()
		}
		time.Sleep(200 * time.Millisecond)
	}
}

// runScaleChild starts a fresh worker process, gives it the one case and supervises it.
func runScaleChild(sc ScaleCase) (sample map[string]any, viol *enumt.Viol, engineErr error) {
	exe, err := os.Executable()
	if err != nil {
		return nil, nil, err
	}
	defer heavySlot(sc)()
	params, _ := json.Marshal(sc)
	job, _ := json.Marshal(explore.Job{Mode: "call", Scenario: "c12c-run", Params: params})
	cmd := exec.Command(exe, "worker")
	cmd.Env = append(os.Environ(), "GOMAXPROCS=2", "VERIF_WORKER=1")
	cmd.Stdin = bytes.NewReader(append(job, '\n'))
	stderr := &capBuf{max: 256 * 1024}
	cmd.Stderr = stderr
	stdout, err := cmd.StdoutPipe()
	if err != nil {
		return nil, nil, err
	}
	start := time.Now()
	if err := cmd.Start(); err != nil {
		return nil, nil, err
	}
	type outT struct {
		line []byte
		err  error
	}
	outCh := make(chan outT, 1)
	go func() {
		r := bufio.NewReaderSize(stdout, 1<<20)
		line, err := r.ReadBytes('\n')
		outCh <- outT{line, err}
	}()
	cpuLimit := float64(sc.CPULimitS)
	if cpuLimit <= 0 {
		cpuLimit = 300
	}
	wallLimit := time.Duration(10*cpuLimit) * time.Second
	var out outT
	gotOut := false
	timedOut := ""
	lastCPU := 0.0
	tick := time.NewTicker(250 * time.Millisecond)
	defer tick.Stop()
wait:
	for {
		select {
		case out = <-outCh:
			gotOut = true
			break wait
		case <-tick.C:
			if c, ok := cpuSeconds(cmd.Process.Pid); ok {
				lastCPU = c
				if c > cpuLimit {
					timedOut = fmt.Sprintf("used more than %.0f s of CPU time", cpuLimit)
				}
			}
			if time.Since(start) > wallLimit {
				timedOut = fmt.Sprintf("ran for more than %v (wall clock backstop, CPU limit %.0f s)", wallLimit, cpuLimit)
			}
			if timedOut != "" {
				// SIGQUIT makes the Go runtime dump the goroutine stacks (the hot functions) before exiting
				_ = cmd.Process.Signal(syscall.SIGQUIT)
				select {
				case out = <-outCh:
					gotOut = true
				case <-time.After(20 * time.Second):
				}
				_ = cmd.Process.Kill()
				break wait
			}
		}
	}
	if !gotOut {
		<-outCh
	}
	werr := cmd.Wait()
	wall := time.Since(start)
	maxRSS := int64(0)
	if cmd.ProcessState != nil {
		if ru, ok := cmd.ProcessState.SysUsage().(*syscall.Rusage); ok {
			maxRSS = ru.Maxrss / 1024 // KB -> MB
			lastCPU = float64(ru.Utime.Sec+ru.Stime.Sec) + float64(ru.Utime.Usec+ru.Stime.Usec)/1e6
		}
	}
	se := string(stderr.b)
	input := map[string]any{"axis": sc.Axis, "op": sc.Op, "depth": sc.Depth, "note": "build the input with mime12.ScaleMessage(axis, depth)"}
	if m := beginBytes.FindStringSubmatch(se); m != nil {
		input["bytes"], _ = strconv.Atoi(m[1])
	}
	sample = map[string]any{"axis": sc.Axis, "op": sc.Op, "depth": sc.Depth, "wall_ms": wall.Milliseconds(), "cpu_ms": int64(lastCPU * 1000), "max_rss_mb": maxRSS}
	group := ScaleGroup(sc.Axis)
	switch {
	case timedOut != "":
		sample["status"] = "timeout"
		return sample, &enumt.Viol{Clause: "TIMEOUT", Sig: group, Msg: fmt.Sprintf("axis %s op %s depth %d: the process %s and was killed (peak RSS %d MB); gluon functions on the stack when it was stopped: %s", sc.Axis, sc.Op, sc.Depth, timedOut, maxRSS, stackFunctions(se)), Input: input}, nil
	case out.err != nil || werr != nil:
		sample["status"] = "died"
		what := "process died"
		sig := "died/" + group
		switch {
		case strings.Contains(se, "stack overflow") || strings.Contains(se, "stack exceeds"):
			sig = "stack-overflow/" + group
			what = "fatal error: stack overflow (goroutine stack exceeds the 1 GB limit; not recoverable)"
		case strings.Contains(se, "out of memory") || (werr != nil && strings.Contains(werr.Error(), "killed")):
			// Killed by the system or refused memory. With a small resident set this is the machine (other
			// processes exhausting memory), not gluon: inconclusive, reported as an engine error. Only a process that
			// itself grew beyond memoryExplosionMB from an input of at most 30 MiB is charged.
			if maxRSS < memoryExplosionMB {
				return sample, nil, fmt.Errorf("scale child for axis %s op %s depth %d was killed / refused memory by the system at a peak RSS of only %d MB (machine out of memory?): inconclusive", sc.Axis, sc.Op, sc.Depth, maxRSS)
			}
			sig = "memory-explosion/" + group
			what = fmt.Sprintf("process ran out of memory after growing to %d MB", maxRSS)
		default:
			if l := explore.CrashSig(se); l != "worker died" {
				sig = group + ": " + l
				what = l
			}
		}
		return sample, &enumt.Viol{Clause: "CRASH", Sig: sig, Msg: fmt.Sprintf("axis %s op %s depth %d (%v, peak RSS %d MB): %s; gluon functions repeating in the dump: %s; stderr head: %s", sc.Axis, sc.Op, sc.Depth, wall.Round(time.Millisecond), maxRSS, what, recursingFunctions(se), explore.TailLines(clip(se, 1500), 8)), Input: input}, nil
	}
	var m explore.Msg
	if err := json.Unmarshal(bytes.TrimSpace(out.line), &m); err != nil {
		return sample, nil, fmt.Errorf("bad line from scale child: %s", clip(string(out.line), 200))
	}
	if m.Type != "callres" {
		return sample, nil, fmt.Errorf("scale child: %s", m.Err)
	}
	var sr ScaleResult
	if err := json.Unmarshal(m.Result, &sr); err != nil {
		return sample, nil, err
	}
	sample["status"] = sr.Outcome
	sample["bytes"] = sr.Bytes
	sample["call_ms"] = sr.Millis
	sample["out_len"] = sr.OutLen
	if sr.Err != "" {
		sample["err"] = sr.Err
	}
	return sample, sr.Viol, nil
}

func c12cCall(raw json.RawMessage) (any, error) {
	chunk, err := enumt.ParseChunk(raw)
	if err != nil {
		return nil, err
	}
	res := &enumt.Result{Counters: map[string]int{}}
	for _, rc := range chunk.Cases {
		var sc ScaleCase
		if err := json.Unmarshal(rc, &sc); err != nil {
			return nil, err
		}
		sample, viol, eerr := runScaleChild(sc)
		if eerr != nil {
			return nil, eerr
		}
		res.Evaluations++
		res.Samples = append(res.Samples, sample)
		key := fmt.Sprintf("%s/%s/%d", sc.Axis, sc.Op, sc.Depth)
		res.Counters["c_cpu_ms:"+key] = int(sample["cpu_ms"].(int64))
		res.Counters["c_rss_mb:"+key] = int(sample["max_rss_mb"].(int64))
		res.Outcomes = append(res.Outcomes, fmt.Sprintf("%s/%s/%d:%v", sc.Axis, sc.Op, sc.Depth, sample["status"]))
		if viol != nil {
			res.Viol = append(res.Viol, *viol)
		}
	}
	return res, nil
}
