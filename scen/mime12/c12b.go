package mime12

import (
	"encoding/json"
	"fmt"
	"sort"
	"strings"

	"verif/engine/enumt"
	"verif/engine/explore"
)

// GarbageTokens is the alphabet of part (b). "From: a" is a header line without its line break, so that the
// following tokens ( ( ) < > " \ : NUL 0xFF ) land inside the address the envelope code parses; CRLF / LF tokens
// terminate it. "Subject: s\r\n" is a complete header line. A bare CR is included because the header parser and the
// boundary scanner have dedicated branches for it.
var GarbageTokens = []string{
	"From: a",
	"Subject: s\r\n",
	"--b",
	"--b--",
	"\r\n",
	"\n",
	"\r",
	":",
	"(",
	")",
	"<",
	">",
	`"`,
	`\`,
	"\x00",
	"\xff",
	"Content-Type: multipart/mixed; boundary=b\r\n",
	"Content-Type: message/rfc822\r\n",
}

// GarbageCase: every token string that starts with Prefix and has at most MaxLen tokens; Exact: only the strings
// of length <= len(Prefix)+... no extension (used for the strings shorter than the prefix length of the split).
type GarbageCase struct {
	Prefix []int `json:"prefix"`
	MaxLen int   `json:"max_len"`
}

func init() {
	explore.RegisterCall("c12b", c12bCall)
}

var garbagePartPaths = func() [][]int {
	var out [][]int
	ids := []int{0, 1, 2, 3}
	for _, a := range ids {
		out = append(out, []int{a})
		for _, b := range ids {
			out = append(out, []int{a, b})
		}
	}
	out = append(out, []int{1, 1, 1}, []int{-1})
	return out
}()

func renderTokens(toks []int) []byte {
	var out []byte
	for _, t := range toks {
		out = append(out, GarbageTokens[t]...)
	}
	return out
}

func tokenNames(toks []int) string {
	var parts []string
	for _, t := range toks {
		parts = append(parts, fmt.Sprintf("%q", GarbageTokens[t]))
	}
	return strings.Join(parts, " ")
}

type garbageEval struct {
	res      *enumt.Result
	outcomes map[string]bool
	sigSeen  map[string]bool
}

func (g *garbageEval) viol(clause, sig, msg string, toks []int, lit []byte) {
	g.res.Counters["b_viol:"+clause+"/"+sig]++
	if g.sigSeen[clause+"/"+sig] {
		return
	}
	g.sigSeen[clause+"/"+sig] = true
	g.res.Viol = append(g.res.Viol, enumt.Viol{Clause: clause, Sig: sig, Msg: fmt.Sprintf("tokens [%s]: %s", tokenNames(toks), msg),
		Input: map[string]any{"tokens": append([]int{}, toks...), "message_quoted": fmt.Sprintf("%q", lit)}})
}

func (g *garbageEval) eval(toks []int) {
	lit := renderTokens(toks)
	watchdogBegin(func() string { return fmt.Sprintf("c12b tokens %v message %q", toks, lit) })
	defer watchdogEnd()
	g.res.Evaluations++
	pm, err, pi := runParsed(lit)
	switch {
	case pi != nil:
		g.viol("PANIC", pi.Site, "panic: "+pi.Msg, toks, lit)
		g.outcomes["panic"] = true
	case err != nil:
		g.res.Counters["b_error_returned"]++
		g.outcomes["error"] = true
	default:
		if _, _, which, lerr := checkLists(pm); lerr != nil {
			text := map[string]string{"BODY": pm.Body, "BODYSTRUCTURE": pm.Structure, "ENVELOPE": pm.Envelope}[which]
			g.viol("MALFORMED-LIST", which, fmt.Sprintf("%s is not a well-formed parenthesised list: %v: %s", which, lerr, clip(text, 300)), toks, lit)
		}
		if sk := Skeleton(pm.Structure); sk != `(S S () NIL NIL NIL # # NIL NIL NIL NIL)` {
			g.outcomes[sk] = true // non-trivial: anything but a single default text part without any header field reflected
		}
	}
	w, pi := runSections(lit, garbagePartPaths)
	if pi != nil {
		g.viol("PANIC", pi.Site, "panic: "+pi.Msg, toks, lit)
	} else if w.class != "" {
		g.viol("SECTION", w.class, w.detail, toks, lit)
	}
	// the address and date parsers directly on the garbage
	if _, _, pi := runAddressList(string(lit)); pi != nil {
		g.viol("PANIC", pi.Site, "panic: "+pi.Msg, toks, lit)
	}
}

func (g *garbageEval) extend(toks []int, maxLen int) {
	g.eval(toks)
	if len(toks) >= maxLen {
		return
	}
	for t := range GarbageTokens {
		g.extend(append(toks, t), maxLen)
	}
}

func c12bCall(raw json.RawMessage) (any, error) {
	quiet()
	chunk, err := enumt.ParseChunk(raw)
	if err != nil {
		return nil, err
	}
	g := &garbageEval{res: &enumt.Result{Counters: map[string]int{}}, outcomes: map[string]bool{}, sigSeen: map[string]bool{}}
	for _, rc := range chunk.Cases {
		var gc GarbageCase
		if err := json.Unmarshal(rc, &gc); err != nil {
			return nil, err
		}
		toks := make([]int, len(gc.Prefix), gc.MaxLen+1)
		copy(toks, gc.Prefix)
		g.extend(toks, gc.MaxLen)
	}
	for o := range g.outcomes {
		g.res.Outcomes = append(g.res.Outcomes, o)
	}
	sort.Strings(g.res.Outcomes)
	return g.res, nil
}
