package mime12

import (
	"crypto/sha1"
	"encoding/hex"
	"encoding/json"
	"fmt"
	"sort"
	"strings"

	"github.com/ProtonMail/gluon/rfc822"

	"verif/engine/enumt"
	"verif/engine/explore"
)

// TreeCase is one MIME tree; Full selects the complete cross product of rendering variants, otherwise the star
// design (all line-ending x placement x body-form combinations with default headers, plus every header variant on
// two base renderings).
type TreeCase struct {
	Tree string `json:"tree"`
	Full bool   `json:"full"`
}

func init() {
	explore.RegisterCall("c12a", c12aCall)
}

func variantsFor(full bool) []Variant {
	var out []Variant
	if full {
		for ct := range CTNames {
			for hdr := range HdrNames {
				for eol := range EOLNames {
					for place := range PlaceNames {
						for body := range BodyNames {
							out = append(out, Variant{ct, hdr, eol, place, body})
						}
					}
				}
			}
		}
		return out
	}
	for eol := range EOLNames {
		for place := range PlaceNames {
			for body := range BodyNames {
				out = append(out, Variant{0, 0, eol, place, body})
			}
		}
	}
	for _, base := range []Variant{{0, 0, 0, 0, 0}, {0, 0, 2, 1, 1}} {
		for ct := 1; ct < len(CTNames); ct++ {
			v := base
			v.CT = ct
			out = append(out, v)
		}
		for hdr := 1; hdr < len(HdrNames); hdr++ {
			v := base
			v.Hdr = hdr
			out = append(out, v)
		}
	}
	return out
}

type mismatch struct {
	field  string // stable class name
	detail string
}

type comparer struct {
	mm   []mismatch
	seen map[string]bool
	msg  []byte
}

func (c *comparer) add(field, format string, a ...any) {
	if c.seen == nil {
		c.seen = map[string]bool{}
	}
	if c.seen[field] {
		return
	}
	c.seen[field] = true
	c.mm = append(c.mm, mismatch{field, fmt.Sprintf(format, a...)})
}

func kindClass(n *Node) string {
	switch n.Kind {
	case 'p', 'h':
		return "text"
	case 'b':
		return "binary"
	case 'm':
		return "message"
	}
	return "multipart"
}

func paramMap(v *Val) (map[string]string, bool) {
	out := map[string]string{}
	if v.Kind == 'N' {
		return out, true
	}
	if !v.IsList() || len(v.Items)%2 != 0 {
		return nil, false
	}
	for i := 0; i < len(v.Items); i += 2 {
		k, val := v.Items[i], v.Items[i+1]
		if k.Kind != 'S' || (val.Kind != 'S' && val.Kind != 'N') {
			return nil, false
		}
		out[strings.ToLower(k.S)] = val.S
	}
	return out, true
}

func sameParams(got map[string]string, want map[string]string) bool {
	if len(got) != len(want) {
		return false
	}
	for k, v := range want {
		if got[k] != v {
			return false
		}
	}
	return true
}

func (c *comparer) params(v *Val, n *Node, where string) {
	got, ok := paramMap(v)
	if !ok {
		c.add("params-shape/"+kindClass(n), "%s: parameter list is not a list of string pairs", where)
		return
	}
	var want map[string]string
	switch n.Kind {
	case 'p', 'h':
		want = map[string]string{"charset": "utf-8"}
		if n.NoCT {
			// no Content-Type header: text/plain; the default charset may or may not be reported
			if len(got) == 0 || sameParams(got, map[string]string{"charset": "us-ascii"}) {
				return
			}
			want = map[string]string{}
		}
	case 'b':
		want = map[string]string{"name": "f.bin"}
	case 'm':
		want = map[string]string{}
	case 'M':
		want = map[string]string{"boundary": n.Boundary}
	}
	if !sameParams(got, want) {
		c.add("params/"+kindClass(n), "%s (%s): parameters %v, built with %v", where, n.KindName(), got, want)
	}
}

// node compares one body structure value with the entity it was built from. ext: BODYSTRUCTURE (extension data
// present) rather than BODY.
func (c *comparer) node(v *Val, n *Node, ext bool, where string) {
	if !v.IsList() || len(v.Items) == 0 {
		c.add("shape/"+kindClass(n), "%s (%s): not a non-empty list", where, n.KindName())
		return
	}
	lead := 0
	for lead < len(v.Items) && v.Items[lead].IsList() {
		lead++
	}
	if n.Kind == 'M' || (lead > 0 && n.Kind == 'm' && len(n.SectionKids()) > 0) {
		kids := n.Kids
		if n.Kind == 'm' {
			// gluon reports a message/rfc822 part whose embedded message is a multipart as if it were that
			// multipart (media type "multipart"/"rfc822", no envelope, size or lines). Recorded once as its own
			// class; the comparison continues on the embedded parts so that other defects are not masked.
			c.add("message-rfc822-embedding-multipart-reported-as-multipart", "%s: message/rfc822 part embedding a multipart message is reported as %s", where, clip(fmtVal(v), 200))
			kids = n.SectionKids()
		}
		if lead != len(kids) {
			c.add("children-count/"+kindClass(n), "%s (%s): %d parts reported, built with %d", where, n.KindName(), lead, len(kids))
			return
		}
		if n.Kind == 'M' {
			if lead >= len(v.Items) || v.Items[lead].Kind != 'S' {
				c.add("shape/multipart", "%s: no subtype string after the parts", where)
				return
			}
			if !strings.EqualFold(v.Items[lead].S, "mixed") {
				c.add("type/multipart", "%s: multipart subtype %q, built as mixed", where, v.Items[lead].S)
			}
			if ext {
				if lead+1 >= len(v.Items) {
					c.add("shape/multipart", "%s: BODYSTRUCTURE of a multipart has no parameter list", where)
				} else {
					c.params(v.Items[lead+1], n, where)
				}
			}
		}
		for i, k := range kids {
			c.node(v.Items[i], k, ext, fmt.Sprintf("%s.%d", where, i+1))
		}
		return
	}
	if lead > 0 {
		c.add("type/"+kindClass(n), "%s: built as %s, reported as a multipart", where, n.KindName())
		return
	}
	it := v.Items
	if len(it) < 7 || it[0].Kind != 'S' || it[1].Kind != 'S' {
		c.add("shape/"+kindClass(n), "%s (%s): single part with %d fields or non-string media type", where, n.KindName(), len(it))
		return
	}
	if got := strings.ToLower(it[0].S + "/" + it[1].S); got != n.KindName() {
		c.add("type/"+kindClass(n), "%s: media type %s, built as %s", where, got, n.KindName())
		return
	}
	c.params(it[2], n, where)
	if it[6].Kind != '#' {
		c.add("shape/"+kindClass(n), "%s (%s): size field is not a number", where, n.KindName())
		return
	}
	if it[6].Num != n.size() {
		c.add("size/"+kindClass(n), "%s (%s): size %d, body built with %d bytes", where, n.KindName(), it[6].Num, n.size())
	}
	linesAt := -1
	switch n.Kind {
	case 'p', 'h':
		linesAt = 7
	case 'm':
		linesAt = 9
		if len(it) < 10 || !it[7].IsList() || !it[8].IsList() {
			c.add("shape/message", "%s: message/rfc822 part without envelope and body lists", where)
			return
		}
		c.node(it[8], n.Kids[0], ext, where+".msg")
	}
	if linesAt >= 0 {
		if len(it) <= linesAt || it[linesAt].Kind != '#' {
			c.add("shape/"+kindClass(n), "%s (%s): no line count", where, n.KindName())
			return
		}
		lo, hi := lineCounts(c.msg[n.BodyAt:n.End])
		if got := it[linesAt].Num; got != lo && got != hi {
			c.add("lines/"+kindClass(n), "%s (%s): %d lines, body built with %d line breaks", where, n.KindName(), got, lo)
		}
	}
}

func fmtVal(v *Val) string {
	switch v.Kind {
	case 'L':
		var parts []string
		for _, i := range v.Items {
			parts = append(parts, fmtVal(i))
		}
		return "(" + strings.Join(parts, " ") + ")"
	case 'N':
		return "NIL"
	case 'S':
		return fmt.Sprintf("%q", v.S)
	}
	return v.S
}

// sections compares the rfc822 section tree with the byte ranges recorded while building.
func (c *comparer) sections(root *rfc822.Section, sec *rfc822.Section, n *Node, where string, path []int) {
	lit := sec.Literal()
	if !within(lit, c.msg) {
		c.add("section-outside-message", "%s (%s): section is not a sub-slice of the message", where, n.KindName())
		return
	}
	locatable := !(len(lit) == 0 && cap(lit) == 0)
	if locatable && offsetIn(lit, c.msg) != n.EntStart || len(lit) != n.End-n.EntStart {
		c.add("section-range/"+kindClass(n), "%s (%s): section is [%d,+%d), built at [%d,+%d)", where, n.KindName(), offsetIn(lit, c.msg), len(lit), n.EntStart, n.End-n.EntStart)
		return
	}
	if len(sec.Header()) != n.BodyAt-n.EntStart || len(sec.Body()) != n.End-n.BodyAt {
		c.add("section-header-split/"+kindClass(n), "%s (%s): header %d + body %d bytes, built with %d + %d", where, n.KindName(), len(sec.Header()), len(sec.Body()), n.BodyAt-n.EntStart, n.End-n.BodyAt)
		return
	}
	if p, err := root.Part(path...); err != nil {
		c.add("part-lookup", "%s: Part(%v) fails: %v", where, path, err)
	} else if pl := p.Literal(); len(pl) != len(lit) || (locatable && offsetIn(pl, c.msg) != offsetIn(lit, c.msg)) {
		c.add("part-lookup", "%s: Part(%v) is a different section than the one reached through Children", where, path)
	}
	children, err := sec.Children()
	if err != nil {
		c.add("children-error", "%s (%s): Children fails: %v", where, n.KindName(), err)
		return
	}
	kids := n.SectionKids()
	if n.Kind == 'm' {
		// The statement does not fix how an embedded message appears in the section tree: accepted are the parts of
		// the embedded message's root (what gluon does today), the embedded message as the single child, or none.
		emb := n.Kids[0]
		switch {
		case len(children) == 0:
			return
		case len(children) == 1 && len(children[0].Literal()) == emb.End-emb.EntStart && (len(kids) != 1 || len(children[0].Literal()) != kids[0].End-kids[0].EntStart):
			kids = []*Node{emb}
		}
	}
	if len(children) != len(kids) {
		c.add("section-children-count/"+kindClass(n), "%s (%s): %d child sections, built with %d", where, n.KindName(), len(children), len(kids))
		return
	}
	for i, ch := range children {
		if !within(ch.Literal(), sec.Body()) {
			c.add("section-outside-parent", "%s.%d: child section is not inside the body of its parent", where, i+1)
			return
		}
		c.sections(root, ch, kids[i], fmt.Sprintf("%s.%d", where, i+1), append(append([]int{}, path...), i+1))
	}
}

func evalTree(tree *Node, v Variant, msg []byte) (viols []mismatch, outcome string) {
	pm, err, pi := runParsed(msg)
	if pi != nil {
		return []mismatch{{"PANIC:" + pi.Site, "panic: " + pi.Msg}}, "panic"
	}
	if err != nil {
		return []mismatch{{"error-on-well-formed-message", "NewParsedMessage fails: " + err.Error()}}, "error"
	}
	bs, body, which, lerr := checkLists(pm)
	if lerr != nil {
		return []mismatch{{"LIST:" + which, fmt.Sprintf("%s is not a well-formed parenthesised list: %v: %s", which, lerr, clip(pm.Structure, 300))}}, "malformed"
	}
	c := &comparer{msg: msg}
	c.node(bs, tree, true, "BODYSTRUCTURE")
	c.node(body, tree, false, "BODY")
	func() {
		var pi *panicInfo
		defer func() {
			if pi != nil {
				c.add("PANIC:"+pi.Site, "panic: %s", pi.Msg)
			}
		}()
		defer catch(&pi)
		root := rfc822.Parse(msg)
		c.sections(root, root, tree, "root", nil)
		for _, pp := range [][]int{{0}, {3}, {1, 3}, {1, 1, 1, 1, 1}, {-1}} {
			if s, err := root.Part(pp...); err == nil && s != nil && !within(s.Literal(), msg) {
				c.add("section-outside-message", "Part(%v) is not a sub-slice of the message", pp)
			}
		}
	}()
	h := sha1.Sum([]byte(Shape(pm.Body)))
	return c.mm, hex.EncodeToString(h[:6])
}

func c12aCall(raw json.RawMessage) (any, error) {
	quiet()
	chunk, err := enumt.ParseChunk(raw)
	if err != nil {
		return nil, err
	}
	res := &enumt.Result{Counters: map[string]int{}}
	outcomes := map[string]bool{}
	sigSeen := map[string]bool{}
	for _, rc := range chunk.Cases {
		var tc TreeCase
		if err := json.Unmarshal(rc, &tc); err != nil {
			return nil, err
		}
		seen := map[[20]byte]bool{}
		for _, v := range variantsFor(tc.Full) {
			tree, err := ParseTree(tc.Tree)
			if err != nil {
				return nil, err
			}
			if v.CT == 3 && !hasKind(tree, 'p') {
				continue // identical to ct=unquoted
			}
			msg := Build(tree, v)
			h := sha1.Sum(msg)
			if seen[h] {
				res.Counters["a_duplicate_renderings_skipped"]++
				continue
			}
			seen[h] = true
			cur := msg
			watchdogBegin(func() string { return fmt.Sprintf("c12a tree %s %s message %q", tc.Tree, v, cur) })
			mm, outcome := evalTree(tree, v, msg)
			watchdogEnd()
			res.Evaluations++
			outcomes[outcome] = true
			for _, m := range mm {
				clause, sig := "STRUCTURE", m.field
				switch {
				case strings.HasPrefix(m.field, "PANIC:"):
					clause, sig = "PANIC", strings.TrimPrefix(m.field, "PANIC:")
				case strings.HasPrefix(m.field, "LIST:"):
					clause, sig = "MALFORMED-LIST", strings.TrimPrefix(m.field, "LIST:")
				case strings.HasPrefix(m.field, "section") || m.field == "part-lookup" || m.field == "children-error":
					clause = "SECTION"
				case m.field == "error-on-well-formed-message":
					clause = "ERROR"
				}
				res.Counters["a_viol:"+clause+"/"+sig]++
				if sigSeen[clause+"/"+sig] {
					continue
				}
				sigSeen[clause+"/"+sig] = true
				res.Viol = append(res.Viol, enumt.Viol{Clause: clause, Sig: sig, Msg: fmt.Sprintf("tree %s rendered with %s: %s", tc.Tree, v, m.detail),
					Input: map[string]any{"tree": tc.Tree, "variant": v, "variant_names": v.String(), "message": string(msg)}})
			}
		}
	}
	for o := range outcomes {
		res.Outcomes = append(res.Outcomes, o)
	}
	sort.Strings(res.Outcomes)
	return res, nil
}
