// Package mime12 holds the batch functions of check C12: any message bytes yield well-formed ENVELOPE / BODY /
// BODYSTRUCTURE without crashing, and a well-formed message yields the MIME tree it was built from.
package mime12

import (
	"fmt"
	"strconv"
)

// Val is one value of a parenthesised IMAP list as read by the deliberately lenient reader below.
type Val struct {
	Kind  byte // 'L' list, 'N' NIL, '#' number, 'A' atom, 'S' quoted string
	Items []*Val
	S     string // atom text / decoded string
	Num   int
}

func (v *Val) IsList() bool { return v != nil && v.Kind == 'L' }

// ParseList reads exactly one parenthesised list covering the whole text.
//
// Accepted syntax (lenient on purpose, see the property text): balanced parentheses; items are NIL | number | atom
// | quoted string | nested list; items are separated by single or multiple spaces or by a parenthesis; inside a
// quoted string every backslash must be followed by a character, and there is no raw CR, LF or NUL; atoms consist
// of printable non-special bytes.
func ParseList(s string) (*Val, error) {
	p := &listReader{s: s}
	if len(s) == 0 {
		return nil, fmt.Errorf("empty text")
	}
	if s[0] != '(' {
		return nil, fmt.Errorf("text does not start with '(' but with %q", s[0])
	}
	v, err := p.list()
	if err != nil {
		return nil, err
	}
	if p.i != len(s) {
		return nil, fmt.Errorf("trailing bytes after the closing parenthesis at offset %d", p.i)
	}
	return v, nil
}

type listReader struct {
	s string
	i int
}

// list is iterative over an explicit stack so that the reader itself cannot overflow on deep nesting.
func (p *listReader) list() (*Val, error) {
	var stack []*Val
	var root *Val
	for {
		if p.i >= len(p.s) {
			return nil, fmt.Errorf("unbalanced: %d list(s) still open at the end of the text", len(stack))
		}
		c := p.s[p.i]
		switch {
		case c == '(':
			v := &Val{Kind: 'L'}
			if len(stack) > 0 {
				top := stack[len(stack)-1]
				top.Items = append(top.Items, v)
			} else {
				root = v
			}
			stack = append(stack, v)
			p.i++
		case c == ')':
			if len(stack) == 0 {
				return nil, fmt.Errorf("unbalanced: ')' without open list at offset %d", p.i)
			}
			stack = stack[:len(stack)-1]
			p.i++
			if len(stack) == 0 {
				return root, nil
			}
		case c == ' ':
			p.i++
		case c == '"':
			v, err := p.quoted()
			if err != nil {
				return nil, err
			}
			top := stack[len(stack)-1]
			top.Items = append(top.Items, v)
			if err := p.delimited(); err != nil {
				return nil, err
			}
		default:
			v, err := p.atom()
			if err != nil {
				return nil, err
			}
			top := stack[len(stack)-1]
			top.Items = append(top.Items, v)
		}
	}
}

func (p *listReader) delimited() error {
	if p.i < len(p.s) {
		if c := p.s[p.i]; c != ' ' && c != ')' && c != '(' {
			return fmt.Errorf("quoted string at offset %d is followed by %q instead of a space or parenthesis", p.i, c)
		}
	}
	return nil
}

func (p *listReader) quoted() (*Val, error) {
	start := p.i
	p.i++ // opening quote
	for p.i < len(p.s) {
		c := p.s[p.i]
		switch c {
		case '\\':
			if p.i+1 >= len(p.s) {
				return nil, fmt.Errorf("backslash at the very end of the text")
			}
			if n := p.s[p.i+1]; n == '\r' || n == '\n' || n == 0 {
				return nil, fmt.Errorf("raw byte %#x after a backslash inside a quoted string at offset %d", n, p.i+1)
			}
			p.i += 2
		case '"':
			p.i++
			raw := p.s[start:p.i]
			val, err := strconv.Unquote(raw)
			if err != nil {
				val = lenientUnquote(raw)
			}
			return &Val{Kind: 'S', S: val}, nil
		case '\r', '\n', 0:
			return nil, fmt.Errorf("raw byte %#x inside a quoted string at offset %d", c, p.i)
		default:
			p.i++
		}
	}
	return nil, fmt.Errorf("quoted string opened at offset %d is not closed", start)
}

func lenientUnquote(raw string) string {
	raw = raw[1 : len(raw)-1]
	out := make([]byte, 0, len(raw))
	for i := 0; i < len(raw); i++ {
		if raw[i] == '\\' && i+1 < len(raw) {
			i++
		}
		out = append(out, raw[i])
	}
	return string(out)
}

func (p *listReader) atom() (*Val, error) {
	start := p.i
	for p.i < len(p.s) {
		c := p.s[p.i]
		if c == ' ' || c == '(' || c == ')' {
			break
		}
		if c == '"' || c == '\\' || c < 0x20 || c == 0x7f {
			return nil, fmt.Errorf("byte %#x inside an atom at offset %d", c, p.i)
		}
		p.i++
	}
	t := p.s[start:p.i]
	if t == "NIL" {
		return &Val{Kind: 'N'}, nil
	}
	digits := true
	for i := 0; i < len(t); i++ {
		if t[i] < '0' || t[i] > '9' {
			digits = false
			break
		}
	}
	if digits && len(t) < 18 {
		n, _ := strconv.Atoi(t)
		return &Val{Kind: '#', Num: n, S: t}, nil
	}
	return &Val{Kind: 'A', S: t}, nil
}

// Shape abstracts every number of a list text to '#': the outcome key of a structure.
func Shape(s string) string {
	out := make([]byte, 0, len(s))
	inQ := false
	for i := 0; i < len(s); i++ {
		c := s[i]
		if inQ {
			out = append(out, c)
			if c == '\\' && i+1 < len(s) {
				i++
				out = append(out, s[i])
			} else if c == '"' {
				inQ = false
			}
			continue
		}
		if c == '"' {
			inQ = true
			out = append(out, c)
			continue
		}
		if c >= '0' && c <= '9' {
			if len(out) == 0 || out[len(out)-1] != '#' {
				out = append(out, '#')
			}
			continue
		}
		out = append(out, c)
	}
	return string(out)
}

// Skeleton abstracts numbers to '#' and the content of every quoted string to nothing: the nesting skeleton.
func Skeleton(s string) string {
	out := make([]byte, 0, len(s))
	inQ := false
	for i := 0; i < len(s); i++ {
		c := s[i]
		if inQ {
			if c == '\\' && i+1 < len(s) {
				i++
			} else if c == '"' {
				inQ = false
				out = append(out, 'S')
			}
			continue
		}
		switch {
		case c == '"':
			inQ = true
		case c >= '0' && c <= '9':
			if len(out) == 0 || out[len(out)-1] != '#' {
				out = append(out, '#')
			}
		default:
			out = append(out, c)
		}
	}
	return string(out)
}
