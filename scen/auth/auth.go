// Package auth is the authentication-gating / user-isolation scenario (C18).
package auth

import (
	"encoding/json"
	"fmt"
	"strings"
	"time"

	"verif/engine/enumt"
	"verif/engine/explore"
	"verif/engine/imapc"
	"verif/engine/vconn"
	"verif/engine/world"
	"verif/scen/mbox"
)

type Params struct {
	Alphabet []explore.Event `json:"alphabet"`
}

type run struct {
	p      Params
	w      *world.World
	s      *world.Sess
	user   int    // -1 = not authenticated
	sel    string // selected mailbox ("" = none)
	ro     bool   // selected read-only (EXAMINE)
	failed bool   // a LOGIN failed since the last success (informational)
	broken string
	keyN   int
	// counters the server keeps in memory and that are not observable until they matter: failed logins since the last
	// success (login jail) and consecutive BAD replies (the session is closed after 20). They keep BFS states apart.
	failedLogins int
	badStreak    int
	leaked       bool // the server was provoked into leaking a session state (see Step)
}

func init() {
	explore.Register("c18", New)
	explore.RegisterCall("c18jail", jailCall)
}

func setupWorld(jail time.Duration) (*world.World, error) {
	w, err := world.New(world.Config{Hold: false, JailTime: jail, Users: []world.UserCfg{{Name: "u1", Pass: "p1"}, {Name: "u2", Pass: "p2"}}})
	if err != nil {
		return nil, err
	}
	for u, box := range []string{"u1box", "u2box"} {
		sp := vconn.Spec{Kind: "MailboxCreated", Mbox: "mb-" + box, Name: []string{box}}
		if res := w.Inject(u, sp); res.Err != "" {
			w.Close()
			return nil, fmt.Errorf("setup: %+v", res)
		}
		w.Users[u].Conn.NoteRemote(sp)
		m := vconn.Spec{Kind: "MessagesCreated", Msg: "c-m" + box, Key: "m" + box, Mboxes: []string{"mb-" + box}}
		if res := w.Inject(u, m); res.Err != "" {
			w.Close()
			return nil, fmt.Errorf("setup: %+v", res)
		}
		w.Users[u].Conn.NoteRemote(m)
	}
	return w, nil
}

func New(raw json.RawMessage) (explore.Run, error) {
	var p Params
	if err := json.Unmarshal(raw, &p); err != nil {
		return nil, err
	}
	w, err := setupWorld(0)
	if err != nil {
		return nil, err
	}
	r := &run{p: p, w: w, user: -1}
	s, err := w.Connect()
	if err != nil {
		w.Close()
		return nil, err
	}
	r.s = s
	return r, nil
}

func (r *run) Close() {
	if r.leaked {
		r.w.Abandon() // the server holds a session state nobody serves: Close would wait for the watchdog
		return
	}
	r.w.Close()
}

func (r *run) Enabled() []explore.Event {
	if r.s.Dead {
		return nil
	}
	return r.p.Alphabet
}

// need: minimal protocol state a command needs ("any", "notauth", "auth", "selected")
func need(cmd string) string {
	f := strings.Fields(strings.ToUpper(cmd))
	switch f[0] {
	case "CAPABILITY", "NOOP", "ID", "LOGOUT":
		return "any"
	case "LOGIN":
		return "notauth"
	case "SELECT", "EXAMINE", "CREATE", "DELETE", "RENAME", "SUBSCRIBE", "UNSUBSCRIBE", "LIST", "LSUB", "STATUS", "APPEND", "IDLE":
		return "auth"
	}
	return "selected"
}

func (r *run) worlds() (string, string, error) {
	var out [2]string
	for u := 0; u < 2; u++ {
		v, err := mbox.ReadDB(r.w, u)
		if err != nil {
			return "", "", err
		}
		var b strings.Builder
		for _, mb := range v.Mboxes {
			fmt.Fprintf(&b, "[%s sub=%v:", mb.Name, mb.Subscribed)
			for _, m := range mb.Msgs {
				remote := m.Remote
				if strings.HasPrefix(remote, "GLUON-RECOVERED") {
					remote = "recovered"
				}
				fmt.Fprintf(&b, " %d=%s%v", m.UID, remote, m.Flags)
			}
			b.WriteString("]")
		}
		out[u] = b.String()
	}
	return out[0], out[1], nil
}

func (r *run) viol(clause, sig, msg string) explore.Violation {
	return explore.Violation{Prop: "C18", Clause: clause, Sig: sig, Msg: msg}
}

func (r *run) state() string {
	switch {
	case r.user < 0:
		return "notauth"
	case r.sel == "":
		return "auth"
	}
	return "selected"
}

func (r *run) Step(ev explore.Event) []explore.Violation {
	var out []explore.Violation
	b1, b2, err := r.worlds()
	if err != nil {
		r.broken = err.Error()
	}
	st := r.state()
	invalidBefore := false
	if r.user >= 0 && !r.s.Dead {
		if d, ok := r.w.DumpOf(r.s); ok && d.Invalid {
			invalidBefore = true // e.g. the selected mailbox was deleted: the server ends the session with BYE
		}
	}
	cmd := ev.A
	verb := strings.ToUpper(strings.Fields(cmd)[0])
	var res imapc.Result
	switch ev.K {
	case "append":
		r.keyN++
		res = r.s.C.CmdLit("APPEND "+ev.A, vconn.MakeLiteral(fmt.Sprintf("k%d", r.keyN)), "")
		verb, cmd = "APPEND", "APPEND "+ev.A
	case "idle":
		// IDLE + DONE as one step
		tag := r.s.C.NextTag()
		_ = r.s.C.Send([]byte(tag + " IDLE\r\n"))
		first, err := r.s.C.ReadResp()
		if err != nil {
			res.Err = err
			break
		}
		if strings.HasPrefix(first.Text, "+") {
			_ = r.s.C.Send([]byte("DONE\r\n"))
			res = r.s.C.Collect(tag)
		} else {
			res.Tagged = first
			if f := strings.Fields(first.Text); len(f) > 1 {
				res.Status = f[1]
			}
		}
		verb, cmd = "IDLE", "IDLE"
	default:
		res = r.s.C.Cmd(cmd)
	}
	if invalidBefore && !r.s.C.Closed {
		// the server ends a session whose state became invalid with BYE and closes: wait for the close so that the
		// outcome does not depend on timing
		for {
			if _, err := r.s.C.ReadResp(); err != nil {
				break
			}
		}
		if r.s.C.Closed {
			res.Err = imapc.ErrClosed
		}
	}
	if res.Err != nil {
		if r.s.C.Closed {
			r.s.Dead = true
			if verb != "LOGOUT" && !invalidBefore {
				out = append(out, r.viol("connection-closed", verb, fmt.Sprintf("%s in state %s closed the connection", cmd, st)))
			}
		} else {
			r.broken = res.Err.Error()
		}
	}
	if res.Err == nil {
		switch {
		case verb == "LOGIN" && res.Status == "OK":
			r.failedLogins = 0
		case verb == "LOGIN" && res.Status == "NO":
			r.failedLogins++
		}
		if res.Status == "BAD" {
			r.badStreak++
		} else {
			r.badStreak = 0
		}
	}
	if verb == "LOGOUT" {
		r.w.Logout(r.s)
		r.s.Dead = true
	}
	// a LOGIN that is accepted although the session is authenticated already replaces the session's state behind the
	// harness's back: the violation is reported below, the session is not followed any further (the state the harness
	// knows is no longer served, waiting for it would only run into the watchdog)
	relogin := verb == "LOGIN" && st != "notauth" && res.Err == nil && res.Status == "OK"
	if !r.s.Dead && !relogin {
		if r.s.User >= 0 {
			_ = r.w.Barrier(r.s)
		}
	}
	if relogin {
		r.leaked = true
		defer func() { r.s.Dead = true }()
	}
	a1, a2, err := r.worlds()
	if err != nil {
		r.broken = err.Error()
	}
	n := need(cmd)
	allowed := n == "any" || (n == "notauth" && st == "notauth") || (n == "auth" && st != "notauth") || (n == "selected" && st == "selected")
	if verb == "APPEND" {
		n = "auth"
		allowed = st != "notauth"
	}
	refusedReply := res.Status == "NO" || res.Status == "BAD"
	if !allowed && !r.s.Dead && res.Err == nil {
		if !refusedReply {
			out = append(out, r.viol("gating", verb+"/"+st, fmt.Sprintf("%s needs state %q but was answered %q in state %s", cmd, n, res.Tagged.Text, st)))
		}
		if a1 != b1 || a2 != b2 {
			out = append(out, r.viol("gating-effect", verb+"/"+st, fmt.Sprintf("%s in state %s changed a user's mailboxes: u1 %s -> %s ; u2 %s -> %s", cmd, st, b1, a1, b2, a2)))
		}
	}
	// isolation: a session never changes the other user's world
	switch r.user {
	case 0:
		if a2 != b2 {
			out = append(out, r.viol("isolation", verb, fmt.Sprintf("%s by u1 changed u2's mailboxes: %s -> %s", cmd, b2, a2)))
		}
	case 1:
		if a1 != b1 {
			out = append(out, r.viol("isolation", verb, fmt.Sprintf("%s by u2 changed u1's mailboxes: %s -> %s", cmd, b1, a1)))
		}
	default:
		if verb != "LOGIN" && (a1 != b1 || a2 != b2) {
			out = append(out, r.viol("gating-effect", verb+"/notauth", fmt.Sprintf("%s before login changed mailboxes", cmd)))
		}
	}
	// nothing of the other user is ever shown
	other := "u2box"
	if r.user == 1 {
		other = "u1box"
	}
	if r.user >= 0 {
		for _, u := range res.Untagged {
			if strings.Contains(u.Text, other) || strings.Contains(u.Text, "m"+other) {
				out = append(out, r.viol("isolation-leak", verb, fmt.Sprintf("%s by user %d returned %q", cmd, r.user+1, u.Text)))
			}
		}
		if (verb == "SELECT" || verb == "EXAMINE" || verb == "STATUS") && strings.Contains(cmd, other) && res.OK() {
			out = append(out, r.viol("isolation-access", verb, fmt.Sprintf("%s by user %d on the other user's mailbox answered OK", cmd, r.user+1)))
		}
	}
	// state tracking
	if allowed && res.OK() {
		f := strings.Fields(cmd)
		switch verb {
		case "LOGIN":
			want := -1
			switch {
			case f[1] == "u1" && f[2] == "p1":
				want = 0
			case f[1] == "u2" && f[2] == "p2":
				want = 1
			}
			if want < 0 {
				out = append(out, r.viol("wrong-credentials-accepted", "LOGIN", cmd+" answered "+res.Tagged.Text))
				r.broken = "authenticated with wrong credentials"
			} else {
				r.user = want
				r.s.User = want
				ids := r.w.Srv.VerifStateIDs(r.w.Users[want].ID)
				if len(ids) > 0 {
					r.s.StateID = ids[len(ids)-1]
				}
			}
		case "SELECT", "EXAMINE":
			r.sel = f[1]
			r.ro = verb == "EXAMINE"
		case "CLOSE", "UNSELECT":
			r.sel = ""
		case "DELETE":
			if f[1] == r.sel {
				r.sel = ""
			}
		}
	}
	if verb == "LOGIN" && !res.OK() {
		f := strings.Fields(cmd)
		if st == "notauth" && ((f[1] == "u1" && f[2] == "p1") || (f[1] == "u2" && f[2] == "p2")) {
			out = append(out, r.viol("valid-login-refused", "LOGIN", cmd+" answered "+res.Tagged.Text))
		}
	}
	if (verb == "SELECT" || verb == "EXAMINE") && allowed && !res.OK() {
		// RFC 3501: a failed SELECT leaves no mailbox selected; gluon keeps the old one. Track the server.
		if d, ok := r.w.DumpOf(r.s); ok && !d.Selected {
			r.sel = ""
		}
	}
	// cross-check the tracked state with the server
	if !r.s.Dead && r.user >= 0 {
		if d, ok := r.w.DumpOf(r.s); ok {
			if d.Selected != (r.sel != "") && !d.Invalid {
				if (verb == "CLOSE" || verb == "UNSELECT") && res.OK() && d.Selected {
					out = append(out, r.viol("selection-survives", verb, fmt.Sprintf("%s was answered %q but the session still has a mailbox selected (selected-state commands are not refused afterwards)", cmd, res.Tagged.Text)))
				} else {
					r.broken = fmt.Sprintf("state tracking: harness sel=%q server selected=%v after %s", r.sel, d.Selected, cmd)
				}
			}
		}
	}
	if r.broken != "" {
		out = append(out, explore.Violation{Prop: "ENGINE", Clause: "engine", Sig: "broken", Msg: r.broken})
	}
	return out
}

func (r *run) Canon() string {
	a, b, _ := r.worlds()
	srv := "-"
	if !r.s.Dead && r.user >= 0 {
		if d, ok := r.w.DumpOf(r.s); ok {
			srv = fmt.Sprintf("selected=%v ro=%v invalid=%v n=%d", d.Selected, d.ReadOnly, d.Invalid, len(d.Msgs))
		}
	}
	return fmt.Sprintf("user=%d sel=%s ro=%v dead=%v failed-logins=%d bad-streak=%d server[%s] | %s | %s", r.user, r.sel, r.ro, r.s.Dead, r.failedLogins, r.badStreak, srv, a, b)
}

func (r *run) Extensions() []explore.Violation { return nil }

// ---------------------------------------------------------------------------------------------------------------
// Jail: after three consecutive failed logins the next attempt is not answered before the jail time has passed.

type JailCase struct {
	Attempts []string `json:"attempts"` // each: "ok" | "badpw" | "nouser" | "crosspw"
	JailMS   int      `json:"jail_ms"`
}

func jailCall(raw json.RawMessage) (any, error) {
	chunk, err := enumt.ParseChunk(raw)
	if err != nil {
		return nil, err
	}
	res := &enumt.Result{Counters: map[string]int{}}
	outcomes := map[string]bool{}
	for _, rc := range chunk.Cases {
		var cs JailCase
		if err := json.Unmarshal(rc, &cs); err != nil {
			return nil, err
		}
		jail := time.Duration(cs.JailMS) * time.Millisecond
		w, err := setupWorld(jail)
		if err != nil {
			return nil, err
		}
		consecutive := 0
		var thirdSent time.Time
		var pattern []string
		for i, a := range cs.Attempts {
			s, err := w.Connect()
			if err != nil {
				w.Close()
				return nil, err
			}
			cmd := map[string]string{"ok": "LOGIN u1 p1", "badpw": "LOGIN u1 nope", "nouser": "LOGIN ghost p1", "crosspw": "LOGIN u1 p2"}[a]
			sent := time.Now()
			r := s.C.Cmd(cmd)
			got := time.Now()
			res.Evaluations++
			if consecutive >= 3 {
				if el := got.Sub(thirdSent); el < jail {
					res.Viol = append(res.Viol, enumt.Viol{Clause: "jail", Sig: "answered-early", Msg: fmt.Sprintf("attempts %v: attempt %d was answered %v after the third consecutive failure was sent (jail time %v)", cs.Attempts, i+1, el, jail), Input: cs})
				}
				consecutive = 0 // the jail resets the counter
			}
			if a == "ok" {
				if r.OK() {
					consecutive = 0
				} else {
					// a valid login refused: only acceptable while jailed
					pattern = append(pattern, "ok-refused")
				}
			} else {
				if r.OK() {
					res.Viol = append(res.Viol, enumt.Viol{Clause: "wrong-credentials-accepted", Sig: a, Msg: cmd + " answered " + r.Tagged.Text, Input: cs})
				}
				consecutive++
				if consecutive == 3 {
					thirdSent = sent
				}
			}
			pattern = append(pattern, r.Status)
		}
		outcomes[strings.Join(cs.Attempts, ",")+"=>"+strings.Join(pattern, ",")] = true
		if len(res.Samples) < 2 {
			res.Samples = append(res.Samples, map[string]any{"attempts": cs.Attempts, "statuses": pattern})
		}
		w.Close()
	}
	for k := range outcomes {
		res.Outcomes = append(res.Outcomes, k)
	}
	return res, nil
}
