package parse10

import (
	"errors"
	"io"
	"strconv"
	"strings"
)

// ---------------------------------------------------------------------------------------------------------------
// keyword case

const (
	caseUpper = iota
	caseLower
	caseAltLower // aLtErNaTe
	caseAltUpper // AlTeRnAtE
	nCases
)

var caseNames = []string{"UPPER", "lower", "aLtErNaTe", "AlTeRnAtE"}

func applyCase(s string, mode int) string {
	switch mode {
	case caseUpper:
		return strings.ToUpper(s)
	case caseLower:
		return strings.ToLower(s)
	}
	b := []byte(s)
	n := 0
	if mode == caseAltUpper {
		n = 1
	}
	for i, c := range b {
		isLetter := (c >= 'a' && c <= 'z') || (c >= 'A' && c <= 'Z')
		if !isLetter {
			continue
		}
		if n%2 == 0 {
			b[i] = c | 0x20
		} else {
			b[i] = c &^ 0x20
		}
		n++
	}
	return string(b)
}

// ---------------------------------------------------------------------------------------------------------------
// rendering

type rendering struct {
	caseMode    int
	enc         []int  // encoding of every string piece, in order
	wire        []byte // the command bytes (final CRLF included)
	gates       []int  // offsets where literal data begins: a synchronising client sends from here on only after "+"
	bracketAtom bool   // some atom-encoded argument contains '['
	zeroLiteral bool   // some literal has length 0
	listLiteral bool   // a list-mailbox argument is sent as a literal
	spans       []span // what each byte range of wire is (for the witness class of chunking failures)
}

type span struct {
	end  int // exclusive
	kind string
}

// cutKind names where a cut after byte off-1 falls: inside an element or between two elements.
func (r *rendering) cutKind(off int) string {
	idx := func(o int) int {
		for i, s := range r.spans {
			if o < s.end {
				return i
			}
		}
		return len(r.spans) - 1
	}
	a, b := idx(off-1), idx(off)
	if a == b {
		return "split-in-" + r.spans[a].kind
	}
	return "split-between-" + r.spans[a].kind + "-and-" + r.spans[b].kind
}

func quote(s string) string {
	var b strings.Builder
	b.WriteByte('"')
	for i := 0; i < len(s); i++ {
		if s[i] == '"' || s[i] == '\\' {
			b.WriteByte('\\')
		}
		b.WriteByte(s[i])
	}
	b.WriteByte('"')
	return b.String()
}

func render(c *Cmd, caseMode int, enc []int) *rendering {
	r := &rendering{caseMode: caseMode, enc: enc}
	var w []byte
	si := 0
	mark := func(kind string) { r.spans = append(r.spans, span{end: len(w), kind: kind}) }
	literal := func(s string) {
		w = append(w, '{')
		w = strconv.AppendInt(w, int64(len(s)), 10)
		w = append(w, '}', '\r', '\n')
		mark("literal-header")
		r.gates = append(r.gates, len(w))
		w = append(w, s...)
		mark("literal-data")
		if len(s) == 0 {
			r.zeroLiteral = true
		}
	}
	for _, p := range c.Pieces {
		switch p.k {
		case pkKw:
			w = append(w, applyCase(p.s, caseMode)...)
			mark("keyword")
		case pkRaw:
			w = append(w, p.s...)
			mark("punctuation")
		case pkLit:
			literal(p.s)
		case pkStr:
			switch enc[si] {
			case encAtom:
				w = append(w, p.s...)
				if strings.IndexByte(p.s, '[') >= 0 {
					r.bracketAtom = true
				}
				mark("atom")
			case encQuoted:
				w = append(w, quote(p.s)...)
				mark("quoted")
			case encLiteral:
				literal(p.s)
				if p.slot == skListMailbox {
					r.listLiteral = true
				}
			}
			si++
		}
	}
	r.wire = w
	return r
}

// encAssignments enumerates the encodings of the string arguments: the full product of the legal encodings of
// every argument when it has at most maxProduct elements; otherwise the three uniform assignments (every argument
// quoted / atom / literal where legal) and every single-argument deviation from each of them.
// Assignment 0 is always "quoted wherever legal".
func encAssignments(c *Cmd, maxProduct int) [][]int {
	var legal [][]int
	for _, p := range c.Pieces {
		if p.k == pkStr {
			l := legalEncs(p)
			if len(l) == 0 {
				panic("parse10: generator produced an argument without a legal encoding: " + strconv.Quote(p.s))
			}
			legal = append(legal, l)
		}
	}
	has := func(l []int, e int) bool {
		for _, x := range l {
			if x == e {
				return true
			}
		}
		return false
	}
	uniform := func(order ...int) []int {
		a := make([]int, len(legal))
		for i, l := range legal {
			for _, e := range order {
				if has(l, e) {
					a[i] = e
					break
				}
			}
		}
		return a
	}
	uni := [][]int{uniform(encQuoted, encLiteral, encAtom), uniform(encAtom, encQuoted, encLiteral), uniform(encLiteral, encQuoted, encAtom)}
	seen := map[string]bool{}
	var out [][]int
	add := func(a []int) {
		k := make([]byte, len(a))
		for i, e := range a {
			k[i] = byte('0' + e)
		}
		if !seen[string(k)] {
			seen[string(k)] = true
			out = append(out, append([]int{}, a...))
		}
	}
	for _, u := range uni {
		add(u)
	}
	product := 1
	for _, l := range legal {
		product *= len(l)
		if product > maxProduct {
			break
		}
	}
	if product <= maxProduct {
		a := make([]int, len(legal))
		var rec func(i int)
		rec = func(i int) {
			if i == len(legal) {
				add(a)
				return
			}
			for _, e := range legal[i] {
				a[i] = e
				rec(i + 1)
			}
		}
		rec(0)
		return out
	}
	for _, u := range uni {
		for i, l := range legal {
			for _, e := range l {
				a := append([]int{}, u...)
				a[i] = e
				add(a)
			}
		}
	}
	return out
}

// nUniform is the number of leading assignments of encAssignments that are the uniform ones (after de-duplication
// there may be fewer than three distinct ones; the caller treats the first min(3,len) as "uniform").
const nUniform = 3

// ---------------------------------------------------------------------------------------------------------------
// chunked, synchronising reader

const sentinel = "Zz9 NOOP\r\n"

var errBlocked = errors.New("c10: no more bytes until the server acts (a real client would wait here)")

type hangPanic struct{ what string }

// chunkReader returns data in pieces. In sync mode it models a client that (a) sends the bytes of a literal only
// after the continuation request and (b) sends the next command only after the current one has been parsed:
// a Read at such a point while the gate is closed is recorded in blocked (the real connection would dead-lock).
type chunkReader struct {
	data    []byte
	cmdEnd  int
	gates   []int
	sync    bool
	byByte  bool
	cutA    int // 0 = none
	cutB    int
	pos     int
	gi      int
	cont    int // continuation requests sent by the parser so far
	endOpen bool
	blocked string
	idle    int // reads that returned nothing
}

func (r *chunkReader) fail(what string) (int, error) {
	r.idle++
	if r.idle > 10000 {
		panic(hangPanic{what})
	}
	if what == "eof" {
		return 0, io.EOF
	}
	if r.blocked == "" {
		r.blocked = what
	}
	return 0, errBlocked
}

func (r *chunkReader) Read(p []byte) (int, error) {
	if r.pos >= len(r.data) {
		return r.fail("eof")
	}
	if len(p) == 0 {
		return 0, nil
	}
	limit := len(r.data)
	if r.sync {
		for r.gi < len(r.gates) && r.gates[r.gi] <= r.pos {
			if r.cont <= r.gi {
				return r.fail("read-literal-before-continuation")
			}
			r.gi++
		}
		if r.pos >= r.cmdEnd && !r.endOpen {
			return r.fail("read-past-end-of-command")
		}
		if r.pos < r.cmdEnd {
			limit = r.cmdEnd
		}
		if r.gi < len(r.gates) && r.gates[r.gi] < limit {
			limit = r.gates[r.gi]
		}
	}
	if r.byByte {
		limit = r.pos + 1
	} else {
		if r.cutA > r.pos && r.cutA < limit {
			limit = r.cutA
		}
		if r.cutB > r.pos && r.cutB < limit {
			limit = r.cutB
		}
	}
	n := copy(p, r.data[r.pos:limit])
	r.pos += n
	return n, nil
}
