package parse10

import (
	"bufio"
	"encoding/json"
	"fmt"
	"os"
	"reflect"
	"regexp"
	"sort"
	"strconv"
	"strings"
	"time"

	"github.com/ProtonMail/gluon/imap/command"
	"github.com/ProtonMail/gluon/rfcparser"

	"verif/engine/enumt"
	"verif/engine/explore"
)

// Case names one abstract command: the Idx-th command of family Fam of the deterministic generator.
type Case struct {
	Fam string `json:"fam"`
	Idx int    `json:"idx"`
	// informational (filled in for violations)
	Wire   string   `json:"wire,omitempty"`
	Case   string   `json:"case,omitempty"`
	Enc    []string `json:"enc,omitempty"`
	Chunks string   `json:"chunks,omitempty"`
}

type Common struct {
	Thorough bool `json:"thorough"`
}

func init() { explore.RegisterCall("c10", c10Call) }

// ---------------------------------------------------------------------------------------------------------------
// policy (what is enumerated per abstract command)

type policy struct {
	maxEncProduct int // full product of the encodings up to this size, else uniform + single deviations
	split2All     int // every 2-way split for EVERY (case, encoding) rendering when #renderings*len <= this
	split3Len     int // all 3-way splits for wires up to this length (0 = none), UPPER and aLtErNaTe case x uniform encodings
	longWire      int // wires longer than this get 2-way splits only near the ends and around bufio's 4096 boundary
}

func policyFor(thorough bool) policy {
	if thorough {
		return policy{maxEncProduct: 81, split2All: 40000, split3Len: 40, longWire: 400}
	}
	return policy{maxEncProduct: 27, split2All: 1500, split3Len: 0, longWire: 200}
}

// ---------------------------------------------------------------------------------------------------------------
// one parse

type outcome struct {
	kind   string // "" = ok; error | mismatch | next-command | sync | continuation-count | panic | hang
	detail string
	got    any
}

func (o outcome) ok() bool { return o.kind == "" }

// parseOnce feeds wire+sentinel through the same reader stack the server uses (bufio.Reader -> InputCollector ->
// Scanner) and parses two commands.
func parseOnce(br *bufio.Reader, rd *chunkReader, nLit int, exp command.Command) (out outcome) {
	defer func() {
		if e := recover(); e != nil {
			if h, ok := e.(hangPanic); ok {
				out = outcome{kind: "hang", detail: "parser keeps reading (>10^4 reads) at " + h.what}
				return
			}
			out = outcome{kind: "panic", detail: fmt.Sprint(e)}
		}
	}()
	br.Reset(rd) // same as bufio.NewReader(rd) (default 4096-byte buffer), without re-allocating the buffer
	ic := command.NewInputCollector(br)
	sc := rfcparser.NewScannerWithReader(ic)
	p := command.NewParserWithLiteralContinuationCb(sc, func() error { rd.cont++; return nil })
	cmd, err := p.Parse()
	if rd.blocked != "" {
		return outcome{kind: "sync", detail: rd.blocked}
	}
	if err != nil {
		return outcome{kind: "error", detail: err.Error()}
	}
	if d := same(reflect.ValueOf(cmd), reflect.ValueOf(exp), "", "Command"); d != "" {
		return outcome{kind: "mismatch", detail: d, got: cmd}
	}
	if rd.cont != nLit {
		return outcome{kind: "continuation-count", detail: fmt.Sprintf("%d continuation requests for %d literals", rd.cont, nLit)}
	}
	rd.endOpen = true
	cmd2, err := p.Parse()
	if err != nil {
		return outcome{kind: "next-command", detail: "the command that follows fails to parse: " + err.Error()}
	}
	if _, isNoop := cmd2.Payload.(*command.Noop); !isNoop || cmd2.Tag != "Zz9" {
		return outcome{kind: "next-command", detail: "the command that follows is parsed as " + dump(cmd2), got: cmd2}
	}
	return outcome{}
}

// ---------------------------------------------------------------------------------------------------------------
// comparison: reflect.DeepEqual except for what cannot matter

var timeType = reflect.TypeOf(time.Time{})

// same compares parsed and expected values; it returns "" when they are equal, else the innermost
// "<Struct>.<Field>" where the first difference sits. Differences that are ignored: nil vs empty slice / map;
// time.Time is compared with Equal; the letter case of "\"-flags (system flags are case-insensitive).
func same(a, b reflect.Value, owner, field string) string {
	here := owner + "." + field
	if a.IsValid() != b.IsValid() {
		return here
	}
	if !a.IsValid() {
		return ""
	}
	if a.Type() != b.Type() {
		return here
	}
	switch a.Kind() {
	case reflect.Interface, reflect.Ptr:
		if a.IsNil() || b.IsNil() {
			if a.IsNil() == b.IsNil() {
				return ""
			}
			return here
		}
		return same(a.Elem(), b.Elem(), owner, field)
	case reflect.Struct:
		if a.Type() == timeType {
			if a.Interface().(time.Time).Equal(b.Interface().(time.Time)) {
				return ""
			}
			return here
		}
		for i := 0; i < a.NumField(); i++ {
			if d := same(a.Field(i), b.Field(i), a.Type().Name(), a.Type().Field(i).Name); d != "" {
				return d
			}
		}
		return ""
	case reflect.Slice:
		if a.Len() != b.Len() {
			return here + "(length)"
		}
		for i := 0; i < a.Len(); i++ {
			if d := same(a.Index(i), b.Index(i), owner, field); d != "" {
				return d
			}
		}
		return ""
	case reflect.Map:
		if a.Len() != b.Len() {
			return here + "(length)"
		}
		for _, k := range a.MapKeys() {
			bv := b.MapIndex(k)
			if !bv.IsValid() {
				return here
			}
			if d := same(a.MapIndex(k), bv, owner, field); d != "" {
				return d
			}
		}
		return ""
	case reflect.String:
		x, y := a.String(), b.String()
		if x == y || (field == "Flags" && strings.HasPrefix(x, `\`) && strings.EqualFold(x, y)) {
			return ""
		}
		return here
	default:
		if a.Interface() == b.Interface() {
			return ""
		}
		return here
	}
}

var (
	reOffset = regexp.MustCompile(`^\[Error offset=\d+\]: `)
	reQuoted = regexp.MustCompile(`'[^']*'?`)
	reDigits = regexp.MustCompile(`[0-9a-f]*\d[0-9a-f]*`)
)

// errClass strips the input-dependent parts (offset, quoted values, numbers) from a parser error message.
func errClass(msg string) string {
	msg = reOffset.ReplaceAllString(msg, "")
	msg = reQuoted.ReplaceAllString(msg, "'?'")
	msg = reDigits.ReplaceAllString(msg, "N")
	if len(msg) > 60 {
		msg = msg[:60]
	}
	return msg
}

// dump prints a value with type names (for messages).
func dump(v any) string {
	var b strings.Builder
	dumpTo(&b, reflect.ValueOf(v), 0)
	s := b.String()
	if len(s) > 600 {
		s = s[:600] + "..."
	}
	return s
}

func dumpTo(b *strings.Builder, v reflect.Value, depth int) {
	if !v.IsValid() {
		b.WriteString("nil")
		return
	}
	switch v.Kind() {
	case reflect.Interface, reflect.Ptr:
		if v.IsNil() {
			b.WriteString("nil")
			return
		}
		dumpTo(b, v.Elem(), depth)
	case reflect.Struct:
		if v.Type() == timeType {
			b.WriteString(v.Interface().(time.Time).Format(time.RFC3339))
			return
		}
		b.WriteString(v.Type().Name())
		b.WriteByte('{')
		for i := 0; i < v.NumField(); i++ {
			if i > 0 {
				b.WriteByte(' ')
			}
			b.WriteString(v.Type().Field(i).Name)
			b.WriteByte(':')
			dumpTo(b, v.Field(i), depth+1)
		}
		b.WriteByte('}')
	case reflect.Slice:
		if v.Type().Elem().Kind() == reflect.Uint8 {
			x := v.Bytes()
			if len(x) > 40 {
				fmt.Fprintf(b, "%q...(%d bytes)", x[:40], len(x))
			} else {
				fmt.Fprintf(b, "%q", x)
			}
			return
		}
		b.WriteByte('[')
		for i := 0; i < v.Len(); i++ {
			if i > 0 {
				b.WriteByte(' ')
			}
			dumpTo(b, v.Index(i), depth+1)
		}
		b.WriteByte(']')
	case reflect.Map:
		keys := v.MapKeys()
		sort.Slice(keys, func(i, j int) bool { return keys[i].String() < keys[j].String() })
		b.WriteString("map[")
		for i, k := range keys {
			if i > 0 {
				b.WriteByte(' ')
			}
			fmt.Fprintf(b, "%q:", k.String())
			dumpTo(b, v.MapIndex(k), depth+1)
		}
		b.WriteByte(']')
	case reflect.String:
		fmt.Fprintf(b, "%q", v.String())
	default:
		fmt.Fprint(b, v.Interface())
	}
}

// shape is the type skeleton of an expected value: the key of a distinct non-trivial outcome.
func shape(v reflect.Value, b *strings.Builder) {
	if !v.IsValid() {
		return
	}
	switch v.Kind() {
	case reflect.Interface, reflect.Ptr:
		if v.IsNil() {
			b.WriteByte('-')
			return
		}
		shape(v.Elem(), b)
	case reflect.Struct:
		if v.Type() == timeType {
			b.WriteByte('t')
			return
		}
		b.WriteString(v.Type().Name())
		if v.NumField() == 0 {
			return
		}
		b.WriteByte('(')
		for i := 0; i < v.NumField(); i++ {
			shape(v.Field(i), b)
		}
		b.WriteByte(')')
	case reflect.Slice:
		if v.Type().Elem().Kind() == reflect.Uint8 {
			b.WriteByte('b')
			return
		}
		fmt.Fprintf(b, "[%d:", v.Len())
		for i := 0; i < v.Len(); i++ {
			k := v.Index(i).Kind()
			if k == reflect.Interface || k == reflect.Ptr || k == reflect.Struct {
				shape(v.Index(i), b)
			}
		}
		b.WriteByte(']')
	case reflect.Map:
		fmt.Fprintf(b, "m%d", v.Len())
	case reflect.Bool, reflect.Int:
		if v.Type().Name() != "int" && v.Type().Name() != "SeqNum" {
			fmt.Fprint(b, v.Interface(), ",")
		}
	}
}

// ---------------------------------------------------------------------------------------------------------------
// families (cached per worker process)

var famCache struct {
	name     string
	thorough bool
	cmds     []*Cmd
}

func family(name string, thorough bool) []*Cmd {
	if famCache.name == name && famCache.thorough == thorough && famCache.cmds != nil {
		return famCache.cmds
	}
	g := Generate(thorough, name, true)
	famCache.name, famCache.thorough, famCache.cmds = name, thorough, g.Out
	return g.Out
}

// ---------------------------------------------------------------------------------------------------------------
// the batch function

type failure struct {
	ci, ei int
	how    string // whole | sync | bytewise | split
	cut    int
	chunks string
	whole  bool
	r      *rendering
	out    outcome
}

type runner struct {
	dry  bool // count the evaluations only (used to size the tiers)
	br   *bufio.Reader
	pol  policy
	res  *enumt.Result
	outs map[string]bool
	seen map[string]bool
}

func c10Call(raw json.RawMessage) (any, error) {
	chunk, err := enumt.ParseChunk(raw)
	if err != nil {
		return nil, err
	}
	var common Common
	_ = json.Unmarshal(chunk.Common, &common)
	// Watchdog: a batch normally takes a few seconds. A parser that spins without reading would never return.
	done := make(chan struct{})
	defer close(done)
	var current Case
	go func() {
		select {
		case <-done:
		case <-time.After(20 * time.Minute):
			fmt.Fprintf(os.Stderr, "panic: watchdog: C10 batch still running after 20 minutes (case %s #%d): parser does not terminate\n", current.Fam, current.Idx)
			os.Exit(3)
		}
	}()
	rn := &runner{br: bufio.NewReader(nil), pol: policyFor(common.Thorough), res: &enumt.Result{Counters: map[string]int{}}, outs: map[string]bool{}, seen: map[string]bool{}}
	for _, rc := range chunk.Cases {
		var cs Case
		if err := json.Unmarshal(rc, &cs); err != nil {
			return nil, err
		}
		current = cs
		cmds := family(cs.Fam, common.Thorough)
		if cs.Idx < 0 || cs.Idx >= len(cmds) {
			return nil, fmt.Errorf("family %q has %d commands, case asks for #%d", cs.Fam, len(cmds), cs.Idx)
		}
		rn.runCmd(cs, cmds[cs.Idx])
	}
	for k := range rn.outs {
		rn.res.Outcomes = append(rn.res.Outcomes, k)
	}
	sort.Strings(rn.res.Outcomes)
	return rn.res, nil
}

func (rn *runner) eval(c *Cmd, r *rendering, data []byte, sync, byByte bool, cutA, cutB int) outcome {
	rd := &chunkReader{data: data, cmdEnd: len(r.wire), gates: r.gates, sync: sync, byByte: byByte, cutA: cutA, cutB: cutB}
	rn.res.Evaluations++
	if rn.dry {
		return outcome{}
	}
	return parseOnce(rn.br, rd, len(r.gates), c.Exp)
}

func (rn *runner) runCmd(cs Case, c *Cmd) {
	encs := encAssignments(c, rn.pol.maxEncProduct)
	rends := make([][]*rendering, nCases)
	datas := make([][][]byte, nCases)
	okWhole := make([][]bool, nCases)
	var fails []failure
	nr := 0
	for ci := 0; ci < nCases; ci++ {
		rends[ci] = make([]*rendering, len(encs))
		datas[ci] = make([][]byte, len(encs))
		okWhole[ci] = make([]bool, len(encs))
		for ei, e := range encs {
			r := render(c, ci, e)
			rends[ci][ei] = r
			datas[ci][ei] = append(append(make([]byte, 0, len(r.wire)+len(sentinel)), r.wire...), sentinel...)
			nr++
		}
	}
	rn.res.Counters["abstract_commands"]++
	rn.res.Counters["renderings"] += nr
	// pass 1: everything available at once (as in a single TCP segment; no synchronisation)
	for ci := 0; ci < nCases; ci++ {
		for ei := range encs {
			o := rn.eval(c, rends[ci][ei], datas[ci][ei], false, false, 0, 0)
			rn.res.Counters["evals_whole"]++
			okWhole[ci][ei] = o.ok()
			if !o.ok() {
				fails = append(fails, failure{ci: ci, ei: ei, how: "whole", chunks: "whole stream in one read", whole: true, r: rends[ci][ei], out: o})
			}
		}
	}
	// pass 2: chunkings
	nUni := nUniform
	if len(encs) < nUni {
		nUni = len(encs)
	}
	for ci := 0; ci < nCases; ci++ {
		for ei := range encs {
			r, data := rends[ci][ei], datas[ci][ei]
			L := len(r.wire)
			rec := func(how string, cut int, desc string, o outcome) {
				if !o.ok() {
					fails = append(fails, failure{ci: ci, ei: ei, how: how, cut: cut, chunks: desc, r: r, out: o})
				}
			}
			rec("sync", 0, "synchronising client, one write per line/literal", rn.eval(c, r, data, true, false, 0, 0))
			rec("bytewise", 0, "synchronising client, 1 byte per read", rn.eval(c, r, data, true, true, 0, 0))
			rn.res.Counters["evals_sync"]++
			rn.res.Counters["evals_bytewise"]++
			split2 := nr*L <= rn.pol.split2All || (ci == caseUpper && ei < nUni) || (ci == caseAltLower && ei == 0)
			if split2 {
				for _, i := range splitPositions(L, rn.pol.longWire) {
					rec("split", i, fmt.Sprintf("2-way split after byte %d", i), rn.eval(c, r, data, true, false, i, 0))
					rn.res.Counters["evals_split2"]++
				}
			}
			if rn.pol.split3Len > 0 && L <= rn.pol.split3Len && (ci == caseUpper || ci == caseAltLower) && ei < nUni {
				for i := 1; i < L; i++ {
					for j := i + 1; j < L; j++ {
						rec("split", i, fmt.Sprintf("3-way split after bytes %d and %d", i, j), rn.eval(c, r, data, true, false, i, j))
						rn.res.Counters["evals_split3"]++
					}
				}
			}
		}
	}
	// outcome key
	if okWhole[0][0] {
		var b strings.Builder
		b.WriteString(c.Verb)
		b.WriteByte(' ')
		shape(reflect.ValueOf(c.Exp.Payload), &b)
		rn.outs[b.String()] = true
	}
	if len(rn.res.Samples) == 0 {
		rn.res.Samples = append(rn.res.Samples, map[string]any{"fam": cs.Fam, "idx": cs.Idx, "wire": string(rends[0][0].wire), "expected": dump(c.Exp), "renderings": nr})
	}
	// classify failures: one violation per witness class
	encIndex := map[string]int{}
	for i, e := range encs {
		encIndex[encKey(e)] = i
	}
	for _, f := range fails {
		clause, sig := classify(cs, c, f, okWhole, encs[0], encIndex)
		key := clause + "/" + sig
		rn.res.Counters["failed_evaluations"]++
		if rn.seen[key] {
			continue
		}
		rn.seen[key] = true
		in := cs
		in.Wire = string(f.r.wire)
		in.Case = caseNames[f.ci]
		for _, e := range f.r.enc {
			in.Enc = append(in.Enc, encNames[e])
		}
		in.Chunks = f.chunks
		what := f.out.kind + ": " + f.out.detail
		if f.out.kind == "mismatch" {
			what = "parsed as " + dump(f.out.got) + " (differs at " + f.out.detail + ")"
		}
		msg := fmt.Sprintf("%s (family %s #%d, keywords %s, %s): %s; expected %s", strconv.Quote(string(f.r.wire)), cs.Fam, cs.Idx, caseNames[f.ci], f.chunks, what, dump(c.Exp))
		if len(msg) > 1500 {
			msg = msg[:1500] + "..."
		}
		rn.res.Viol = append(rn.res.Viol, enumt.Viol{Clause: clause, Sig: sig, Msg: msg, Input: in})
	}
}

// splitPositions: every position 1..L-1; for long wires (a big literal) the first and last 64 positions and the
// positions around multiples of bufio's default buffer size.
func splitPositions(L, long int) []int {
	var out []int
	if L <= long {
		for i := 1; i < L; i++ {
			out = append(out, i)
		}
		return out
	}
	for i := 1; i < L; i++ {
		near4096 := i%4096 <= 2 || i%4096 >= 4094
		if i <= 64 || i >= L-64 || near4096 {
			out = append(out, i)
		}
	}
	return out
}

// classify maps a failed evaluation to its witness class (clause, sig): one per root cause.
var slotNames = map[sk]string{skAString: "astring", skListMailbox: "list-mailbox", skString: "string", skAtom: "atom", skTag: "tag"}

func encKey(a []int) string {
	k := make([]byte, len(a))
	for i, e := range a {
		k[i] = byte('0' + e)
	}
	return string(k)
}

func classify(cs Case, c *Cmd, f failure, okWhole [][]bool, enc0 []int, encIndex map[string]int) (string, string) {
	switch f.out.kind {
	case "hang":
		return "hang", c.Verb
	case "panic":
		return "panic", c.Verb
	}
	// Known grammar deviations are recognised by the feature of the input that triggers them.
	if f.r.bracketAtom && f.out.kind == "error" {
		return "atom-char", "["
	}
	if f.r.zeroLiteral && f.out.kind == "error" {
		return "literal", "zero-length"
	}
	if f.r.listLiteral && (f.out.kind == "mismatch" || f.out.kind == "continuation-count" || f.out.kind == "error") {
		return "list-mailbox", "literal"
	}
	if _, isDone := c.Exp.Payload.(*command.Done); !isDone && strings.EqualFold(c.Exp.Tag, "done") {
		return "tag", "done"
	}
	switch f.out.kind {
	case "sync":
		return "sync", f.out.detail
	case "continuation-count":
		return "sync", "continuation-count"
	}
	// differential attribution: which dimension makes the difference?
	switch {
	case !f.whole && okWhole[f.ci][f.ei]:
		// the witness class of a chunking failure is where the stream was cut, not the command
		switch f.how {
		case "split":
			return "chunking", f.r.cutKind(f.cut)
		case "bytewise":
			if len(f.r.gates) > 0 {
				return "chunking", "bytewise+literal"
			}
			return "chunking", "bytewise"
		}
		return "chunking", "synchronising"
	case f.ci != caseUpper && okWhole[caseUpper][f.ei]:
		return "keyword-case", c.Verb
	case f.ei != 0 && okWhole[caseUpper][0]:
		// which single argument, moved from the base encoding to the failing one, breaks the parse?
		var slots []sk
		for _, p := range c.Pieces {
			if p.k == pkStr {
				slots = append(slots, p.slot)
			}
		}
		for i, e := range f.r.enc {
			if e == enc0[i] {
				continue
			}
			single := append([]int{}, enc0...)
			single[i] = e
			if j, ok := encIndex[encKey(single)]; ok && !okWhole[caseUpper][j] {
				return "encoding", slotNames[slots[i]] + "-as-" + encNames[e]
			}
		}
		return "encoding", c.Verb + "/combination"
	}
	switch f.out.kind {
	case "mismatch":
		return "mismatch", f.out.detail // where the parsed value differs: "<Struct>.<Field>"
	case "error":
		return "error", errClass(f.out.detail)
	}
	return f.out.kind, c.Verb
}
