// Package parse10 holds the C10 scenario: a generator that derives, from the RFC 3501 / 2971 / 4315 / 6851 /
// 2177 / 3691 grammar subset gluon supports, an abstract command as a pair (expected command.Command value,
// wire pieces), renders the pieces under every keyword case / string encoding / chunking of the byte stream and
// feeds them to the real imap/command.Parser.
//
// The generator mirrors the RFC grammar, NOT the parser: which characters may appear in an atom, which strings
// may be quoted, where a literal is allowed, is decided here from the ABNF alone.
package parse10

import (
	"strings"

	"github.com/ProtonMail/gluon/imap/command"
)

// ---------------------------------------------------------------------------------------------------------------
// pieces

type pk uint8

const (
	pkKw  pk = iota // case-insensitive keyword: rendered in the chosen letter case
	pkRaw           // fixed text (punctuation, numbers, SP, CRLF)
	pkStr           // string argument: rendered in the chosen encoding (atom / quoted / literal)
	pkLit           // mandatory literal (APPEND message)
)

// slot kinds: which grammar production the string argument stands for (decides the legal encodings).
type sk uint8

const (
	skAString     sk = iota // astring = 1*ASTRING-CHAR / string
	skListMailbox           // list-mailbox = 1*list-char / string
	skString                // string = quoted / literal (ID keys and values)
	skAtom                  // atom = 1*ATOM-CHAR (flag keywords, flag extensions, SEARCH KEYWORD)
	skTag                   // tag = 1*<any ASTRING-CHAR except "+">
)

type piece struct {
	k    pk
	s    string
	slot sk
}

func kw(s string) []piece           { return []piece{{k: pkKw, s: s}} }
func raw(s string) []piece          { return []piece{{k: pkRaw, s: s}} }
func str(slot sk, v string) []piece { return []piece{{k: pkStr, s: v, slot: slot}} }
func lit(v string) []piece          { return []piece{{k: pkLit, s: v}} }

var sp = raw(" ")

func cat(parts ...[]piece) []piece {
	n := 0
	for _, p := range parts {
		n += len(p)
	}
	out := make([]piece, 0, n)
	for _, p := range parts {
		out = append(out, p...)
	}
	return out
}

// frag is a grammar fragment: its wire pieces together with the value it denotes.
type frag struct {
	ps []piece
	v  any
}

// Cmd is one abstract command.
type Cmd struct {
	Exp    command.Command
	Pieces []piece // complete line(s) including the final CRLF
	Verb   string  // "fetch", "uid fetch", ...
}

// ---------------------------------------------------------------------------------------------------------------
// character classes (RFC 3501 section 9)

// atom-specials = "(" / ")" / "{" / SP / CTL / list-wildcards / quoted-specials / resp-specials
const atomSpecials = "(){ %*\"\\]"

// AtomChars returns every printable ATOM-CHAR (0x21..0x7e minus atom-specials). '[' is an ATOM-CHAR.
func AtomChars() []byte {
	var out []byte
	for c := byte(0x21); c <= 0x7e; c++ {
		if strings.IndexByte(atomSpecials, c) < 0 {
			out = append(out, c)
		}
	}
	return out
}

func isAtomChar(c byte) bool {
	return c >= 0x21 && c <= 0x7e && strings.IndexByte(atomSpecials, c) < 0
}

// encodings
const (
	encAtom = iota
	encQuoted
	encLiteral
)

var encNames = []string{"atom", "quoted", "literal"}

func atomLegal(slot sk, v string) bool {
	if v == "" || slot == skString {
		return false
	}
	for i := 0; i < len(v); i++ {
		c := v[i]
		ok := isAtomChar(c)
		switch slot {
		case skAString:
			ok = ok || c == ']' // ASTRING-CHAR = ATOM-CHAR / resp-specials
		case skListMailbox:
			ok = ok || c == ']' || c == '%' || c == '*' // list-char
		case skTag:
			ok = (ok || c == ']') && c != '+'
		}
		if !ok {
			return false
		}
	}
	return true
}

// quoted = DQUOTE *QUOTED-CHAR DQUOTE ; TEXT-CHAR = any 7-bit CHAR except CR and LF (NUL is not a CHAR)
func quotedLegal(v string) bool {
	for i := 0; i < len(v); i++ {
		c := v[i]
		if c == 0 || c >= 0x80 || c == '\r' || c == '\n' {
			return false
		}
	}
	return true
}

// literal = "{" number "}" CRLF *CHAR8 ; CHAR8 = %x01-ff
func literalLegal(v string) bool { return strings.IndexByte(v, 0) < 0 }

// legalEncs lists the encodings the grammar allows for a string piece.
func legalEncs(p piece) []int {
	var out []int
	if atomLegal(p.slot, p.s) {
		out = append(out, encAtom)
	}
	if p.slot == skAtom || p.slot == skTag {
		return out
	}
	if quotedLegal(p.s) {
		out = append(out, encQuoted)
	}
	if literalLegal(p.s) {
		out = append(out, encLiteral)
	}
	return out
}

// ---------------------------------------------------------------------------------------------------------------
// generator plumbing

// Gen collects abstract commands, grouped in families. With Want set only that family is generated and kept.
type Gen struct {
	Thorough bool
	Want     string
	Retain   bool
	Order    []string
	Count    map[string]int
	Out      []*Cmd
	cur      string
}

func (g *Gen) begin(name string) bool {
	g.cur = name
	if _, ok := g.Count[name]; !ok {
		g.Count[name] = 0
		g.Order = append(g.Order, name)
	}
	return g.Want == "" || g.Want == name
}

func (g *Gen) emit(c *Cmd) {
	g.Count[g.cur]++
	if g.Retain {
		g.Out = append(g.Out, c)
	}
}

// cmd assembles "<tag> SP <body> CRLF".
func (g *Gen) cmd(verb, tag string, payload command.Payload, body []piece) {
	g.emit(&Cmd{Exp: command.Command{Tag: tag, Payload: payload}, Verb: verb, Pieces: cat(str(skTag, tag), sp, body, raw("\r\n"))})
}

const baseTag = "A001"

func (g *Gen) c(verb string, payload command.Payload, body []piece) {
	g.cmd(verb, baseTag, payload, body)
}

// Generate runs all generator groups.
func Generate(thorough bool, want string, retain bool) *Gen {
	g := &Gen{Thorough: thorough, Want: want, Retain: retain, Count: map[string]int{}}
	genSimple(g)
	genMailbox(g)
	genSeqCommands(g)
	genStatus(g)
	genStore(g)
	genFetch(g)
	genSearch(g)
	genAppend(g)
	genID(g)
	return g
}

// mbx is the mailbox value a mailbox argument denotes: "INBOX" is case-insensitive (RFC 3501 5.1).
func mbx(v string) string {
	if strings.EqualFold(v, "INBOX") {
		return "INBOX"
	}
	return v
}
