package parse10

import (
	"fmt"
	"time"

	"github.com/ProtonMail/gluon/imap/command"
)

var months = []string{"Jan", "Feb", "Mar", "Apr", "May", "Jun", "Jul", "Aug", "Sep", "Oct", "Nov", "Dec"}

func lastDay(y int, m int) int { return time.Date(y, time.Month(m)+1, 0, 0, 0, 0, 0, time.UTC).Day() }

// date = date-text / DQUOTE date-text DQUOTE ; date-text = date-day "-" date-month "-" date-year ; date-day = 1*2DIGIT
func dateFrag(dayText string, day, month, year int, quoted bool) frag {
	ps := cat(raw(dayText+"-"), kw(months[month-1]), raw(fmt.Sprintf("-%04d", year)))
	if quoted {
		ps = cat(raw(`"`), ps, raw(`"`))
	}
	return frag{ps: ps, v: time.Date(year, time.Month(month), day, 0, 0, 0, 0, time.UTC)}
}

func dateGrid(full bool) []frag {
	var out []frag
	years := []int{1970, 2000, 2024, 9999}
	if !full {
		years = []int{2024}
	}
	for _, y := range years {
		for m := 1; m <= 12; m++ {
			days := []struct {
				t string
				d int
			}{{"1", 1}, {"01", 1}, {"9", 9}, {"15", 15}, {fmt.Sprint(lastDay(y, m)), lastDay(y, m)}}
			if !full {
				days = days[m%len(days) : m%len(days)+1]
			}
			for _, d := range days {
				for _, q := range []bool{false, true} {
					out = append(out, dateFrag(d.t, d.d, m, y, q))
				}
			}
		}
	}
	return out
}

var baseDate = dateFrag("1", 1, 2, 2024, false)

// ---------------------------------------------------------------------------------------------------------------
// search keys

var noArgKeys = []struct {
	name string
	v    command.SearchKey
}{
	{"ALL", &command.SearchKeyAll{}}, {"ANSWERED", &command.SearchKeyAnswered{}}, {"DELETED", &command.SearchKeyDeleted{}},
	{"FLAGGED", &command.SearchKeyFlagged{}}, {"NEW", &command.SearchKeyNew{}}, {"OLD", &command.SearchKeyOld{}},
	{"RECENT", &command.SearchKeyRecent{}}, {"SEEN", &command.SearchKeySeen{}}, {"UNANSWERED", &command.SearchKeyUnanswered{}},
	{"UNDELETED", &command.SearchKeyUndeleted{}}, {"UNFLAGGED", &command.SearchKeyUnflagged{}}, {"UNSEEN", &command.SearchKeyUnseen{}},
	{"DRAFT", &command.SearchKeyDraft{}}, {"UNDRAFT", &command.SearchKeyUndraft{}},
}

var astringKeys = []string{"BCC", "BODY", "CC", "FROM", "SUBJECT", "TEXT", "TO"}

func astringKey(name, v string) frag {
	ps := cat(kw(name), sp, str(skAString, v))
	switch name {
	case "BCC":
		return frag{ps: ps, v: &command.SearchKeyBCC{Value: v}}
	case "BODY":
		return frag{ps: ps, v: &command.SearchKeyBody{Value: v}}
	case "CC":
		return frag{ps: ps, v: &command.SearchKeyCC{Value: v}}
	case "FROM":
		return frag{ps: ps, v: &command.SearchKeyFrom{Value: v}}
	case "SUBJECT":
		return frag{ps: ps, v: &command.SearchKeySubject{Value: v}}
	case "TEXT":
		return frag{ps: ps, v: &command.SearchKeyText{Value: v}}
	case "TO":
		return frag{ps: ps, v: &command.SearchKeyTo{Value: v}}
	}
	panic(name)
}

var dateKeys = []string{"BEFORE", "ON", "SINCE", "SENTBEFORE", "SENTON", "SENTSINCE"}

func dateKey(name string, d frag) frag {
	ps := cat(kw(name), sp, d.ps)
	t := d.v.(time.Time)
	switch name {
	case "BEFORE":
		return frag{ps: ps, v: &command.SearchKeyBefore{Value: t}}
	case "ON":
		return frag{ps: ps, v: &command.SearchKeyOn{Value: t}}
	case "SINCE":
		return frag{ps: ps, v: &command.SearchKeySince{Value: t}}
	case "SENTBEFORE":
		return frag{ps: ps, v: &command.SearchKeySentBefore{Value: t}}
	case "SENTON":
		return frag{ps: ps, v: &command.SearchKeySentOn{Value: t}}
	case "SENTSINCE":
		return frag{ps: ps, v: &command.SearchKeySentSince{Value: t}}
	}
	panic(name)
}

func keywordKey(un bool, atom string) frag {
	if un {
		return frag{ps: cat(kw("UNKEYWORD"), sp, str(skAtom, atom)), v: &command.SearchKeyUnkeyword{Value: atom}}
	}
	return frag{ps: cat(kw("KEYWORD"), sp, str(skAtom, atom)), v: &command.SearchKeyKeyword{Value: atom}}
}

func headerKey(field, value string) frag {
	return frag{ps: cat(kw("HEADER"), sp, str(skAString, field), sp, str(skAString, value)), v: &command.SearchKeyHeader{Field: field, Value: value}}
}

// number = 1*DIGIT (leading zeros are legal)
var numberDom = []struct {
	t string
	v int
}{{"0", 0}, {"1", 1}, {"007", 7}, {"1024", 1024}, {"4294967295", 4294967295}}

func sizeKey(smaller bool, i int) frag {
	if smaller {
		return frag{ps: cat(kw("SMALLER"), sp, raw(numberDom[i].t)), v: &command.SearchKeySmaller{Value: numberDom[i].v}}
	}
	return frag{ps: cat(kw("LARGER"), sp, raw(numberDom[i].t)), v: &command.SearchKeyLarger{Value: numberDom[i].v}}
}

func uidKey(ss frag) frag {
	return frag{ps: cat(kw("UID"), sp, ss.ps), v: &command.SearchKeyUID{SeqSet: sr(ss)}}
}

func seqKey(ss frag) frag { return frag{ps: ss.ps, v: &command.SearchKeySeqSet{SeqSet: sr(ss)}} }

func notKey(k frag) frag {
	return frag{ps: cat(kw("NOT"), sp, k.ps), v: &command.SearchKeyNot{Key: k.v.(command.SearchKey)}}
}

func orKey(a, b frag) frag {
	return frag{ps: cat(kw("OR"), sp, a.ps, sp, b.ps), v: &command.SearchKeyOr{Key1: a.v.(command.SearchKey), Key2: b.v.(command.SearchKey)}}
}

func listKey(ks ...frag) frag {
	ps := raw("(")
	var v []command.SearchKey
	for i, k := range ks {
		if i > 0 {
			ps = cat(ps, sp)
		}
		ps = cat(ps, k.ps)
		v = append(v, k.v.(command.SearchKey))
	}
	return frag{ps: cat(ps, raw(")")), v: &command.SearchKeyList{Keys: v}}
}

var seq24 = frag{ps: raw("2:4294967295,*"), v: []command.SeqRange{{Begin: 2, End: 4294967295}, {Begin: 0, End: 0}}}

// leafKeys: every search key without sub-keys (34 of the 38 productions; NOT / OR / "(" ... ")" are the rest,
// sequence-set and UID count as leaves), each with a base argument.
func leafKeys() []frag {
	var out []frag
	for _, k := range noArgKeys {
		out = append(out, frag{ps: kw(k.name), v: k.v})
	}
	for _, k := range astringKeys {
		out = append(out, astringKey(k, "xy")) // atom, quoted and literal all legal
	}
	for _, k := range dateKeys {
		out = append(out, dateKey(k, baseDate))
	}
	out = append(out, keywordKey(false, "$Fwd"), keywordKey(true, "kw"), headerKey("X-Tag", "v w"), sizeKey(false, 3), sizeKey(true, 1),
		uidKey(seq24), seqKey(seq24))
	return out
}

// repLeaves: one leaf per argument class.
func repLeaves() []frag {
	return []frag{
		{ps: kw("ALL"), v: command.SearchKey(&command.SearchKeyAll{})},
		astringKey("FROM", "xy"),
		dateKey("SINCE", dateFrag("01", 1, 2, 2024, true)),
		keywordKey(false, "$Fwd"),
		headerKey("X-Tag", "v w"),
		sizeKey(false, 3),
		uidKey(seq24),
		seqKey(baseSeq),
	}
}

// depth2: every key of depth exactly 2 over the given leaves: NOT l, OR l l, (l), (l l).
func depth2(leaves []frag, emit func(op string, k frag)) {
	for _, a := range leaves {
		emit("not", notKey(a))
		emit("list", listKey(a))
	}
	for _, a := range leaves {
		for _, b := range leaves {
			emit("or", orKey(a, b))
			emit("list", listKey(a, b))
		}
	}
}

func genSearch(g *Gen) {
	search := func(uid bool, charset *string, keys ...frag) {
		ps := kw("SEARCH")
		s := &command.Search{}
		if charset != nil {
			ps = cat(ps, sp, kw("CHARSET"), sp, str(skAString, *charset))
			s.Charset = *charset
		}
		for _, k := range keys {
			ps = cat(ps, sp, k.ps)
			s.Keys = append(s.Keys, k.v.(command.SearchKey))
		}
		verb, p, body := uidWrap(uid, "search", s, ps)
		g.c(verb, p, body)
	}
	leaves := leafKeys()
	reps := repLeaves()
	utf8 := "UTF-8"

	if g.begin("search/leaves") {
		for _, uid := range []bool{false, true} {
			for _, l := range leaves {
				search(uid, nil, l)
				search(uid, &utf8, l)
			}
		}
	}
	if g.begin("search/charset") {
		// the first key after SEARCH / after CHARSET, for every key production and every charset form
		var firsts []frag
		firsts = append(firsts, leaves...)
		firsts = append(firsts, notKey(leaves[0]), orKey(leaves[0], leaves[16]), listKey(leaves[16]), notKey(astringKey("CC", "xy")), orKey(astringKey("CC", "xy"), astringKey("CC", "z")))
		for _, cs := range []string{"UTF-8", "US-ASCII", "utf-8", "x", "CC", "c", "CHARSET", "iso 8859", "", "a]b"} {
			cs := cs
			for _, f := range firsts {
				search(false, &cs, f)
			}
		}
		for _, cs := range fullStrings(astringChars()) {
			cs := cs
			search(false, &cs, leaves[0])
		}
	}
	if g.begin("search/astring-args") {
		for _, k := range astringKeys {
			dom := smallStrings
			if k == "SUBJECT" || g.Thorough {
				dom = fullStrings(astringChars())
			}
			for _, v := range dom {
				search(false, nil, astringKey(k, v))
			}
		}
		for _, a := range smallStrings {
			for _, b := range smallStrings {
				search(false, nil, headerKey(a, b))
			}
		}
		for _, v := range fullStrings(astringChars()) {
			search(false, nil, headerKey(v, "x"))
			search(false, nil, headerKey("X-H", v))
		}
	}
	if g.begin("search/atom-args") {
		dom := append(sweep(AtomChars()), "kw", "$Fwd", "NIL", "12", "KEYWORD", "a.b")
		for _, v := range dom {
			search(false, nil, keywordKey(false, v))
			search(false, nil, keywordKey(true, v))
		}
	}
	if g.begin("search/dates") {
		for _, k := range dateKeys {
			for _, d := range dateGrid(k == "SINCE" || g.Thorough) {
				search(false, nil, dateKey(k, d))
			}
		}
	}
	if g.begin("search/numbers-and-sets") {
		for i := range numberDom {
			search(false, nil, sizeKey(false, i))
			search(false, nil, sizeKey(true, i))
		}
		n := 2
		if g.Thorough {
			n = 3
		}
		for _, ss := range seqSets(3) {
			search(false, nil, seqKey(ss))
		}
		for _, ss := range seqSets(n) {
			search(false, nil, uidKey(ss))
			search(true, nil, seqKey(ss))
		}
		for _, ss := range seqSets(1) {
			// a sequence set in every position where the key is recognised by its first character
			search(false, nil, notKey(seqKey(ss)))
			search(false, nil, orKey(seqKey(ss), seqKey(ss)))
			search(false, nil, listKey(seqKey(ss), uidKey(ss)))
			search(false, &utf8, seqKey(ss))
		}
	}
	// depth 2 over ALL keys, split by operator and first leaf to keep families small
	for _, uid := range []bool{false, true} {
		prefix := "search/depth2-"
		if uid {
			prefix = "search/uid-depth2-"
		}
		for _, op := range []string{"not", "or", "list"} {
			if g.begin(prefix + op) {
				depth2(leaves, func(o string, k frag) {
					if o == op {
						search(uid, nil, k)
					}
				})
			}
		}
	}
	if g.begin("search/sequences") {
		// 1*(SP search-key): all pairs of leaves, all triples over the class representatives,
		// a class representative followed by every depth-2 key over the representatives
		for _, a := range leaves {
			for _, b := range leaves {
				search(false, nil, a, b)
			}
		}
		for _, a := range reps {
			for _, b := range reps {
				for _, c := range reps {
					search(false, nil, a, b, c)
					search(false, nil, listKey(a, b, c))
				}
			}
		}
		depth2(reps, func(_ string, k frag) {
			for _, a := range reps {
				search(false, nil, a, k)
				search(false, nil, k, a)
			}
		})
	}
	if g.Thorough {
		// depth 3 over one representative per argument class
		var d2 []frag
		d2 = append(d2, reps...)
		depth2(reps, func(_ string, k frag) { d2 = append(d2, k) })
		if g.begin("search/depth3-not-list1") {
			for _, a := range d2[len(reps):] {
				search(false, nil, notKey(a))
				search(false, nil, listKey(a))
				search(true, nil, notKey(a))
			}
		}
		for i, a := range d2 {
			name := fmt.Sprintf("search/depth3-pair-%03d", i)
			if g.begin(name) {
				for j, b := range d2 {
					if i < len(reps) && j < len(reps) {
						continue // depth 2, already covered
					}
					search(false, nil, orKey(a, b))
					search(false, nil, listKey(a, b))
				}
			}
		}
	} else if g.begin("search/depth3-sample") {
		// quick tier: depth 3 along a single spine per operator combination over the representatives
		for _, a := range reps {
			for _, b := range reps {
				search(false, nil, notKey(notKey(notKey(a))))
				search(false, nil, notKey(orKey(a, listKey(b))))
				search(false, nil, orKey(notKey(a), orKey(b, a)))
				search(false, nil, orKey(orKey(a, b), listKey(a, b)))
				search(false, nil, listKey(listKey(a), orKey(b, a), notKey(b)))
				search(true, nil, orKey(listKey(a, notKey(b)), astringKey("TEXT", "t")))
			}
		}
	}
}
