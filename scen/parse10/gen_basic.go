package parse10

import (
	"strconv"
	"strings"

	"github.com/ProtonMail/gluon/imap/command"
)

// ---------------------------------------------------------------------------------------------------------------
// string domains

// sweep gives, for every character of the set, the strings "c" and "acb" (first / inner position).
func sweep(chars []byte) []string {
	var out []string
	for _, c := range chars {
		out = append(out, string([]byte{c}), "a"+string([]byte{c})+"b")
	}
	return out
}

func astringChars() []byte { return append(AtomChars(), ']') }

func listChars() []byte { return append(AtomChars(), ']', '%', '*') }

func tagChars() []byte {
	var out []byte
	for _, c := range astringChars() {
		if c != '+' {
			out = append(out, c)
		}
	}
	return out
}

// smallStrings: one representative per string class (plain atom, needs quoting, empty, quoted-specials,
// resp-special, 8-bit + CRLF (literal only), looks like a literal header, looks like a keyword, digits).
var smallStrings = []string{"mbox", "Sent Items", "", `q"u\o`, "a]b", "caf\xc3\xa9\r\nx", "{3}", "NIL", "12"}

// moreStrings extends smallStrings for the full sweep of a single slot.
var moreStrings = []string{"a", "a/b.c", "&AOk-", "~#x", "(a)", "a%b", "a*", "a\tb", "\x7f", "\x01", "x y z", "INBOX.sub",
	`\`, `"`, `""`, `\\`, "+", "a+b", "[Gmail]/Trash", "\r\n", "\xff\xfe", ")", "(", " ", "a ", " a"}

func fullStrings(chars []byte) []string {
	out := append([]string{}, smallStrings...)
	out = append(out, moreStrings...)
	return append(out, sweep(chars)...)
}

var inboxForms = []string{"INBOX", "inbox", "InBoX"}

func smallMailboxes() []string { return append(append([]string{}, smallStrings...), inboxForms...) }

func fullMailboxes() []string { return append(fullStrings(astringChars()), inboxForms...) }

// ---------------------------------------------------------------------------------------------------------------
// commands without arguments, tags

var noArg = []struct {
	name string
	p    command.Payload
}{
	{"CAPABILITY", &command.Capability{}}, {"NOOP", &command.Noop{}}, {"LOGOUT", &command.Logout{}},
	{"CHECK", &command.Check{}}, {"CLOSE", &command.Close{}}, {"EXPUNGE", &command.Expunge{}},
	{"UNSELECT", &command.Unselect{}}, {"STARTTLS", &command.StartTLS{}}, {"IDLE", &command.Idle{}},
}

func genSimple(g *Gen) {
	if g.begin("simple/no-arg") {
		for _, c := range noArg {
			g.c(strings.ToLower(c.name), c.p, kw(c.name))
		}
		// DONE (RFC 2177) has no tag.
		g.emit(&Cmd{Exp: command.Command{Tag: "", Payload: &command.Done{}}, Verb: "done", Pieces: cat(kw("DONE"), raw("\r\n"))})
	}
	if g.begin("simple/tags") {
		// a tag spelled "done" is a legal tag (tag = 1*<any ASTRING-CHAR except "+">)
		tags := []string{"a", "1", "a.b", "A-1", "NOOP", "NIL", "x]", "done", "DONE", "dOnE", "doner", "undone"}
		tags = append(tags, sweep(tagChars())...)
		for _, t := range tags {
			g.cmd("noop", t, &command.Noop{}, kw("NOOP"))
		}
		for _, t := range []string{"a", "9", "x]", "t[1]", "#~"} {
			g.cmd("select", t, &command.Select{Mailbox: "mbox"}, cat(kw("SELECT"), sp, str(skAString, "mbox")))
			g.cmd("fetch", t, &command.Fetch{SeqSet: []command.SeqRange{{Begin: 1, End: 1}}, Attributes: []command.FetchAttribute{&command.FetchAttributeFlags{}}},
				cat(kw("FETCH"), sp, raw("1"), sp, kw("FLAGS")))
		}
	}
}

// ---------------------------------------------------------------------------------------------------------------
// mailbox commands

func mboxPayload(verb, m string) command.Payload {
	switch verb {
	case "SELECT":
		return &command.Select{Mailbox: m}
	case "EXAMINE":
		return &command.Examine{Mailbox: m}
	case "CREATE":
		return &command.Create{Mailbox: m}
	case "DELETE":
		return &command.Delete{Mailbox: m}
	case "SUBSCRIBE":
		return &command.Subscribe{Mailbox: m}
	case "UNSUBSCRIBE":
		return &command.Unsubscribe{Mailbox: m}
	}
	panic(verb)
}

var mboxVerbs = []string{"SELECT", "EXAMINE", "CREATE", "DELETE", "SUBSCRIBE", "UNSUBSCRIBE"}

func genMailbox(g *Gen) {
	for _, verb := range mboxVerbs {
		if g.begin("mailbox/" + strings.ToLower(verb)) {
			for _, m := range fullMailboxes() {
				g.c(strings.ToLower(verb), mboxPayload(verb, mbx(m)), cat(kw(verb), sp, str(skAString, m)))
			}
		}
	}
	rename := func(a, b string) {
		g.c("rename", &command.Rename{From: mbx(a), To: mbx(b)}, cat(kw("RENAME"), sp, str(skAString, a), sp, str(skAString, b)))
	}
	login := func(a, b string) {
		g.c("login", &command.Login{UserID: a, Password: b}, cat(kw("LOGIN"), sp, str(skAString, a), sp, str(skAString, b)))
	}
	list := func(a, b string) {
		g.c("list", &command.List{Mailbox: mbx(a), ListMailbox: b}, cat(kw("LIST"), sp, str(skAString, a), sp, str(skListMailbox, b)))
	}
	lsub := func(a, b string) {
		g.c("lsub", &command.LSub{Mailbox: mbx(a), LSubMailbox: b}, cat(kw("LSUB"), sp, str(skAString, a), sp, str(skListMailbox, b)))
	}
	patterns := []string{"*", "%", "", "INBOX", "inbox", "a/%", "*]", "Sent Items/%", "%/*%", "caf\xc3\xa9*", `q"%`, "{1}"}
	if g.begin("mailbox/pairs") {
		for _, a := range smallMailboxes() {
			for _, b := range smallMailboxes() {
				rename(a, b)
			}
		}
		for _, a := range smallStrings {
			for _, b := range smallStrings {
				login(a, b)
			}
		}
		for _, a := range smallMailboxes() {
			for _, b := range patterns {
				list(a, b)
				lsub(a, b)
			}
		}
	}
	if g.begin("mailbox/pair-sweep") {
		for _, v := range fullStrings(astringChars()) {
			rename("mbox", v)
			rename(v, "mbox")
			login(v, "pass")
			login("user", v)
			list(v, "*")
		}
		for _, v := range fullStrings(listChars()) {
			list("", v)
			lsub("", v)
		}
	}
}

// ---------------------------------------------------------------------------------------------------------------
// sequence sets

var seqNums = []string{"1", "2", "4294967295", "*"}

func seqNum(s string) command.SeqNum {
	if s == "*" {
		return command.SeqNumValueAsterisk
	}
	n, err := strconv.ParseUint(s, 10, 32)
	if err != nil {
		panic(err)
	}
	return command.SeqNum(n)
}

// seqElems: every seq-number and every seq-range over seqNums (20 forms).
func seqElems() []frag {
	var out []frag
	for _, a := range seqNums {
		out = append(out, frag{ps: raw(a), v: command.SeqRange{Begin: seqNum(a), End: seqNum(a)}})
	}
	for _, a := range seqNums {
		for _, b := range seqNums {
			out = append(out, frag{ps: raw(a + ":" + b), v: command.SeqRange{Begin: seqNum(a), End: seqNum(b)}})
		}
	}
	return out
}

// seqSets: every sequence-set of 1..max elements; value []command.SeqRange, pieces one raw text.
func seqSets(max int) []frag {
	el := seqElems()
	var out []frag
	var rec func(prefix string, v []command.SeqRange, depth int)
	rec = func(prefix string, v []command.SeqRange, depth int) {
		for _, e := range el {
			t := e.ps[0].s
			if prefix != "" {
				t = prefix + "," + t
			}
			nv := append(append([]command.SeqRange{}, v...), e.v.(command.SeqRange))
			out = append(out, frag{ps: raw(t), v: nv})
		}
		if depth+1 < max {
			for _, e := range el {
				t := e.ps[0].s
				if prefix != "" {
					t = prefix + "," + t
				}
				rec(t, append(append([]command.SeqRange{}, v...), e.v.(command.SeqRange)), depth+1)
			}
		}
	}
	rec("", nil, 0)
	return out
}

var baseSeq = frag{ps: raw("1:*"), v: []command.SeqRange{{Begin: 1, End: command.SeqNumValueAsterisk}}}

func sr(f frag) []command.SeqRange { return f.v.([]command.SeqRange) }

func uidWrap(uid bool, verb string, p command.Payload, body []piece) (string, command.Payload, []piece) {
	if !uid {
		return verb, p, body
	}
	return "uid " + verb, &command.UID{Command: p}, cat(kw("UID"), sp, body)
}

func genSeqCommands(g *Gen) {
	copyMove := func(uid bool, verb string, ss frag, m string) {
		var p command.Payload
		if verb == "COPY" {
			p = &command.Copy{SeqSet: sr(ss), Mailbox: mbx(m)}
		} else {
			p = &command.Move{SeqSet: sr(ss), Mailbox: mbx(m)}
		}
		v, p, body := uidWrap(uid, strings.ToLower(verb), p, cat(kw(verb), sp, ss.ps, sp, str(skAString, m)))
		g.c(v, p, body)
	}
	n := 2
	if g.Thorough {
		n = 3
	}
	for _, uid := range []bool{false, true} {
		for _, verb := range []string{"COPY", "MOVE"} {
			name := strings.ToLower(verb)
			if uid {
				name = "uid-" + name
			}
			if g.begin("seq/" + name) {
				for _, ss := range seqSets(n) {
					copyMove(uid, verb, ss, "mbox")
				}
				for _, m := range smallMailboxes() {
					copyMove(uid, verb, baseSeq, m)
				}
			}
		}
	}
	if g.begin("seq/copy-mailbox-sweep") {
		for _, m := range fullMailboxes() {
			copyMove(false, "COPY", baseSeq, m)
		}
	}
	if g.begin("seq/uid-expunge") {
		for _, ss := range seqSets(3) {
			g.c("uid expunge", &command.UIDExpunge{SeqSet: sr(ss)}, cat(kw("UID"), sp, kw("EXPUNGE"), sp, ss.ps))
		}
	}
}

// ---------------------------------------------------------------------------------------------------------------
// STATUS

var statusAtts = []struct {
	name string
	v    command.StatusAttribute
}{
	{"MESSAGES", command.StatusAttributeMessages}, {"RECENT", command.StatusAttributeRecent}, {"UIDNEXT", command.StatusAttributeUIDNext},
	{"UIDVALIDITY", command.StatusAttributeUIDValidity}, {"UNSEEN", command.StatusAttributeUnseen},
}

func genStatus(g *Gen) {
	status := func(m string, idx []int) {
		var ps []piece
		var v []command.StatusAttribute
		for i, a := range idx {
			if i > 0 {
				ps = append(ps, sp...)
			}
			ps = append(ps, kw(statusAtts[a].name)...)
			v = append(v, statusAtts[a].v)
		}
		g.c("status", &command.Status{Mailbox: mbx(m), Attributes: v}, cat(kw("STATUS"), sp, str(skAString, m), sp, raw("("), ps, raw(")")))
	}
	if g.begin("status/attributes") {
		for a := 0; a < 5; a++ {
			status("mbox", []int{a})
			for b := 0; b < 5; b++ {
				status("mbox", []int{a, b})
				for c := 0; c < 5; c++ {
					status("mbox", []int{a, b, c})
				}
			}
		}
		status("mbox", []int{0, 1, 2, 3, 4})
		status("mbox", []int{4, 3, 2, 1, 0})
	}
	if g.begin("status/mailbox") {
		for _, m := range fullMailboxes() {
			status(m, []int{0, 4})
		}
	}
}

// ---------------------------------------------------------------------------------------------------------------
// flags, STORE

// flagFrag: "\" atom (system flag / flag-extension) or atom (flag-keyword).
func flagFrag(f string) frag {
	if strings.HasPrefix(f, `\`) {
		return frag{ps: cat(raw(`\`), str(skAtom, f[1:])), v: f}
	}
	return frag{ps: str(skAtom, f), v: f}
}

var flagDom = []string{`\Seen`, `\Answered`, `\Flagged`, `\Deleted`, `\Draft`, `\XExt`, "kw", "$Fwd"}

// flagSeqs: every sequence of 0..max flags over dom; pieces are the SP-separated flags (without parentheses).
func flagSeqs(dom []string, max int) []frag {
	out := []frag{{ps: nil, v: []string(nil)}}
	var rec func(ps []piece, v []string, depth int)
	rec = func(ps []piece, v []string, depth int) {
		for _, f := range dom {
			ff := flagFrag(f)
			nps := cat(ps, ff.ps)
			if len(v) > 0 {
				nps = cat(ps, sp, ff.ps)
			}
			nv := append(append([]string{}, v...), f)
			out = append(out, frag{ps: nps, v: nv})
			if depth+1 < max {
				rec(nps, nv, depth+1)
			}
		}
	}
	rec(nil, nil, 0)
	return out
}

var storeActions = []struct {
	prefix string
	v      command.StoreAction
}{{"", command.StoreActionSetFlags}, {"+", command.StoreActionAddFlags}, {"-", command.StoreActionRemFlags}}

func genStore(g *Gen) {
	store := func(uid bool, ss frag, act int, silent bool, paren bool, fl frag) {
		flags := fl.v.([]string)
		if !paren && len(flags) == 0 {
			return // store-att-flags without parentheses needs at least one flag
		}
		item := "FLAGS"
		if silent {
			item = "FLAGS.SILENT"
		}
		fps := fl.ps
		if paren {
			fps = cat(raw("("), fl.ps, raw(")"))
		}
		p := &command.Store{SeqSet: sr(ss), Action: storeActions[act].v, Flags: flags, Silent: silent}
		v, pl, body := uidWrap(uid, "store", p, cat(kw("STORE"), sp, ss.ps, sp, raw(storeActions[act].prefix), kw(item), sp, fps))
		g.c(v, pl, body)
	}
	all := func(uid bool, lists []frag) {
		for act := range storeActions {
			for _, silent := range []bool{false, true} {
				for _, paren := range []bool{true, false} {
					for _, fl := range lists {
						store(uid, baseSeq, act, silent, paren, fl)
					}
				}
			}
		}
	}
	if g.begin("store/flag-lists") {
		all(false, flagSeqs(flagDom, 3))
	}
	if g.begin("store/uid-flag-lists") {
		if g.Thorough {
			all(true, flagSeqs(flagDom, 3))
		} else {
			all(true, flagSeqs(flagDom, 1))
		}
	}
	if g.begin("store/flag-chars") {
		var dom []string
		for _, s := range sweep(AtomChars()) {
			dom = append(dom, s, `\`+s)
		}
		dom = append(dom, `\seen`, `\SEEN`, `\sEeN`, "FLAGS", "NIL", "1", `\1`)
		for _, f := range dom {
			ff := flagFrag(f)
			one := frag{ps: ff.ps, v: []string{f}}
			store(false, baseSeq, 1, false, true, one)
			store(false, baseSeq, 0, true, false, one)
		}
	}
	if g.begin("store/seqsets") {
		fl := flagSeqs([]string{`\Seen`}, 1)[1]
		n := 2
		if g.Thorough {
			n = 3
		}
		for _, uid := range []bool{false, true} {
			for _, ss := range seqSets(n) {
				store(uid, ss, 1, true, true, fl)
			}
		}
	}
}
