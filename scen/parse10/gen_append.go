package parse10

import (
	"fmt"
	"strings"
	"time"

	"github.com/ProtonMail/gluon/imap/command"
)

// date-time = DQUOTE date-day-fixed "-" date-month "-" date-year SP time SP zone DQUOTE
// date-day-fixed = (SP DIGIT) / 2DIGIT ; zone = ("+" / "-") 4DIGIT
func dateTimeFrag(dayText string, day, month, year, hh, mm, ss int, zoneText string, zoneSecs int) frag {
	ps := cat(raw(`"`+dayText+"-"), kw(months[month-1]), raw(fmt.Sprintf("-%04d %02d:%02d:%02d %s\"", year, hh, mm, ss, zoneText)))
	return frag{ps: ps, v: time.Date(year, time.Month(month), day, hh, mm, ss, 0, time.FixedZone("zone", zoneSecs))}
}

var zones = []struct {
	t string
	s int
}{{"+0000", 0}, {"-0000", 0}, {"+0530", 19800}, {"-0800", -28800}, {"+1400", 50400}, {"-1200", -43200}, {"+0059", 3540}, {"-0001", -60}}

var clockTimes = [][3]int{{0, 0, 0}, {12, 34, 56}, {23, 59, 59}}

func dateTimeGrid(thorough bool) []frag {
	years := []int{1970, 2024, 9999}
	if thorough {
		years = []int{1, 1970, 2000, 2024, 2038, 9999}
	}
	var out []frag
	for _, y := range years {
		for m := 1; m <= 12; m++ {
			ld := lastDay(y, m)
			days := []struct {
				t string
				d int
			}{{" 1", 1}, {"01", 1}, {"09", 9}, {"15", 15}, {fmt.Sprint(ld), ld}}
			for _, d := range days {
				for _, c := range clockTimes {
					for _, z := range zones {
						out = append(out, dateTimeFrag(d.t, d.d, m, y, c[0], c[1], c[2], z.t, z.s))
					}
				}
			}
		}
	}
	return out
}

func allBytes() string {
	var b strings.Builder
	for c := 1; c <= 255; c++ {
		b.WriteByte(byte(c))
	}
	return b.String()
}

func bigLiteral() string {
	var b strings.Builder
	for i := 0; b.Len() < 5000; i++ {
		fmt.Fprintf(&b, "Line %d of the message body (with ) { } \" \\ specials)\r\n", i)
	}
	return b.String()
}

func genAppend(g *Gen) {
	noDate := frag{v: time.Time{}}
	noFlags := frag{v: []string(nil)}
	app := func(m string, flags frag, hasFlags bool, dt frag, msg string) {
		ps := cat(kw("APPEND"), sp, str(skAString, m))
		if hasFlags {
			ps = cat(ps, sp, raw("("), flags.ps, raw(")"))
		}
		if dt.ps != nil {
			ps = cat(ps, sp, dt.ps)
		}
		ps = cat(ps, sp, lit(msg))
		g.c("append", &command.Append{Mailbox: mbx(m), Flags: flags.v.([]string), DateTime: dt.v.(time.Time), Literal: []byte(msg)}, ps)
	}
	baseDT := dateTimeFrag("15", 15, 11, 1984, 13, 37, 1, "+0730", 27000)
	if g.begin("append/date-time") {
		for _, dt := range dateTimeGrid(g.Thorough) {
			app("mbox", noFlags, false, dt, "x")
		}
	}
	if g.begin("append/flags") {
		n := 2
		if g.Thorough {
			n = 3
		}
		for _, fl := range flagSeqs(flagDom, n) {
			app("mbox", fl, true, noDate, "x")
			app("mbox", fl, true, baseDT, "x")
		}
		app("mbox", noFlags, false, noDate, "x")
		app("mbox", noFlags, false, baseDT, "x")
	}
	if g.begin("append/literals") {
		fl := flagSeqs([]string{`\Seen`, "kw"}, 2)[3]
		for _, msg := range []string{"x", "ab", "a\r\nb", "\r\n", "\r", "\n", ")", " ", "{1}\r\nx", "caf\xc3\xa9", "From: a\r\nTo: b\r\n\r\nbody\r\n", allBytes(), bigLiteral(), ""} {
			app("mbox", noFlags, false, noDate, msg)
			app("Sent Items", fl, true, baseDT, msg)
		}
	}
	if g.begin("append/mailbox") {
		for _, m := range fullMailboxes() {
			app(m, noFlags, false, noDate, "x")
		}
		for _, m := range smallMailboxes() {
			app(m, flagSeqs([]string{`\Seen`}, 1)[1], true, baseDT, "ab")
		}
	}
}

// ---------------------------------------------------------------------------------------------------------------
// ID (RFC 2971): id = "ID" SPACE id_params_list ; id_params_list = "(" #(string SPACE nstring) ")" / nil

type idValue struct {
	v   string
	nil bool
}

func genID(g *Gen) {
	keys := []string{"name", "a b", "", `q"`, "caf\xc3\xa9"}
	values := []idValue{{v: "v"}, {v: ""}, {nil: true}, {v: `x\y`}, {v: "1.0 (beta)"}, {v: "\r\n"}}
	id := func(ks []string, vs []idValue) {
		ps := raw("(")
		m := map[string]string{}
		for i := range ks {
			if i > 0 {
				ps = cat(ps, sp)
			}
			ps = cat(ps, str(skString, ks[i]), sp)
			if vs[i].nil {
				ps = cat(ps, kw("NIL"))
				m[ks[i]] = "" // the payload has no representation of NIL; an absent value is the empty string
			} else {
				ps = cat(ps, str(skString, vs[i].v))
				m[ks[i]] = vs[i].v
			}
		}
		g.c("id", &command.IDSet{Values: m}, cat(kw("ID"), sp, ps, raw(")")))
	}
	if g.begin("id/params") {
		g.c("id", &command.IDGet{}, cat(kw("ID"), sp, kw("NIL")))
		id(nil, nil)
		for _, k := range keys {
			for _, v := range values {
				id([]string{k}, []idValue{v})
			}
		}
		for _, k1 := range keys {
			for _, k2 := range keys {
				if k1 == k2 {
					continue
				}
				for _, v1 := range values {
					for _, v2 := range values {
						id([]string{k1, k2}, []idValue{v1, v2})
					}
				}
			}
		}
		trip := values[:3]
		if g.Thorough {
			trip = values
		}
		for _, v1 := range trip {
			for _, v2 := range trip {
				for _, v3 := range trip {
					id([]string{"name", "version", "os"}, []idValue{v1, v2, v3})
				}
			}
		}
	}
}
