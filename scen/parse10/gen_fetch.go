package parse10

import (
	"strconv"
	"strings"

	"github.com/ProtonMail/gluon/imap/command"
)

// header-list = "(" header-fld-name *(SP header-fld-name) ")" ; header-fld-name = astring
func headerList(names ...string) frag {
	ps := raw("(")
	for i, n := range names {
		if i > 0 {
			ps = cat(ps, sp)
		}
		ps = cat(ps, str(skAString, n))
	}
	return frag{ps: cat(ps, raw(")")), v: append([]string{}, names...)}
}

func headerLists() []frag {
	return []frag{headerList("a"), headerList("Subject", "To"), headerList("a", "b", "c"), headerList("x-y"), headerList("a]b"),
		headerList("Sent Items"), headerList(""), headerList("caf\xc3\xa9\r\nx", `q"u\o`), headerList("NIL", "12")}
}

func asSection(v any) command.BodySection {
	if v == nil {
		return nil
	}
	return v.(command.BodySection)
}

// section-msgtext = "HEADER" / "HEADER.FIELDS" [".NOT"] SP header-list / "TEXT"
func msgTexts(hls []frag) []frag {
	out := []frag{{ps: kw("HEADER"), v: &command.BodySectionHeader{}}, {ps: kw("TEXT"), v: &command.BodySectionText{}}}
	for _, hl := range hls {
		out = append(out,
			frag{ps: cat(kw("HEADER.FIELDS"), sp, hl.ps), v: &command.BodySectionHeaderFields{Negate: false, Fields: hl.v.([]string)}},
			frag{ps: cat(kw("HEADER.FIELDS.NOT"), sp, hl.ps), v: &command.BodySectionHeaderFields{Negate: true, Fields: hl.v.([]string)}})
	}
	return out
}

var sectionParts = [][]int{{1}, {2}, {1, 1}, {1, 2}, {2, 1}, {1, 2, 3}, {4294967295}, {10, 20}}

// section = "[" [section-spec] "]" ; section-spec = section-msgtext / (section-part ["." section-text])
// The fragments returned are the text between the brackets; a nil value is the empty section.
func sections(thorough bool) []frag {
	hls := headerLists()
	out := []frag{{ps: nil, v: nil}}
	out = append(out, msgTexts(hls)...)
	under := hls[:2]
	if thorough {
		under = hls
	}
	for _, part := range sectionParts {
		var t []string
		for _, n := range part {
			t = append(t, strconv.Itoa(n))
		}
		text := strings.Join(t, ".")
		out = append(out, frag{ps: raw(text), v: &command.BodySectionPart{Part: append([]int{}, part...)}})
		texts := append(msgTexts(under), frag{ps: kw("MIME"), v: &command.BodySectionMIME{}})
		for _, st := range texts {
			out = append(out, frag{ps: cat(raw(text+"."), st.ps), v: &command.BodySectionPart{Part: append([]int{}, part...), Section: asSection(st.v)}})
		}
	}
	return out
}

// "<" number "." nz-number ">"
var partials = []struct {
	text string
	v    *command.BodySectionPartial
}{
	{"", nil},
	{"<0.1>", &command.BodySectionPartial{Offset: 0, Count: 1}},
	{"<1.1>", &command.BodySectionPartial{Offset: 1, Count: 1}},
	{"<10.20>", &command.BodySectionPartial{Offset: 10, Count: 20}},
	{"<007.5>", &command.BodySectionPartial{Offset: 7, Count: 5}},
	{"<0.4294967295>", &command.BodySectionPartial{Offset: 0, Count: 4294967295}},
	{"<4294967295.4294967295>", &command.BodySectionPartial{Offset: 4294967295, Count: 4294967295}},
}

func bodyAttr(peek bool, sec frag, partial int) frag {
	name := "BODY"
	if peek {
		name = "BODY.PEEK"
	}
	ps := cat(kw(name), raw("["), sec.ps, raw("]"))
	if partials[partial].text != "" {
		ps = cat(ps, raw(partials[partial].text))
	}
	var pv *command.BodySectionPartial
	if p := partials[partial].v; p != nil {
		c := *p
		pv = &c
	}
	return frag{ps: ps, v: command.FetchAttribute(&command.FetchAttributeBodySection{Section: asSection(sec.v), Peek: peek, Partial: pv})}
}

func bodyAttrs(thorough bool) []frag {
	var out []frag
	for _, peek := range []bool{false, true} {
		for _, sec := range sections(thorough) {
			for p := range partials {
				out = append(out, bodyAttr(peek, sec, p))
			}
		}
	}
	return out
}

func simpleAttrs() []frag {
	return []frag{
		{ps: kw("ENVELOPE"), v: command.FetchAttribute(&command.FetchAttributeEnvelope{})},
		{ps: kw("FLAGS"), v: command.FetchAttribute(&command.FetchAttributeFlags{})},
		{ps: kw("INTERNALDATE"), v: command.FetchAttribute(&command.FetchAttributeInternalDate{})},
		{ps: kw("RFC822"), v: command.FetchAttribute(&command.FetchAttributeRFC822{})},
		{ps: kw("RFC822.HEADER"), v: command.FetchAttribute(&command.FetchAttributeRFC822Header{})},
		{ps: kw("RFC822.SIZE"), v: command.FetchAttribute(&command.FetchAttributeRFC822Size{})},
		{ps: kw("RFC822.TEXT"), v: command.FetchAttribute(&command.FetchAttributeRFC822Text{})},
		{ps: kw("BODY"), v: command.FetchAttribute(&command.FetchAttributeBody{})},
		{ps: kw("BODYSTRUCTURE"), v: command.FetchAttribute(&command.FetchAttributeBodyStructure{})},
		{ps: kw("UID"), v: command.FetchAttribute(&command.FetchAttributeUID{})},
	}
}

func macroAttrs() []frag {
	return []frag{
		{ps: kw("ALL"), v: command.FetchAttribute(&command.FetchAttributeAll{})},
		{ps: kw("FULL"), v: command.FetchAttribute(&command.FetchAttributeFull{})},
		{ps: kw("FAST"), v: command.FetchAttribute(&command.FetchAttributeFast{})},
	}
}

// repAttrs: the attributes used for lists of 2 and 3: all simple ones plus one body attribute per section form.
func repAttrs() []frag {
	hl := headerLists()
	secs := sections(false)
	find := func(text string) frag {
		for _, s := range secs {
			var b strings.Builder
			for _, p := range s.ps {
				b.WriteString(p.s)
			}
			if b.String() == text {
				return s
			}
		}
		panic("no section " + text)
	}
	mt := msgTexts(hl[:3])
	out := simpleAttrs()
	out = append(out,
		bodyAttr(false, frag{}, 0),
		bodyAttr(true, mt[0], 0),  // BODY.PEEK[HEADER]
		bodyAttr(false, mt[1], 1), // BODY[TEXT]<0.1>
		bodyAttr(false, mt[4], 0), // BODY[HEADER.FIELDS (Subject To)]
		bodyAttr(true, mt[3], 3),  // BODY.PEEK[HEADER.FIELDS.NOT (a)]<10.20>
		bodyAttr(false, find("1.2.MIME"), 0),
		bodyAttr(false, find("1"), 0),
		bodyAttr(true, find("2.HEADER.FIELDS (a)"), 0),
	)
	return out
}

func genFetch(g *Gen) {
	fetch := func(uid bool, ss frag, paren bool, attrs ...frag) {
		var ps []piece
		var v []command.FetchAttribute
		for i, a := range attrs {
			if i > 0 {
				ps = cat(ps, sp)
			}
			ps = cat(ps, a.ps)
			v = append(v, a.v.(command.FetchAttribute))
		}
		if paren {
			ps = cat(raw("("), ps, raw(")"))
		}
		verb, p, body := uidWrap(uid, "fetch", &command.Fetch{SeqSet: sr(ss), Attributes: v}, cat(kw("FETCH"), sp, ss.ps, sp, ps))
		g.c(verb, p, body)
	}
	for _, uid := range []bool{false, true} {
		name := "fetch/single"
		if uid {
			name = "fetch/uid-single"
		}
		if g.begin(name) {
			for _, a := range macroAttrs() {
				fetch(uid, baseSeq, false, a)
			}
			for _, a := range append(simpleAttrs(), bodyAttrs(g.Thorough)...) {
				fetch(uid, baseSeq, false, a)
				fetch(uid, baseSeq, true, a)
			}
		}
	}
	reps := repAttrs()
	if g.begin("fetch/lists") {
		for _, uid := range []bool{false, true} {
			if uid && !g.Thorough {
				continue
			}
			for _, a := range reps {
				for _, b := range reps {
					fetch(uid, baseSeq, true, a, b)
				}
			}
		}
		trip := []frag{reps[1], reps[9], reps[7], reps[5], reps[10], reps[13], reps[15]}
		if g.Thorough {
			trip = reps
		}
		for _, a := range trip {
			for _, b := range trip {
				for _, c := range trip {
					fetch(false, baseSeq, true, a, b, c)
				}
			}
		}
		fetch(false, baseSeq, true, reps...)
	}
	if g.begin("fetch/seqsets") {
		for _, uid := range []bool{false, true} {
			n := 3
			if uid && !g.Thorough {
				n = 2
			}
			for _, ss := range seqSets(n) {
				fetch(uid, ss, false, reps[1])
			}
		}
	}
	if g.begin("fetch/header-names") {
		hf := func(names ...string) frag {
			hl := headerList(names...)
			return bodyAttr(true, frag{ps: cat(kw("HEADER.FIELDS"), sp, hl.ps), v: &command.BodySectionHeaderFields{Fields: hl.v.([]string)}}, 0)
		}
		for _, s := range fullStrings(astringChars()) {
			fetch(false, baseSeq, false, hf(s))
		}
		for _, a := range smallStrings {
			for _, b := range smallStrings {
				fetch(false, baseSeq, true, hf(a, b))
			}
		}
	}
}
