// Package wire holds the bounded-exhaustive wire-level checks (message sets, SEARCH, FETCH exactness) that run as
// batch calls inside worker processes against a real server.
package wire

import (
	"fmt"
	"strings"

	"verif/engine/imapc"
	"verif/engine/vconn"
	"verif/engine/world"
)

// Fix is a world with one logged-in session.
type Fix struct {
	W *world.World
	S *world.Sess
}

func NewFix() (*Fix, error) {
	w, err := world.New(world.Config{Hold: false, Parallel: true})
	if err != nil {
		return nil, err
	}
	s, err := w.Connect()
	if err != nil {
		w.Close()
		return nil, err
	}
	if r := w.Login(s, 0); !r.OK() {
		w.Close()
		return nil, fmt.Errorf("login: %v", r.Lines())
	}
	return &Fix{W: w, S: s}, nil
}

func (f *Fix) Close() { f.W.Close() }

// Mailbox creates a mailbox through the connector.
func (f *Fix) Mailbox(name string) error {
	spec := vconn.Spec{Kind: "MailboxCreated", Mbox: "mb-" + name, Name: strings.Split(name, "/")}
	if r := f.W.Inject(0, spec); r.Err != "" || !r.Done {
		return fmt.Errorf("create mailbox %s: %+v", name, r)
	}
	f.W.Users[0].Conn.NoteRemote(spec)
	return nil
}

// Message adds a message with the given key to a connector-created mailbox (or INBOX).
func (f *Fix) Message(mbox, key string, flags ...string) error {
	remote := "mb-" + mbox
	if mbox == "INBOX" {
		remote = "0"
	}
	spec := vconn.Spec{Kind: "MessagesCreated", Msg: "c-" + key, Key: key, Mboxes: []string{remote}, Flags: flags}
	if r := f.W.Inject(0, spec); r.Err != "" || !r.Done {
		return fmt.Errorf("create message %s: %+v", key, r)
	}
	f.W.Users[0].Conn.NoteRemote(spec)
	return nil
}

// View builds a mailbox whose UIDs are exactly the given ones (ascending), by creating max(uids) messages and
// expunging the others.
func (f *Fix) View(mbox string, uids []uint32) error {
	if err := f.Mailbox(mbox); err != nil {
		return err
	}
	if len(uids) == 0 {
		return nil
	}
	max := uids[len(uids)-1]
	keep := map[uint32]bool{}
	for _, u := range uids {
		keep[u] = true
	}
	for i := uint32(1); i <= max; i++ {
		if err := f.Message(mbox, fmt.Sprintf("%s-%d", mbox, i)); err != nil {
			return err
		}
	}
	if r := f.S.C.Cmd("SELECT " + mbox); !r.OK() {
		return fmt.Errorf("select %s: %v", mbox, r.Lines())
	}
	var del []string
	for i := uint32(1); i <= max; i++ {
		if !keep[i] {
			del = append(del, fmt.Sprint(i))
		}
	}
	if len(del) > 0 {
		if r := f.S.C.Cmd(`UID STORE ` + strings.Join(del, ",") + ` +FLAGS.SILENT (\Deleted)`); !r.OK() {
			return fmt.Errorf("store: %v", r.Lines())
		}
		if r := f.S.C.Cmd("EXPUNGE"); !r.OK() {
			return fmt.Errorf("expunge: %v", r.Lines())
		}
	}
	if r := f.S.C.Cmd("CLOSE"); !r.OK() {
		return fmt.Errorf("close: %v", r.Lines())
	}
	return nil
}

// Rows fetches (UID FLAGS) of the whole selected mailbox.
func Rows(c *imapc.Client) ([]*imapc.FetchRow, imapc.Result) {
	res := c.Cmd("UID FETCH 1:* (FLAGS)")
	var rows []*imapc.FetchRow
	for _, u := range res.Untagged {
		if p := imapc.ParseUntagged(u); p.Kind == "FETCH" {
			rows = append(rows, p.Row)
		}
	}
	return rows, res
}
