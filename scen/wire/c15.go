package wire

import (
	"encoding/json"
	"fmt"
	"sort"
	"strconv"
	"strings"
	"time"

	"verif/engine/explore"
	"verif/engine/imapc"
	"verif/engine/vconn"
	"verif/engine/world"
)

// Expr is a search-key tree.
type Expr struct {
	Op   string `json:"op"` // key | not | or | and (juxtaposition) | list (parenthesised)
	K    string `json:"k,omitempty"`
	Arg  string `json:"arg,omitempty"`
	Arg2 string `json:"arg2,omitempty"`
	Enc  string `json:"enc,omitempty"` // "" atom/quoted as needed | "q" quoted | "l" literal
	// Latin1: the argument (kept as UTF-8 here) goes on the wire in ISO-8859-1, as a literal (for CHARSET ISO-8859-1)
	Latin1 bool   `json:"latin1,omitempty"`
	Sub    []Expr `json:"sub,omitempty"`
}

type C15Case struct {
	View    string `json:"view"` // fresh | stale | pending
	UID     bool   `json:"uid"`
	Charset string `json:"charset,omitempty"`
	E       Expr   `json:"e"`
}

type c15Msg struct {
	Key, From, To, Cc, Bcc, Subject, Body string
	Date, Sent                            time.Time
	Flags                                 string
	Pad                                   int
}

func d(day int) time.Time { return time.Date(2020, 1, day, 12, 0, 0, 0, time.UTC) }

var c15Msgs = []c15Msg{
	{Key: "m1", From: "alice@a.example", To: "bob@b.example", Subject: "alpha report", Body: "apple pie", Date: d(1), Sent: d(1), Flags: `\Seen`},
	{Key: "m2", From: "bob@b.example", To: "carol@c.example", Cc: "dave@d.example", Subject: "beta notes", Body: "banana split", Date: d(2), Sent: d(2), Flags: `\Flagged \Answered`, Pad: 2000},
	{Key: "m3", From: "carol@c.example", To: "alice@a.example", Bcc: "eve@e.example", Subject: "gamma alpha", Body: "cherry tart", Date: d(3), Sent: d(3), Flags: `\Deleted \Draft`},
	{Key: "m4", From: "dave@d.example", To: "bob@b.example", Subject: "delta", Body: "apple banana", Date: d(4), Sent: time.Date(2019, 12, 31, 12, 0, 0, 0, time.UTC), Flags: `\Seen \Flagged $work`, Pad: 500},
	{Key: "m5", From: "eve@e.example", To: "carol@c.example", Cc: "alice@a.example", Subject: "epsilon", Body: "durian caf\u00e9 cr\u00e8me", Date: d(5), Sent: d(5), Flags: ``},
}

func (m c15Msg) literal() string {
	var b strings.Builder
	fmt.Fprintf(&b, "From: %s\r\nTo: %s\r\n", m.From, m.To)
	if m.Cc != "" {
		fmt.Fprintf(&b, "Cc: %s\r\n", m.Cc)
	}
	if m.Bcc != "" {
		fmt.Fprintf(&b, "Bcc: %s\r\n", m.Bcc)
	}
	fmt.Fprintf(&b, "Subject: %s\r\nX-Verif-Key: %s\r\nDate: %s\r\n\r\n%s\r\n", m.Subject, m.Key, m.Sent.Format("Mon, 02 Jan 2006 15:04:05 -0700"), m.Body)
	if m.Pad > 0 {
		b.WriteString(strings.Repeat("x", m.Pad) + "\r\n")
	}
	return b.String()
}

type c15Row struct {
	Seq   int
	UID   uint32
	Flags map[string]bool
	Size  int
	Msg   c15Msg
}

type c15View struct {
	w    *world.World
	o    *world.Sess
	rows []c15Row
}

func buildC15View(kind string) (*c15View, error) {
	w, err := world.New(world.Config{Hold: true, Parallel: true})
	if err != nil {
		return nil, err
	}
	v := &c15View{w: w}
	fail := func(err error) (*c15View, error) { w.Close(); return nil, err }
	for _, m := range c15Msgs {
		spec := vconn.Spec{Kind: "MessagesCreated", Msg: "c-" + m.Key, Lit: m.literal(), Mboxes: []string{"0"}, Date: m.Date.Format(time.RFC3339)}
		if r := w.Inject(0, spec); r.Err != "" || !r.Done {
			return fail(fmt.Errorf("create %s: %+v", m.Key, r))
		}
		w.Users[0].Conn.NoteRemote(spec)
	}
	a, err := w.Connect()
	if err != nil {
		return fail(err)
	}
	w.Login(a, 0)
	if r := a.C.Cmd("SELECT INBOX"); !r.OK() {
		return fail(fmt.Errorf("select: %v", r.Lines()))
	}
	for i, m := range c15Msgs {
		if m.Flags != "" {
			if r := a.C.Cmd(fmt.Sprintf("STORE %d +FLAGS.SILENT (%s)", i+1, m.Flags)); !r.OK() {
				return fail(fmt.Errorf("store flags: %v", r.Lines()))
			}
		}
	}
	o, err := w.Connect()
	if err != nil {
		return fail(err)
	}
	w.Login(o, 0)
	if r := o.C.Cmd("SELECT INBOX"); !r.OK() {
		return fail(fmt.Errorf("select: %v", r.Lines()))
	}
	v.o = o
	switch kind {
	case "stale":
		// another session expunges message 2; the update reaches O but a SEARCH can not announce it
		a.C.Cmd(`STORE 2 +FLAGS.SILENT (\Flagged)`)
		if r := a.C.Cmd(`UID EXPUNGE 3`); !r.OK() { // m3 carries \Deleted
			return fail(fmt.Errorf("uid expunge: %v", r.Lines()))
		}
		for w.Held(o) > 0 {
			if _, _, err := w.Deliver(o); err != nil {
				return fail(err)
			}
		}
		o.C.Cmd("SEARCH ALL")
	case "pending":
		spec := vconn.Spec{Kind: "MessagesCreated", Msg: "c-m6", Key: "m6", Mboxes: []string{"0"}}
		if r := w.Inject(0, spec); r.Err != "" {
			return fail(fmt.Errorf("create m6: %+v", r))
		}
		for w.Held(o) > 0 {
			if _, _, err := w.Deliver(o); err != nil {
				return fail(err)
			}
		}
	}
	if kind != "pending" {
		if err := v.probe(); err != nil {
			return fail(err)
		}
	} else {
		// probing would flush the pending EXISTS; the rows are those of a fresh view (checked elsewhere)
		v2, err := buildC15View("fresh")
		if err != nil {
			return fail(err)
		}
		v.rows = v2.rows
		v2.w.Close()
	}
	return v, nil
}

func (v *c15View) probe() error {
	res := v.o.C.Cmd("FETCH 1:* (UID FLAGS RFC822.SIZE BODY.PEEK[HEADER.FIELDS (X-Verif-Key)])")
	if !res.OK() {
		return fmt.Errorf("probe: %v", res.Lines())
	}
	v.rows = nil
	for _, u := range res.Untagged {
		p := imapc.ParseUntagged(u)
		if p.Kind != "FETCH" {
			continue
		}
		row := c15Row{Seq: p.Row.Seq, UID: p.Row.UID, Flags: map[string]bool{}}
		for _, f := range p.Row.Flags {
			row.Flags[f] = true
		}
		if m := sizeRe.FindStringSubmatch(u.Text); m != nil {
			row.Size, _ = strconv.Atoi(m[1])
		}
		for _, lit := range u.Lits {
			for _, m := range c15Msgs {
				if strings.Contains(string(lit), "X-Verif-Key: "+m.Key+"\r\n") {
					row.Msg = m
				}
			}
		}
		if row.Msg.Key == "" {
			return fmt.Errorf("probe: row without key: %q", u.Text)
		}
		v.rows = append(v.rows, row)
	}
	sort.Slice(v.rows, func(i, j int) bool { return v.rows[i].Seq < v.rows[j].Seq })
	return nil
}

func init() { explore.RegisterCall("c15", c15Call) }

func needsQuote(s string) bool {
	if s == "" {
		return true
	}
	for _, c := range s {
		if c <= ' ' || c == '(' || c == ')' || c == '{' || c == '"' || c == '\\' || c == '%' || c == '*' || c == ']' || c > 126 {
			return true
		}
	}
	return false
}

// render returns the command text as segments; a literal splits the text (segment i ends with {n}).
func render(e Expr) string {
	switch e.Op {
	case "key":
		s := e.K
		enc := func(a string) string {
			if e.Latin1 {
				b := make([]byte, 0, len(a))
				for _, r := range a {
					b = append(b, byte(r)) // the test words only use code points below 256
				}
				return fmt.Sprintf("{%d}\r\n%s", len(b), b)
			}
			switch {
			case e.Enc == "l" && a != "": // (a zero-length literal is C11's subject)
				return fmt.Sprintf("{%d}\r\n%s", len(a), a)
			case e.Enc == "q" || needsQuote(a):
				return `"` + strings.ReplaceAll(strings.ReplaceAll(a, `\`, `\\`), `"`, `\"`) + `"`
			}
			return a
		}
		switch e.K {
		case "SEQ":
			return e.Arg
		case "UID":
			return "UID " + e.Arg
		case "HEADER":
			return "HEADER " + enc(e.Arg) + " " + enc(e.Arg2)
		case "BEFORE", "ON", "SINCE", "SENTBEFORE", "SENTON", "SENTSINCE", "LARGER", "SMALLER":
			return s + " " + e.Arg
		}
		if isArgKey(e.K) {
			return s + " " + enc(e.Arg)
		}
		return s
	case "not":
		return "NOT " + render(e.Sub[0])
	case "or":
		return "OR " + render(e.Sub[0]) + " " + render(e.Sub[1])
	case "and":
		parts := make([]string, len(e.Sub))
		for i, x := range e.Sub {
			parts[i] = render(x)
		}
		return strings.Join(parts, " ")
	case "list":
		parts := make([]string, len(e.Sub))
		for i, x := range e.Sub {
			parts[i] = render(x)
		}
		return "(" + strings.Join(parts, " ") + ")"
	}
	return "?"
}

func isArgKey(k string) bool {
	switch k {
	case "BCC", "CC", "FROM", "TO", "SUBJECT", "BODY", "TEXT", "KEYWORD", "UNKEYWORD":
		return true
	}
	return false
}

func parseDate(s string) time.Time {
	t, _ := time.Parse("2-Jan-2006", s)
	return t
}

func day(t time.Time) time.Time {
	t = t.UTC()
	return time.Date(t.Year(), t.Month(), t.Day(), 0, 0, 0, 0, time.UTC)
}

func ci(hay, needle string) bool {
	return strings.Contains(strings.ToLower(hay), strings.ToLower(needle))
}

func (v *c15View) eval(e Expr, r c15Row) bool {
	n := len(v.rows)
	switch e.Op {
	case "not":
		return !v.eval(e.Sub[0], r)
	case "or":
		return v.eval(e.Sub[0], r) || v.eval(e.Sub[1], r)
	case "and", "list":
		for _, x := range e.Sub {
			if !v.eval(x, r) {
				return false
			}
		}
		return true
	}
	m := r.Msg
	fl := func(f string) bool { return r.Flags[strings.ToLower(f)] }
	switch e.K {
	case "ALL":
		return true
	case "ANSWERED":
		return fl(`\answered`)
	case "UNANSWERED":
		return !fl(`\answered`)
	case "DELETED":
		return fl(`\deleted`)
	case "UNDELETED":
		return !fl(`\deleted`)
	case "DRAFT":
		return fl(`\draft`)
	case "UNDRAFT":
		return !fl(`\draft`)
	case "FLAGGED":
		return fl(`\flagged`)
	case "UNFLAGGED":
		return !fl(`\flagged`)
	case "SEEN":
		return fl(`\seen`)
	case "UNSEEN":
		return !fl(`\seen`)
	case "RECENT":
		return fl(`\recent`)
	case "OLD":
		return !fl(`\recent`)
	case "NEW":
		return fl(`\recent`) && !fl(`\seen`)
	case "KEYWORD":
		return fl(e.Arg)
	case "UNKEYWORD":
		return !fl(e.Arg)
	case "BCC":
		return ci(m.Bcc, e.Arg)
	case "CC":
		return ci(m.Cc, e.Arg)
	case "FROM":
		return ci(m.From, e.Arg)
	case "TO":
		return ci(m.To, e.Arg)
	case "SUBJECT":
		return ci(m.Subject, e.Arg)
	case "BODY":
		return ci(m.Body+"\r\n"+strings.Repeat("x", m.Pad), e.Arg)
	case "TEXT":
		return ci(m.literal(), e.Arg)
	case "HEADER":
		var val string
		present := true
		switch strings.ToLower(e.Arg) {
		case "subject":
			val = m.Subject
		case "from":
			val = m.From
		case "cc":
			val, present = m.Cc, m.Cc != ""
		case "bcc":
			val, present = m.Bcc, m.Bcc != ""
		case "x-verif-key":
			val = m.Key
		default:
			present = false
		}
		return present && ci(val, e.Arg2)
	case "LARGER":
		x, _ := strconv.Atoi(e.Arg)
		return r.Size > x
	case "SMALLER":
		x, _ := strconv.Atoi(e.Arg)
		return r.Size < x
	case "BEFORE":
		return day(m.Date).Before(parseDate(e.Arg))
	case "ON":
		return day(m.Date).Equal(parseDate(e.Arg))
	case "SINCE":
		return !day(m.Date).Before(parseDate(e.Arg))
	case "SENTBEFORE":
		return day(m.Sent).Before(parseDate(e.Arg))
	case "SENTON":
		return day(m.Sent).Equal(parseDate(e.Arg))
	case "SENTSINCE":
		return !day(m.Sent).Before(parseDate(e.Arg))
	case "UID":
		uids := make([]uint32, n)
		for i, x := range v.rows {
			uids[i] = x.UID
		}
		ex := expectUID(e.Arg, uids)
		return ex.sel[r.UID]
	case "SEQ":
		uids := make([]uint32, n)
		for i, x := range v.rows {
			uids[i] = x.UID
		}
		ex := expectSeq(e.Arg, uids)
		return ex.sel[r.UID]
	}
	return false
}

func c15Call(raw json.RawMessage) (any, error) {
	var chunk enumChunk
	if err := json.Unmarshal(raw, &chunk); err != nil {
		return nil, err
	}
	res := &enumResult{Counters: map[string]int{}}
	outcomes := map[string]bool{}
	views := map[string]*c15View{}
	defer func() {
		for _, v := range views {
			v.w.Close()
		}
	}()
	for _, rc := range chunk.Cases {
		var cs C15Case
		if err := json.Unmarshal(rc, &cs); err != nil {
			return nil, err
		}
		v := views[cs.View]
		if v == nil || cs.View == "pending" {
			if v != nil {
				v.w.Close()
			}
			var err error
			v, err = buildC15View(cs.View)
			if err != nil {
				return nil, err
			}
			views[cs.View] = v
		}
		text := render(cs.E)
		cmd := "SEARCH "
		if cs.UID {
			cmd = "UID SEARCH "
		}
		if cs.Charset != "" {
			cmd += "CHARSET " + cs.Charset + " "
		}
		r := sendWithLiterals(v.o.C, cmd+text)
		res.Evaluations++
		add := func(clause, msg string) {
			res.Viol = append(res.Viol, enumViol{Clause: clause, Sig: sigOf(cs), Msg: fmt.Sprintf("[%s view] %s%s: %s", cs.View, cmd, text, msg), Input: cs})
		}
		if r.Err != nil {
			add("no-response", r.Err.Error())
			v.w.Close()
			delete(views, cs.View)
			continue
		}
		var want []int
		for _, row := range v.rows {
			if v.eval(cs.E, row) {
				if cs.UID {
					want = append(want, int(row.UID))
				} else {
					want = append(want, row.Seq)
				}
			}
		}
		if r.Status != "OK" {
			add("refused", fmt.Sprintf("answered %q, expected %v", r.Tagged.Text, want))
			continue
		}
		var got []int
		nSearch := 0
		for _, u := range r.Untagged {
			if m := searchRe.FindStringSubmatch(u.Text); m != nil {
				nSearch++
				for _, f := range strings.Fields(m[1]) {
					x, _ := strconv.Atoi(f)
					got = append(got, x)
				}
			}
			if p := imapc.ParseUntagged(u); p.Kind == "EXPUNGE" {
				add("expunge-during-search", u.Text)
			}
		}
		if !sort.IntsAreSorted(got) {
			add("order", fmt.Sprintf("result %v not ascending", got))
		}
		for i := 1; i < len(got); i++ {
			if got[i] == got[i-1] {
				add("duplicate", fmt.Sprintf("result %v has duplicates", got))
				break
			}
		}
		sg := append([]int(nil), got...)
		sort.Ints(sg)
		if fmt.Sprint(sg) != fmt.Sprint(append([]int{}, want...)) {
			add("wrong-result", fmt.Sprintf("got %v, expected %v", got, want))
		}
		if len(want) > 0 && len(want) < len(v.rows) {
			outcomes[fmt.Sprintf("%s|%v|%v", cs.View, cs.UID, want)] = true
		}
		res.Counters["matched-"+strconv.Itoa(len(want))]++
		if len(res.Samples) < 2 {
			res.Samples = append(res.Samples, map[string]any{"view": cs.View, "cmd": cmd + text, "result": got})
		}
	}
	for k := range outcomes {
		res.Outcomes = append(res.Outcomes, k)
	}
	return res, nil
}

func topKeys(e Expr, out *[]string) {
	if e.Op == "key" {
		*out = append(*out, e.K)
		return
	}
	for _, s := range e.Sub {
		topKeys(s, out)
	}
}

func sigOf(cs C15Case) string {
	var keys []string
	topKeys(cs.E, &keys)
	sort.Strings(keys)
	uniq := keys[:0]
	for i, k := range keys {
		if i == 0 || k != keys[i-1] {
			uniq = append(uniq, k)
		}
	}
	if len(uniq) > 2 {
		uniq = uniq[:2]
	}
	return cs.View + "/" + strings.Join(uniq, "+")
}

// sendWithLiterals sends a command whose text may contain synchronising literals ("{n}\r\n" inside the text).
func sendWithLiterals(c *imapc.Client, text string) imapc.Result {
	tag := c.NextTag()
	full := tag + " " + text + "\r\n"
	res := imapc.Result{Tag: tag}
	for {
		i := strings.Index(full, "}\r\n")
		if i < 0 || !strings.Contains(full[:i], "{") {
			break
		}
		if err := c.Send([]byte(full[:i+3])); err != nil {
			res.Err = err
			return res
		}
		full = full[i+3:]
		r, err := c.ReadResp()
		if err != nil {
			res.Err = err
			return res
		}
		if !strings.HasPrefix(r.Text, "+") {
			if strings.HasPrefix(r.Text, tag+" ") {
				res.Tagged = r
				if f := strings.Fields(r.Text); len(f) >= 2 {
					res.Status = f[1]
				}
				return res
			}
			res.Untagged = append(res.Untagged, r)
		}
	}
	if err := c.Send([]byte(full)); err != nil {
		res.Err = err
		return res
	}
	r2 := c.Collect(tag)
	r2.Untagged = append(res.Untagged, r2.Untagged...)
	return r2
}
