package wire

import (
	"encoding/json"
	"fmt"
	"math/big"
	"regexp"
	"sort"
	"strconv"
	"strings"

	"verif/engine/enumt"
	"verif/engine/explore"
	"verif/engine/imapc"
)

type C16Case struct {
	Cmd  string `json:"cmd"`
	Set  string `json:"set"`
	View int    `json:"view"`
}

type enumViol = enumt.Viol
type enumResult = enumt.Result
type enumChunk = enumt.Chunk

var ViewUIDs = map[int][]uint32{0: {}, 1: {3}, 3: {2, 4, 5}}

func init() {
	explore.RegisterCall("c16", c16Call)
}

var two32 = new(big.Int).Lsh(big.NewInt(1), 32)

type elem struct {
	star bool
	v    *big.Int
}

func parseSet(set string) [][2]elem {
	var out [][2]elem
	for _, part := range strings.Split(set, ",") {
		ab := strings.SplitN(part, ":", 2)
		pe := func(s string) elem {
			if s == "*" {
				return elem{star: true}
			}
			v, _ := new(big.Int).SetString(s, 10)
			return elem{v: v}
		}
		a := pe(ab[0])
		b := a
		if len(ab) == 2 {
			b = pe(ab[1])
		}
		out = append(out, [2]elem{a, b})
	}
	return out
}

// expectation for a set against a view
type expect struct {
	bad      bool            // the command must fail with BAD
	unjudged bool            // the statement does not decide this case
	sel      map[uint32]bool // selected UIDs
	altSel   map[uint32]bool // alternative accepted selection (UID n:* above the highest UID)
	hugeUID  bool            // a UID >= 2^32 occurs: BAD is accepted as well
	shape    string
}

func shapeOf(ranges [][2]elem, n int) string {
	huge := false
	for _, r := range ranges {
		for _, e := range r {
			if !e.star && e.v.Cmp(two32) >= 0 {
				huge = true
			}
		}
	}
	switch {
	case huge:
		return "number>=2^32"
	case len(ranges) > 1:
		return "union"
	}
	return "plain"
}

func expectSeq(set string, uids []uint32) expect {
	ranges := parseSet(set)
	n := len(uids)
	ex := expect{sel: map[uint32]bool{}, shape: shapeOf(ranges, n)}
	hasStar := false
	for _, r := range ranges {
		for _, e := range r {
			if e.star {
				hasStar = true
				continue
			}
			if e.v.Sign() == 0 || e.v.Cmp(big.NewInt(int64(n))) > 0 {
				ex.bad = true
			}
		}
	}
	if ex.bad {
		return ex
	}
	if n == 0 && hasStar {
		// '*' is the highest sequence number in use; in an empty mailbox there is none, so it addresses a message
		// beyond the count like any other number does (the unchanged server answers BAD in every command)
		ex.bad = true
		return ex
	}
	for _, r := range ranges {
		val := func(e elem) int {
			if e.star {
				return n
			}
			return int(e.v.Int64())
		}
		lo, hi := val(r[0]), val(r[1])
		if lo > hi {
			lo, hi = hi, lo
		}
		for i := lo; i <= hi; i++ {
			ex.sel[uids[i-1]] = true
		}
	}
	return ex
}

func expectUID(set string, uids []uint32) expect {
	ranges := parseSet(set)
	n := len(uids)
	ex := expect{sel: map[uint32]bool{}, shape: shapeOf(ranges, n)}
	var highest uint32
	if n > 0 {
		highest = uids[n-1]
	}
	alt := false
	for _, r := range ranges {
		for _, e := range r {
			if !e.star && e.v.Sign() == 0 {
				ex.bad = true
			}
			if !e.star && e.v.Cmp(two32) >= 0 {
				ex.hugeUID = true
			}
		}
	}
	if ex.bad {
		return ex
	}
	ex.altSel = map[uint32]bool{}
	for _, r := range ranges {
		val := func(e elem) *big.Int {
			if e.star {
				return big.NewInt(int64(highest))
			}
			return e.v
		}
		lo, hi := val(r[0]), val(r[1])
		isRange := !(r[0].star == r[1].star && (r[0].star || r[0].v.Cmp(r[1].v) == 0))
		if lo.Cmp(hi) > 0 {
			lo, hi = hi, lo
		}
		// n:* (or *:n) with n above the highest UID: RFC says {highest}; the server deliberately returns nothing.
		if isRange && (r[0].star != r[1].star) && n > 0 {
			num := r[0].v
			if r[0].star {
				num = r[1].v
			}
			if num.Cmp(big.NewInt(int64(highest))) > 0 {
				alt = true
				ex.altSel[highest] = true
				continue // primary expectation: nothing for this range
			}
		}
		for _, u := range uids {
			bu := big.NewInt(int64(u))
			if bu.Cmp(lo) >= 0 && bu.Cmp(hi) <= 0 {
				ex.sel[u] = true
				ex.altSel[u] = true
			}
		}
	}
	if !alt {
		ex.altSel = nil
	} else {
		for u := range ex.sel {
			ex.altSel[u] = true
		}
	}
	return ex
}

func setKey(m map[uint32]bool) string {
	var s []int
	for u := range m {
		s = append(s, int(u))
	}
	sort.Ints(s)
	return fmt.Sprint(s)
}

var searchRe = regexp.MustCompile(`^\* SEARCH(.*)$`)
var copyuidRe = regexp.MustCompile(`\[COPYUID \d+ (\S+) (\S+)\]`)

func expandUIDSet(s string) []uint32 {
	var out []uint32
	for _, part := range strings.Split(s, ",") {
		ab := strings.SplitN(part, ":", 2)
		a, _ := strconv.ParseUint(ab[0], 10, 32)
		b := a
		if len(ab) == 2 {
			b, _ = strconv.ParseUint(ab[1], 10, 32)
		}
		if a > b {
			a, b = b, a
		}
		for x := a; x <= b; x++ {
			out = append(out, uint32(x))
		}
	}
	return out
}

func c16Call(raw json.RawMessage) (any, error) {
	var chunk enumChunk
	if err := json.Unmarshal(raw, &chunk); err != nil {
		return nil, err
	}
	res := &enumResult{Counters: map[string]int{}}
	outcomes := map[string]bool{}
	var fix *Fix
	build := func() error {
		if fix != nil {
			fix.Close()
		}
		var err error
		fix, err = NewFix()
		if err != nil {
			return err
		}
		for _, v := range []int{0, 1, 3} {
			if err := fix.View(fmt.Sprintf("v%d", v), ViewUIDs[v]); err != nil {
				return err
			}
		}
		return fix.Mailbox("dst")
	}
	if err := build(); err != nil {
		return nil, err
	}
	defer func() {
		if fix != nil {
			fix.Close()
		}
	}()
	for _, rc := range chunk.Cases {
		var cs C16Case
		if err := json.Unmarshal(rc, &cs); err != nil {
			return nil, err
		}
		uids := ViewUIDs[cs.View]
		byUID := strings.HasPrefix(cs.Cmd, "UID ")
		base := strings.TrimPrefix(cs.Cmd, "UID ")
		var ex expect
		if byUID {
			ex = expectUID(cs.Set, uids)
		} else {
			ex = expectSeq(cs.Set, uids)
		}
		c := fix.S.C
		if r := c.Cmd(fmt.Sprintf("SELECT v%d", cs.View)); !r.OK() {
			return nil, fmt.Errorf("select: %v", r.Lines())
		}
		res.Evaluations++
		add := func(clause, msg string) {
			res.Viol = append(res.Viol, enumViol{Clause: clause, Sig: cs.Cmd + "/" + ex.shape, Msg: fmt.Sprintf("%s %s on view UIDs %v: %s", cs.Cmd, cs.Set, uids, msg), Input: cs})
		}
		destructive := false
		var got map[uint32]bool
		var dup bool
		var r imapc.Result
		switch base {
		case "FETCH":
			r = c.Cmd(cs.Cmd + " " + cs.Set + " (UID)")
			got = map[uint32]bool{}
			for _, u := range r.Untagged {
				if p := imapc.ParseUntagged(u); p.Kind == "FETCH" {
					if got[p.Row.UID] {
						dup = true
					}
					got[p.Row.UID] = true
					if p.Row.Seq < 1 || p.Row.Seq > len(uids) || uids[p.Row.Seq-1] != p.Row.UID {
						add("seq-uid-mismatch", fmt.Sprintf("row %q does not match the view", u.Text))
					}
				}
			}
		case "SEARCH":
			if byUID {
				r = c.Cmd("UID SEARCH UID " + cs.Set)
			} else {
				r = c.Cmd("SEARCH " + cs.Set)
			}
			got = map[uint32]bool{}
			for _, u := range r.Untagged {
				if m := searchRe.FindStringSubmatch(u.Text); m != nil {
					for _, f := range strings.Fields(m[1]) {
						x, _ := strconv.Atoi(f)
						var uid uint32
						if byUID {
							uid = uint32(x)
						} else if x >= 1 && x <= len(uids) {
							uid = uids[x-1]
						} else {
							add("search-out-of-view", fmt.Sprintf("SEARCH returned sequence number %d", x))
							continue
						}
						if got[uid] {
							dup = true
						}
						got[uid] = true
					}
				}
			}
		case "STORE":
			r = c.Cmd(cs.Cmd + " " + cs.Set + ` +FLAGS.SILENT (\Flagged)`)
			rows, _ := Rows(c)
			got = map[uint32]bool{}
			for _, row := range rows {
				for _, f := range row.Flags {
					if f == `\flagged` {
						got[row.UID] = true
					}
				}
			}
			if len(got) > 0 {
				c.Cmd(`STORE 1:* -FLAGS.SILENT (\Flagged)`)
			}
		case "COPY":
			destructive = true
			r = c.Cmd(cs.Cmd + " " + cs.Set + " dst")
			got = map[uint32]bool{}
			if m := copyuidRe.FindStringSubmatch(r.Tagged.Text); m != nil {
				for _, u := range expandUIDSet(m[1]) {
					if got[u] {
						dup = true
					}
					got[u] = true
				}
			}
			if r.OK() {
				st := c.Cmd("STATUS dst (MESSAGES)")
				want := fmt.Sprintf("MESSAGES %d", len(got))
				if !strings.Contains(strings.Join(st.Lines(), " "), want) {
					add("copy-count", fmt.Sprintf("COPYUID names %d messages but %v", len(got), st.Lines()))
				}
			}
		case "MOVE":
			destructive = true
			r = c.Cmd(cs.Cmd + " " + cs.Set + " dst")
			rows, _ := Rows(c)
			left := map[uint32]bool{}
			for _, row := range rows {
				left[row.UID] = true
			}
			got = map[uint32]bool{}
			for _, u := range uids {
				if !left[u] {
					got[u] = true
				}
			}
			if r.OK() {
				st := c.Cmd("STATUS dst (MESSAGES)")
				want := fmt.Sprintf("MESSAGES %d", len(got))
				if !strings.Contains(strings.Join(st.Lines(), " "), want) {
					add("move-count", fmt.Sprintf("%d messages left the view but %v", len(got), st.Lines()))
				}
			}
		case "EXPUNGE": // UID EXPUNGE
			destructive = true
			if len(uids) > 0 {
				c.Cmd(`STORE 1:* +FLAGS.SILENT (\Deleted)`)
			}
			r = c.Cmd("UID EXPUNGE " + cs.Set)
			rows, _ := Rows(c)
			left := map[uint32]bool{}
			for _, row := range rows {
				left[row.UID] = true
			}
			got = map[uint32]bool{}
			for _, u := range uids {
				if !left[u] {
					got[u] = true
				}
			}
		default:
			return nil, fmt.Errorf("unknown cmd %q", cs.Cmd)
		}
		if r.Err != nil {
			add("no-response", fmt.Sprintf("connection error: %v", r.Err))
			if err := build(); err != nil {
				return nil, err
			}
			continue
		}
		okey := fmt.Sprintf("%s|v%d|%s|%s", cs.Cmd, cs.View, r.Status, setKey(got))
		if len(got) > 0 || r.Status != "OK" {
			outcomes[okey] = true
		}
		res.Counters[r.Status]++
		switch {
		case ex.unjudged:
			res.Counters["unjudged"]++
		case ex.bad:
			if r.Status != "BAD" {
				if len(got) > 0 {
					add("beyond-count-mapped", fmt.Sprintf("must fail with BAD, answered %s and touched UIDs %s", r.Status, setKey(got)))
				} else {
					add("beyond-count-accepted", fmt.Sprintf("must fail with BAD, answered %q", r.Tagged.Text))
				}
			}
		default:
			if r.Status == "BAD" && ex.hugeUID {
				break
			}
			if r.Status != "OK" {
				add("valid-set-refused", fmt.Sprintf("expected UIDs %s, answered %q", setKey(ex.sel), r.Tagged.Text))
				break
			}
			if setKey(got) != setKey(ex.sel) && (ex.altSel == nil || setKey(got) != setKey(ex.altSel)) {
				add("wrong-selection", fmt.Sprintf("expected UIDs %s, got %s", setKey(ex.sel), setKey(got)))
			}
			if dup {
				add("duplicate", "a message was returned more than once (a set names a message once)")
			}
		}
		if len(res.Samples) < 2 {
			res.Samples = append(res.Samples, map[string]any{"case": cs, "status": r.Status, "got": setKey(got)})
		}
		if destructive {
			if err := build(); err != nil {
				return nil, err
			}
		}
	}
	for k := range outcomes {
		res.Outcomes = append(res.Outcomes, k)
	}
	return res, nil
}

var sizeRe = regexp.MustCompile(`RFC822\.SIZE (\d+)`)
