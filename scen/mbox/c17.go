package mbox

import (
	"encoding/json"
	"fmt"
	"strings"

	"github.com/ProtonMail/gluon/imap"
	"github.com/ProtonMail/gluon/limits"

	"verif/engine/explore"
	"verif/engine/vconn"
	"verif/engine/world"
)

// C17: configured limits are never exceeded and refusals have no partial effect.

type C17Params struct {
	MaxMailboxes uint32          `json:"max_mailboxes"`
	MaxMessages  uint32          `json:"max_messages"`
	MaxUID       uint32          `json:"max_uid"`
	Alphabet     []explore.Event `json:"alphabet"`
}

type c17run struct {
	p      C17Params
	w      *world.World
	sess   []*world.Sess
	keyN   int
	nbox   int
	broken string
}

func init() { explore.Register("c17", NewC17) }

func NewC17(raw json.RawMessage) (explore.Run, error) {
	var p C17Params
	if err := json.Unmarshal(raw, &p); err != nil {
		return nil, err
	}
	lim := limits.NewIMAPLimits(p.MaxMailboxes, p.MaxMessages, imap.UID(p.MaxUID), imap.UID(1<<30))
	w, err := world.New(world.Config{Hold: false, Limits: &lim})
	if err != nil {
		return nil, err
	}
	r := &c17run{p: p, w: w}
	sp := vconn.Spec{Kind: "MailboxCreated", Mbox: "mb-src", Name: []string{"src"}}
	if res := w.Inject(0, sp); res.Err != "" {
		w.Close()
		return nil, fmt.Errorf("setup: %+v", res)
	}
	w.Users[0].Conn.NoteRemote(sp)
	for _, k := range []string{"s1", "s2"} {
		m := vconn.Spec{Kind: "MessagesCreated", Msg: "c-" + k, Key: k, Mboxes: []string{"mb-src"}}
		if res := w.Inject(0, m); res.Err != "" {
			w.Close()
			return nil, fmt.Errorf("setup: %+v", res)
		}
		w.Users[0].Conn.NoteRemote(m)
	}
	for _, sel := range []string{"INBOX", "src"} {
		s, err := w.Connect()
		if err != nil {
			w.Close()
			return nil, err
		}
		w.Login(s, 0)
		if res := s.C.Cmd("SELECT " + sel); !res.OK() {
			w.Close()
			return nil, fmt.Errorf("select failed")
		}
		s.Selected = sel
		r.sess = append(r.sess, s)
	}
	return r, nil
}

func (r *c17run) Close() { r.w.Close() }

func (r *c17run) Enabled() []explore.Event {
	var out []explore.Event
	for _, e := range r.p.Alphabet {
		if (e.K == "cmd" || e.K == "append") && r.sess[e.S].Dead {
			continue
		}
		out = append(out, e)
	}
	return out
}

func (r *c17run) viol(clause, sig, msg string) explore.Violation {
	return explore.Violation{Prop: "C17", Clause: clause, Sig: sig, Msg: msg}
}

// snapshot of everything a refused operation must leave untouched
func (r *c17run) worldString() (string, DBView, error) {
	v, err := ReadDB(r.w, 0)
	if err != nil {
		return "", v, err
	}
	var b strings.Builder
	for _, mb := range v.Mboxes {
		if mb.Name == recBox {
			continue // a refused APPEND may park the message in the recovery mailbox; it is not a target
		}
		fmt.Fprintf(&b, "[%s:", mb.Name)
		for _, m := range mb.Msgs {
			fmt.Fprintf(&b, " %d=%s", m.UID, m.Remote)
		}
		b.WriteString("]")
	}
	return b.String(), v, nil
}

func (r *c17run) Step(ev explore.Event) []explore.Violation {
	var out []explore.Violation
	for _, s := range r.sess {
		if !s.Dead {
			_ = r.w.Barrier(s)
			s.C.Cmd("NOOP")
		}
	}
	before, vb, err := r.worldString()
	if err != nil {
		r.broken = err.Error()
	}
	refused, accepted := false, false
	kind := ev.K
	// what the operation needs: messages added per target mailbox, mailboxes added
	needMsgs := map[string]int{}
	needBoxes := 0
	setBeyond := false
	countOf := func(name string) (int, uint32) {
		if mb := vb.Mbox(name); mb != nil {
			return len(mb.Msgs), mb.UIDNext
		}
		return 0, 1
	}
	switch ev.K {
	case "append":
		s := r.sess[ev.S]
		r.keyN++
		needMsgs[ev.A] = 1
		res := s.C.CmdLit("APPEND "+quote(ev.A), vconn.MakeLiteral(fmt.Sprintf("k%d", r.keyN)), "")
		if res.Err != nil {
			r.broken = res.Err.Error()
		}
		refused, accepted = res.Status == "NO", res.OK()
	case "cmd":
		s := r.sess[ev.S]
		kind = cmdKind(ev.A)
		f := strings.Fields(ev.A)
		switch strings.ToUpper(f[0]) {
		case "COPY", "MOVE":
			if d, ok := r.w.DumpOf(s); ok {
				uids := make([]uint32, len(d.Msgs))
				n := len(resolveSet(f[1], len(d.Msgs), uids, false))
				needMsgs[f[2]] = n
				// a sequence number beyond the message count makes the command fail for that reason alone
				for _, x := range strings.FieldsFunc(f[1], func(c rune) bool { return c == ':' || c == ',' }) {
					var v int
					if _, err := fmt.Sscanf(x, "%d", &v); err == nil && v > len(d.Msgs) {
						setBeyond = true
					}
				}
			}
		case "CREATE":
			name := f[1]
			parts := strings.Split(name, "/")
			for i := 1; i <= len(parts); i++ {
				if vb.Mbox(strings.Join(parts[:i], "/")) == nil {
					needBoxes++
				}
			}
		case "RENAME":
			parts := strings.Split(f[2], "/")
			for i := 1; i < len(parts); i++ {
				if vb.Mbox(strings.Join(parts[:i], "/")) == nil {
					needBoxes++
				}
			}
		}
		res := s.C.Cmd(ev.A)
		if res.Err != nil {
			if s.C.Closed {
				s.Dead = true
			} else {
				r.broken = res.Err.Error()
			}
		}
		refused, accepted = res.Status == "NO" || res.Status == "BAD", res.OK()
	case "conn":
		switch ev.A {
		case "create2:INBOX":
			r.keyN += 2
			sp := vconn.Spec{Kind: "MessagesCreated", Msgs: []string{fmt.Sprintf("c-k%d", r.keyN-1), fmt.Sprintf("c-k%d", r.keyN)}, Keys: []string{fmt.Sprintf("k%d", r.keyN-1), fmt.Sprintf("k%d", r.keyN)}, Mboxes: []string{"0"}}
			needMsgs["INBOX"] = 2
			res := r.w.Inject(0, sp)
			refused, accepted = res.Err != "", res.Err == "" && res.Done
			if accepted {
				r.w.Users[0].Conn.NoteRemote(sp)
			}
			kind = "conn-MessagesCreated"
		case "mailbox":
			r.nbox++
			sp := vconn.Spec{Kind: "MailboxCreated", Mbox: fmt.Sprintf("mb-n%d", r.nbox), Name: []string{fmt.Sprintf("n%d", r.nbox)}}
			needBoxes = 1
			res := r.w.Inject(0, sp)
			refused, accepted = res.Err != "", res.Err == "" && res.Done
			kind = "conn-MailboxCreated"
		}
	}
	for _, s := range r.sess {
		if !s.Dead {
			_ = r.w.Barrier(s)
		}
	}
	after, va, err := r.worldString()
	if err != nil {
		r.broken = err.Error()
	}
	if r.broken == "" {
		// 1. maxima
		if len(va.Mboxes) > int(r.p.MaxMailboxes) {
			out = append(out, r.viol("max-mailboxes", kind, fmt.Sprintf("%d mailboxes exist, configured maximum %d", len(va.Mboxes), r.p.MaxMailboxes)))
		}
		for _, mb := range va.Mboxes {
			if len(mb.Msgs) > int(r.p.MaxMessages) {
				out = append(out, r.viol("max-messages", kind, fmt.Sprintf("mailbox %s holds %d messages, configured maximum %d", mb.Name, len(mb.Msgs), r.p.MaxMessages)))
			}
			for _, m := range mb.Msgs {
				if m.UID > r.p.MaxUID {
					out = append(out, r.viol("max-uid", kind, fmt.Sprintf("mailbox %s has UID %d, configured maximum %d", mb.Name, m.UID, r.p.MaxUID)))
				}
			}
		}
		// 2. refusal without partial effect
		if refused && before != after {
			out = append(out, r.viol("partial-effect", kind, fmt.Sprintf("%s was refused but changed the mailboxes from %s to %s", ev, before, after)))
		}
		// 3. operations that fit with a margin of one are accepted
		fits := len(vb.Mboxes)+needBoxes+1 <= int(r.p.MaxMailboxes)
		for name, n := range needMsgs {
			cnt, next := countOf(name)
			if cnt+n+1 > int(r.p.MaxMessages) || int(next)-1+n+1 > int(r.p.MaxUID) {
				fits = false
			}
			if vb.Mbox(name) == nil {
				fits = false
			}
		}
		valid := len(needMsgs) > 0 || needBoxes > 0
		// COPY / MOVE of at least one existing message into an existing mailbox have no other reason to be refused
		copyMove := false
		if k := strings.TrimPrefix(kind, "UID "); k == "COPY" || k == "MOVE" {
			for _, n := range needMsgs {
				copyMove = n > 0 && !setBeyond
			}
		}
		if valid && fits && refused && !accepted && (kind == "APPEND" || kind == "append" || strings.HasPrefix(kind, "conn-") || copyMove) {
			out = append(out, r.viol("fitting-refused", kind, fmt.Sprintf("%s fits the limits with a margin (state %s, limits mailboxes=%d messages=%d uid=%d) but was refused", ev, before, r.p.MaxMailboxes, r.p.MaxMessages, r.p.MaxUID)))
		}
	}
	if r.broken != "" {
		out = append(out, explore.Violation{Prop: "ENGINE", Clause: "engine", Sig: "broken", Msg: r.broken})
	}
	return out
}

func (r *c17run) Canon() string {
	v, err := ReadDB(r.w, 0)
	if err != nil {
		return "DBERR"
	}
	var b strings.Builder
	b.WriteString(v.Canon())
	for i, s := range r.sess {
		d, _ := r.w.DumpOf(s)
		fmt.Fprintf(&b, " S%d dead=%v n=%d", i, s.Dead, len(d.Msgs))
		for _, m := range d.Msgs {
			fmt.Fprintf(&b, "(%d %s %v)", m.UID, m.Remote, m.Flags)
		}
	}
	fmt.Fprintf(&b, " keyN=%d nbox=%d", r.keyN, r.nbox)
	return b.String()
}

func (r *c17run) Extensions() []explore.Violation { return nil }
