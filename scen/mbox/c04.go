package mbox

import (
	"encoding/json"
	"fmt"
	"regexp"
	"sort"
	"strconv"
	"strings"

	"verif/engine/explore"
	"verif/engine/imapc"
	"verif/engine/vconn"
	"verif/engine/world"
)

// C04: UIDs strictly increasing and never reused; UIDVALIDITY only grows.

type C04Params struct {
	Alphabet []explore.Event `json:"alphabet"`
}

type boxHist struct {
	// per UIDVALIDITY value
	Seen    map[uint32]map[uint32]string // validity -> uid -> key
	Max     map[uint32]uint32            // validity -> highest uid ever observed
	Next    map[uint32]uint32            // validity -> last UIDNEXT observed
	LastV   uint32
	MaxV    uint32
	LastObj uint64 // internal mailbox id last seen under this name
	// ObjV: UIDVALIDITY each mailbox object had when it was last seen under this name. An object that comes BACK to a
	// name it held before (RENAME away and back) with the value it had then continues its own UID history (which the
	// per-value checks below keep judging); only a different object has to come with a greater value.
	ObjV map[uint64]uint32
}

type c04run struct {
	w      *world.World
	p      C04Params
	sess   []*world.Sess
	hist   map[string]*boxHist
	keyN   int
	broken string
}

func init() { explore.Register("c04", NewC04) }

func NewC04(raw json.RawMessage) (explore.Run, error) {
	var p C04Params
	if err := json.Unmarshal(raw, &p); err != nil {
		return nil, err
	}
	w, err := world.New(world.Config{Hold: false})
	if err != nil {
		return nil, err
	}
	r := &c04run{w: w, p: p, hist: map[string]*boxHist{}}
	spec := vconn.Spec{Kind: "MailboxCreated", Mbox: "mb-m2", Name: []string{"m2"}}
	if res := w.Inject(0, spec); res.Err != "" {
		w.Close()
		return nil, fmt.Errorf("setup: %+v", res)
	}
	w.Users[0].Conn.NoteRemote(spec)
	for _, k := range []string{"a", "b"} {
		sp := vconn.Spec{Kind: "MessagesCreated", Msg: "c-" + k, Key: k, Mboxes: []string{"0"}}
		if res := w.Inject(0, sp); res.Err != "" {
			w.Close()
			return nil, fmt.Errorf("setup: %+v", res)
		}
		w.Users[0].Conn.NoteRemote(sp)
	}
	if err := r.openSessions(); err != nil {
		w.Close()
		return nil, err
	}
	if v := r.observe("init", nil); len(v) > 0 {
		w.Close()
		return nil, fmt.Errorf("initial state violates: %+v", v)
	}
	return r, nil
}

func (r *c04run) openSessions() error {
	r.sess = nil
	// session 2 has nothing selected: it survives what invalidates selected states (a UIDVALIDITY bump, the deletion of
	// the selected mailbox) and issues namespace commands
	for _, sel := range []string{"INBOX", "m2", ""} {
		s, err := r.w.Connect()
		if err != nil {
			return err
		}
		if res := r.w.Login(s, 0); !res.OK() {
			return fmt.Errorf("login failed")
		}
		if sel != "" {
			if res := s.C.Cmd("SELECT " + sel); res.OK() {
				s.Selected = sel
			}
		}
		r.sess = append(r.sess, s)
	}
	return nil
}

func (r *c04run) Close() { r.w.Close() }
func (r *c04run) Enabled() []explore.Event {
	var out []explore.Event
	for _, e := range r.p.Alphabet {
		if (e.K == "cmd" || e.K == "append") && (e.S >= len(r.sess) || r.sess[e.S].Dead) {
			continue
		}
		out = append(out, e)
	}
	return out
}

var statusRe = regexp.MustCompile(`UIDNEXT (\d+)|UIDVALIDITY (\d+)`)
var appendUIDRe = regexp.MustCompile(`\[APPENDUID (\d+) (\d+)\]`)
var copyUIDRe = regexp.MustCompile(`\[COPYUID (\d+) (\S+) (\S+)\]`)

func (r *c04run) viol(clause, sig, msg string) explore.Violation {
	return explore.Violation{Prop: "C04", Clause: clause, Sig: sig, Msg: msg}
}

type announce struct {
	box      string
	validity uint32
	uidKey   map[uint32]string
}

func expandUIDs(s string) []uint32 {
	var out []uint32
	for _, part := range strings.Split(s, ",") {
		ab := strings.SplitN(part, ":", 2)
		a, _ := strconv.ParseUint(ab[0], 10, 32)
		b := a
		if len(ab) == 2 {
			b, _ = strconv.ParseUint(ab[1], 10, 32)
		}
		if a > b {
			a, b = b, a
		}
		for x := a; x <= b; x++ {
			out = append(out, uint32(x))
		}
	}
	return out
}

func (r *c04run) Step(ev explore.Event) []explore.Violation {
	var out []explore.Violation
	var ann *announce
	kind := ev.K
	switch ev.K {
	case "append":
		s := r.sess[ev.S]
		r.keyN++
		key := fmt.Sprintf("k%d", r.keyN)
		res := s.C.CmdLit("APPEND "+quote(ev.A), vconn.MakeLiteral(key), "")
		if res.Err != nil && s.C.Closed {
			s.Dead = true
		}
		if res.OK() {
			if m := appendUIDRe.FindStringSubmatch(res.Tagged.Text); m != nil {
				v, _ := strconv.ParseUint(m[1], 10, 32)
				u, _ := strconv.ParseUint(m[2], 10, 32)
				ann = &announce{box: ev.A, validity: uint32(v), uidKey: map[uint32]string{uint32(u): key}}
			} else {
				out = append(out, r.viol("appenduid-missing", "APPEND", "APPEND answered OK without APPENDUID: "+res.Tagged.Text))
			}
		}
	case "cmd":
		s := r.sess[ev.S]
		kind = cmdKind(ev.A)
		// keys of the session's view before the command (for COPYUID)
		var viewKey = map[uint32]string{}
		if d, ok := r.w.DumpOf(s); ok {
			for _, m := range d.Msgs {
				viewKey[m.UID] = r.keyOf(m.Remote)
			}
		}
		res := s.C.Cmd(ev.A)
		if res.Err != nil {
			if s.C.Closed {
				s.Dead = true // e.g. BYE after the selected mailbox was deleted
				break
			}
			r.broken = res.Err.Error()
			break
		}
		if m := copyUIDRe.FindStringSubmatch(res.Tagged.Text); m != nil && res.OK() {
			cm := copyRe.FindStringSubmatch(ev.A)
			v, _ := strconv.ParseUint(m[1], 10, 32)
			src, dst := expandUIDs(m[2]), expandUIDs(m[3])
			if len(src) != len(dst) || cm == nil {
				out = append(out, r.viol("copyuid-shape", kind, "malformed COPYUID: "+res.Tagged.Text))
			} else {
				ann = &announce{box: strings.Trim(cm[4], `"`), validity: uint32(v), uidKey: map[uint32]string{}}
				for i := range src {
					ann.uidKey[dst[i]] = viewKey[src[i]]
				}
			}
		}
		up := strings.ToUpper(ev.A)
		if strings.HasPrefix(up, "SELECT ") && res.OK() {
			s.Selected = strings.Fields(ev.A)[1]
		}
	case "conn":
		switch ev.A {
		case "create:INBOX":
			r.keyN++
			key := fmt.Sprintf("k%d", r.keyN)
			sp := vconn.Spec{Kind: "MessagesCreated", Msg: "c-" + key, Key: key, Mboxes: []string{"0"}}
			if res := r.w.Inject(0, sp); res.Err == "" {
				r.w.Users[0].Conn.NoteRemote(sp)
			}
		case "bump":
			r.w.Inject(0, vconn.Spec{Kind: "UIDValidityBumped"})
		}
	case "restart":
		if err := r.w.Restart(); err != nil {
			r.broken = "restart: " + err.Error()
			break
		}
		if err := r.openSessions(); err != nil {
			r.broken = "reopen: " + err.Error()
		}
	}
	for _, s := range r.sess {
		if s.Dead {
			r.w.Drop(s)
		}
		_ = r.w.Barrier(s)
	}
	if r.broken == "" {
		out = append(out, r.observe(kind, ann)...)
	}
	if r.broken != "" {
		out = append(out, explore.Violation{Prop: "ENGINE", Clause: "engine", Sig: "broken", Msg: r.broken})
	}
	return out
}

func (r *c04run) keyOf(remote string) string {
	if strings.HasPrefix(remote, "c-") {
		return strings.TrimPrefix(remote, "c-")
	}
	if rm, ok := r.w.Users[0].Conn.Messages[imapMsgID(remote)]; ok {
		if m := keyHdrRe.FindSubmatch(rm.Literal); m != nil {
			return string(m[1])
		}
	}
	return "?" + remote
}

// observe reads every mailbox through a fresh session and updates / checks the UID history.
func (r *c04run) observe(kind string, ann *announce) []explore.Violation {
	var out []explore.Violation
	v, err := ReadDB(r.w, 0)
	if err != nil {
		r.broken = err.Error()
		return out
	}
	s, err := r.w.Connect()
	if err != nil {
		r.broken = err.Error()
		return out
	}
	defer r.w.Logout(s)
	if res := r.w.Login(s, 0); !res.OK() {
		r.broken = "observe: login failed"
		return out
	}
	for _, mb := range v.Mboxes {
		if mb.Name == "Recovered Messages" {
			continue
		}
		st := s.C.Cmd("STATUS " + quote(mb.Name) + " (UIDNEXT UIDVALIDITY)")
		if !st.OK() {
			r.broken = fmt.Sprintf("STATUS %s: %v", mb.Name, st.Lines())
			return out
		}
		var next, val uint32
		for _, m := range statusRe.FindAllStringSubmatch(strings.Join(st.Lines(), " "), -1) {
			if m[1] != "" {
				x, _ := strconv.ParseUint(m[1], 10, 32)
				next = uint32(x)
			}
			if m[2] != "" {
				x, _ := strconv.ParseUint(m[2], 10, 32)
				val = uint32(x)
			}
		}
		h := r.hist[mb.Name]
		if h == nil {
			h = &boxHist{Seen: map[uint32]map[uint32]string{}, Max: map[uint32]uint32{}, Next: map[uint32]uint32{}}
			r.hist[mb.Name] = h
		}
		switch {
		case h.LastObj != 0 && h.LastObj != mb.ID:
			// the name was deleted and re-created (or taken over by a rename)
			if back, ok := h.ObjV[mb.ID]; val <= h.MaxV && !(ok && back == val) {
				out = append(out, r.viol("uidvalidity", kind+"/recreate", fmt.Sprintf("mailbox name %s re-created with UIDVALIDITY %d, earlier values went up to %d", mb.Name, val, h.MaxV)))
			}
		case h.LastObj == mb.ID && val != h.LastV:
			if val <= h.MaxV {
				out = append(out, r.viol("uidvalidity", kind+"/changed", fmt.Sprintf("mailbox %s changed UIDVALIDITY from %d to %d (max so far %d)", mb.Name, h.LastV, val, h.MaxV)))
			}
		}
		h.LastObj, h.LastV = mb.ID, val
		if h.ObjV == nil {
			h.ObjV = map[uint64]uint32{}
		}
		h.ObjV[mb.ID] = val
		if val > h.MaxV {
			h.MaxV = val
		}
		if h.Seen[val] == nil {
			h.Seen[val] = map[uint32]string{}
		}
		// listing
		if res := s.C.Cmd("EXAMINE " + quote(mb.Name)); !res.OK() {
			r.broken = fmt.Sprintf("EXAMINE %s: %v", mb.Name, res.Lines())
			return out
		}
		res := s.C.Cmd("UID FETCH 1:* (BODY.PEEK[HEADER.FIELDS (X-Verif-Key)])")
		var last uint32
		prevMax := h.Max[val]
		cur := map[uint32]string{}
		var rows []*imapc.FetchRow
		lit := map[int][]byte{}
		for _, u := range res.Untagged {
			if p := imapc.ParseUntagged(u); p.Kind == "FETCH" {
				rows = append(rows, p.Row)
				if len(u.Lits) > 0 {
					lit[p.Row.Seq] = u.Lits[0]
				}
			}
		}
		sortRows(rows)
		for _, row := range rows {
			key := "?"
			if m := keyHdrRe.FindSubmatch(lit[row.Seq]); m != nil {
				key = string(m[1])
			}
			if row.UID <= last {
				out = append(out, r.viol("order", kind, fmt.Sprintf("mailbox %s lists UID %d after %d", mb.Name, row.UID, last)))
			}
			last = row.UID
			cur[row.UID] = key
			if old, ok := h.Seen[val][row.UID]; ok {
				if old != key {
					out = append(out, r.viol("uid-reused", kind, fmt.Sprintf("mailbox %s (UIDVALIDITY %d): UID %d denoted message %s, now denotes %s", mb.Name, val, row.UID, old, key)))
				}
			} else {
				if row.UID <= prevMax {
					out = append(out, r.viol("uid-not-increasing", kind, fmt.Sprintf("mailbox %s (UIDVALIDITY %d): new message %s got UID %d although UID %d had already been assigned", mb.Name, val, key, row.UID, prevMax)))
				}
				h.Seen[val][row.UID] = key
			}
			if row.UID > h.Max[val] {
				h.Max[val] = row.UID
			}
		}
		if next <= h.Max[val] {
			out = append(out, r.viol("uidnext", kind, fmt.Sprintf("mailbox %s (UIDVALIDITY %d): UIDNEXT %d is not above the highest UID ever assigned (%d)", mb.Name, val, next, h.Max[val])))
		}
		if next < h.Next[val] {
			out = append(out, r.viol("uidnext-decreased", kind, fmt.Sprintf("mailbox %s (UIDVALIDITY %d): UIDNEXT went from %d to %d", mb.Name, val, h.Next[val], next)))
		}
		h.Next[val] = next
		if ann != nil && ann.box == mb.Name {
			if ann.validity != val {
				out = append(out, r.viol("announced-uidvalidity", kind, fmt.Sprintf("announced UIDVALIDITY %d for %s, mailbox has %d", ann.validity, mb.Name, val)))
			}
			for uid, key := range ann.uidKey {
				if cur[uid] != key {
					out = append(out, r.viol("announced-uid", kind, fmt.Sprintf("%s announced message %s under UID %d in %s, a fresh session finds %q there", kind, key, uid, mb.Name, cur[uid])))
				}
			}
		}
		s.C.Cmd("UNSELECT")
	}
	return out
}

func (r *c04run) Canon() string {
	v, err := ReadDB(r.w, 0)
	if err != nil {
		return "DBERR"
	}
	var b strings.Builder
	b.WriteString(v.Canon() + "\n")
	var names []string
	for n := range r.hist {
		names = append(names, n)
	}
	sort.Strings(names)
	for _, n := range names {
		h := r.hist[n]
		fmt.Fprintf(&b, "H[%s lastV=%d maxV=%d obj=%d", n, h.LastV, h.MaxV, h.LastObj)
		var objs []int
		for o := range h.ObjV {
			objs = append(objs, int(o))
		}
		sort.Ints(objs)
		for _, o := range objs {
			fmt.Fprintf(&b, " o%d@%d", o, h.ObjV[uint64(o)])
		}
		var vs []int
		for x := range h.Seen {
			vs = append(vs, int(x))
		}
		sort.Ints(vs)
		for _, x := range vs {
			var us []int
			for u := range h.Seen[uint32(x)] {
				us = append(us, int(u))
			}
			sort.Ints(us)
			fmt.Fprintf(&b, " v%d(max %d next %d):", x, h.Max[uint32(x)], h.Next[uint32(x)])
			for _, u := range us {
				fmt.Fprintf(&b, "%d=%s,", u, h.Seen[uint32(x)][uint32(u)])
			}
		}
		b.WriteString("]")
	}
	for i, s := range r.sess {
		d, _ := r.w.DumpOf(s)
		fmt.Fprintf(&b, " S%d dead=%v sel=%v n=%d", i, s.Dead, d.Selected, len(d.Msgs))
		for _, m := range d.Msgs {
			fmt.Fprintf(&b, "(%d %s)", m.UID, m.Remote)
		}
	}
	fmt.Fprintf(&b, " keyN=%d gen=%d", r.keyN, r.w.Gen.Value())
	return b.String()
}

func (r *c04run) Extensions() []explore.Violation { return nil }
