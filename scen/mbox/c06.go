package mbox

import (
	"encoding/json"
	"fmt"
	"sort"
	"strings"

	"verif/engine/explore"
	"verif/engine/imapc"
	"verif/engine/vconn"
	"verif/engine/world"
)

// C06: connector updates are acknowledged once, applied as described, idempotent on replay.

type C06Params struct {
	Alphabet []explore.Event `json:"alphabet"`
}

// remote-side reference model
type c06Msg struct {
	Key   string // literal key
	Flags map[string]bool
}

type c06Model struct {
	Boxes map[string]string   // remote mailbox id -> name
	Msgs  map[string]*c06Msg  // remote message id -> message
	In    map[string][]string // remote mailbox id -> ordered remote message ids
}

func (m *c06Model) inBox(mb, msg string) bool {
	for _, x := range m.In[mb] {
		if x == msg {
			return true
		}
	}
	return false
}

func (m *c06Model) removeFrom(mb, msg string) {
	var out []string
	for _, x := range m.In[mb] {
		if x != msg {
			out = append(out, x)
		}
	}
	m.In[mb] = out
}

func (m *c06Model) render() string {
	var names []string
	byName := map[string]string{}
	for id, n := range m.Boxes {
		names = append(names, n)
		byName[n] = id
	}
	sort.Strings(names)
	var b strings.Builder
	for _, n := range names {
		fmt.Fprintf(&b, "[%s:", n)
		for _, msg := range m.In[byName[n]] {
			mm := m.Msgs[msg]
			var fl []string
			for f := range mm.Flags {
				fl = append(fl, f)
			}
			sort.Strings(fl)
			fmt.Fprintf(&b, " %s%v", mm.Key, fl)
		}
		b.WriteString("]")
	}
	return b.String()
}

type c06run struct {
	w        *world.World
	p        C06Params
	o        *world.Sess
	model    *c06Model
	keyN     int
	broken   string
	lastSpec *vconn.Spec // last successfully applied connector update (for duplicate delivery)
	newEcho  int         // number of echoes produced by the last event
	invalid  bool        // the observer's state was invalidated (UIDVALIDITY bump, selected mailbox deleted)
	// unmodelled: an update outside the reference semantics (unknown / protected / stale ids) was accepted and had
	// an effect; the statement leaves that effect open, so effects are no longer compared on this path.
	unmodelled bool
	deleted    map[string]bool // ids of messages the remote deleted (re-using such an id is outside the model)
}

func init() { explore.Register("c06", NewC06) }

func NewC06(raw json.RawMessage) (explore.Run, error) {
	var p C06Params
	if err := json.Unmarshal(raw, &p); err != nil {
		return nil, err
	}
	w, err := world.New(world.Config{Hold: false})
	if err != nil {
		return nil, err
	}
	r := &c06run{w: w, p: p, model: &c06Model{Boxes: map[string]string{"0": "INBOX"}, Msgs: map[string]*c06Msg{}, In: map[string][]string{}}}
	setup := []vconn.Spec{
		{Kind: "MailboxCreated", Mbox: "mb-m2", Name: []string{"m2"}},
		{Kind: "MessagesCreated", Msg: "c-a", Key: "a", Mboxes: []string{"0"}, Flags: []string{`\Seen`}},
		{Kind: "MessagesCreated", Msg: "c-b", Key: "b", Mboxes: []string{"0"}},
	}
	for _, sp := range setup {
		if res := w.Inject(0, sp); res.Err != "" || !res.Done {
			w.Close()
			return nil, fmt.Errorf("setup %v: %+v", sp, res)
		}
		w.Users[0].Conn.NoteRemote(sp)
		r.apply(sp)
	}
	s, err := w.Connect()
	if err != nil {
		w.Close()
		return nil, err
	}
	w.Login(s, 0)
	if res := s.C.Cmd("SELECT INBOX"); !res.OK() {
		w.Close()
		return nil, fmt.Errorf("select failed")
	}
	r.o = s
	return r, nil
}

func (r *c06run) Close() { r.w.Close() }

func lowerSet(fl []string) map[string]bool {
	out := map[string]bool{}
	for _, f := range fl {
		out[strings.ToLower(f)] = true
	}
	return out
}

// apply: reference semantics of a VALID update.
func (r *c06run) apply(sp vconn.Spec) {
	m := r.model
	switch sp.Kind {
	case "MailboxCreated":
		if _, ok := m.Boxes[sp.Mbox]; !ok {
			m.Boxes[sp.Mbox] = strings.Join(sp.Name, "/")
		}
	case "MailboxUpdated":
		if _, ok := m.Boxes[sp.Mbox]; ok {
			m.Boxes[sp.Mbox] = strings.Join(sp.Name, "/")
		}
	case "MailboxDeleted":
		delete(m.Boxes, sp.Mbox)
		delete(m.In, sp.Mbox)
	case "MessagesCreated":
		ids, keys := sp.Msgs, sp.Keys
		if sp.Msg != "" {
			ids, keys = []string{sp.Msg}, []string{sp.Key}
		}
		for i, id := range ids {
			if _, ok := m.Msgs[id]; !ok {
				key := id
				if i < len(keys) && keys[i] != "" {
					key = keys[i]
				}
				m.Msgs[id] = &c06Msg{Key: key, Flags: lowerSet(sp.Flags)}
			}
			for _, mb := range sp.Mboxes {
				if _, ok := m.Boxes[mb]; ok && !m.inBox(mb, id) {
					m.In[mb] = append(m.In[mb], id)
				}
			}
		}
	case "MessageMailboxesUpdated":
		if mm, ok := m.Msgs[sp.Msg]; ok {
			want := map[string]bool{}
			for _, mb := range sp.Mboxes {
				want[mb] = true
			}
			for mb := range m.Boxes {
				if want[mb] && !m.inBox(mb, sp.Msg) {
					m.In[mb] = append(m.In[mb], sp.Msg)
				}
				if !want[mb] && m.inBox(mb, sp.Msg) {
					m.removeFrom(mb, sp.Msg)
				}
			}
			mm.Flags = lowerSet(sp.Flags)
		}
	case "MessageFlagsUpdated":
		if mm, ok := m.Msgs[sp.Msg]; ok {
			mm.Flags = lowerSet(sp.Flags)
		}
	case "MessageDeleted":
		for mb := range m.Boxes {
			m.removeFrom(mb, sp.Msg)
		}
		delete(m.Msgs, sp.Msg)
		if r.deleted == nil {
			r.deleted = map[string]bool{}
		}
		r.deleted[sp.Msg] = true
	case "MessageUpdated":
		mm, ok := m.Msgs[sp.Msg]
		key := sp.Key
		if !ok {
			if !sp.Allow {
				return
			}
			if key == "" {
				key = sp.Msg
			}
			m.Msgs[sp.Msg] = &c06Msg{Key: key, Flags: lowerSet(sp.Flags)}
			for _, mb := range sp.Mboxes {
				if _, ok := m.Boxes[mb]; ok {
					m.In[mb] = append(m.In[mb], sp.Msg)
				}
			}
			return
		}
		if key != "" && key != mm.Key {
			// new literal: the message is replaced (removed everywhere, re-added at the end)
			for mb := range m.Boxes {
				m.removeFrom(mb, sp.Msg)
			}
			mm.Key = key
			mm.Flags = lowerSet(sp.Flags)
			for _, mb := range sp.Mboxes {
				if _, ok := m.Boxes[mb]; ok {
					m.In[mb] = append(m.In[mb], sp.Msg)
				}
			}
			return
		}
		want := map[string]bool{}
		for _, mb := range sp.Mboxes {
			want[mb] = true
		}
		for mb := range m.Boxes {
			if want[mb] && !m.inBox(mb, sp.Msg) {
				m.In[mb] = append(m.In[mb], sp.Msg)
			}
			if !want[mb] && m.inBox(mb, sp.Msg) {
				m.removeFrom(mb, sp.Msg)
			}
		}
		mm.Flags = lowerSet(sp.Flags)
	case "MessageIDChanged":
		if mm, ok := m.Msgs[sp.Msg]; ok && sp.NewID != "" {
			delete(m.Msgs, sp.Msg)
			m.Msgs[sp.NewID] = mm
			for mb := range m.In {
				for i, x := range m.In[mb] {
					if x == sp.Msg {
						m.In[mb][i] = sp.NewID
					}
				}
			}
		}
	case "MailboxIDChanged":
		if n, ok := m.Boxes[sp.Mbox]; ok && sp.NewID != "" {
			delete(m.Boxes, sp.Mbox)
			m.Boxes[sp.NewID] = n
			m.In[sp.NewID] = m.In[sp.Mbox]
			delete(m.In, sp.Mbox)
		}
	}
}

// valid reports whether the update refers only to known objects and is not about the protected mailbox.
func (r *c06run) valid(sp vconn.Spec) bool {
	m := r.model
	if r.deleted[sp.Msg] {
		return false
	}
	for _, id := range sp.Msgs {
		if r.deleted[id] {
			return false
		}
	}
	const recovery = "GLUON-INTERNAL-RECOVERY-MBOX"
	if sp.Mbox == recovery {
		return false
	}
	for _, mb := range sp.Mboxes {
		if mb == recovery {
			return false
		}
		if _, ok := m.Boxes[mb]; !ok && !(sp.Kind == "MessagesCreated" && sp.Ignore) {
			return false
		}
	}
	switch sp.Kind {
	case "MailboxUpdated", "MailboxDeleted", "MailboxIDChanged":
		_, ok := m.Boxes[sp.Mbox]
		if ok && sp.Kind == "MailboxUpdated" {
			name := strings.Join(sp.Name, "/")
			for id, n := range m.Boxes {
				if n == name && id != sp.Mbox {
					return false // name clash: not a valid update
				}
			}
		}
		return ok
	case "MailboxCreated":
		name := strings.Join(sp.Name, "/")
		for id, n := range m.Boxes {
			if n == name && id != sp.Mbox {
				return false
			}
		}
		return true
	case "MessageMailboxesUpdated", "MessageFlagsUpdated", "MessageDeleted", "MessageIDChanged":
		_, ok := m.Msgs[sp.Msg]
		return ok
	case "MessageUpdated":
		_, ok := m.Msgs[sp.Msg]
		return ok || sp.Allow
	}
	return true
}

func (r *c06run) Enabled() []explore.Event {
	var out []explore.Event
	for _, e := range r.p.Alphabet {
		switch e.K {
		case "echo":
			if len(r.w.Users[0].Conn.Echoes) == 0 {
				continue
			}
		case "cmd", "append":
			if r.o.Dead || r.invalid {
				continue
			}
		}
		out = append(out, e)
	}
	return out
}

// resolve fills the placeholders of an update template: $int:<remote msg id> / $intmb:<remote mbox id>.
func (r *c06run) resolve(sp vconn.Spec) (vconn.Spec, bool) {
	v, err := ReadDB(r.w, 0)
	if err != nil {
		return sp, false
	}
	if sp.Kind == "MessageIDChanged" {
		for _, mb := range v.Mboxes {
			for _, m := range mb.Msgs {
				if m.Remote == sp.Msg {
					sp.IntID = m.Internal
					return sp, true
				}
			}
		}
		sp.IntID = "00000000-0000-0000-0000-000000000000"
		return sp, true
	}
	if sp.Kind == "MailboxIDChanged" {
		for _, mb := range v.Mboxes {
			if mb.Remote == sp.Mbox {
				sp.IntMbox = mb.ID
				return sp, true
			}
		}
		sp.IntMbox = 9999
		return sp, true
	}
	return sp, true
}

func (r *c06run) viol(clause, sig, msg string) explore.Violation {
	return explore.Violation{Prop: "C06", Clause: clause, Sig: sig, Msg: msg}
}

func (r *c06run) Step(ev explore.Event) []explore.Violation {
	var out []explore.Violation
	echoBefore := len(r.w.Users[0].Conn.Echoes)
	r.lastSpec = nil
	switch ev.K {
	case "conn":
		sp, _ := r.resolve(*ev.Spec)
		isValid := r.valid(sp)
		res := r.w.Inject(0, sp)
		switch {
		case res.TimedOut:
			out = append(out, r.viol("ack", "never/"+sp.Kind, "update never acknowledged: "+sp.String()))
			r.broken = "update not acknowledged"
		case isValid && res.Err != "":
			out = append(out, r.viol("valid-update-failed", sp.Kind, fmt.Sprintf("valid update %s was acknowledged with error %q", sp.String(), res.Err)))
		case res.Err == "":
			if isValid {
				r.apply(sp)
				r.w.Users[0].Conn.NoteRemote(sp)
				cp := sp
				r.lastSpec = &cp
			} else if _, got, err := r.freshAll(); err == nil && got != r.model.render() {
				r.unmodelled = true
			}
		}
		if sp.Kind == "UIDValidityBumped" && res.Err == "" {
			r.invalid = true
		}
		// later updates keep being processed
		if nres := r.w.Inject(0, vconn.Spec{Kind: "Noop"}); !nres.Done || nres.Err != "" {
			out = append(out, r.viol("stuck", sp.Kind, fmt.Sprintf("after %s a following Noop update was not processed: %+v", sp.String(), nres)))
		}
	case "echo":
		if sp, ok := r.w.Users[0].Conn.PopEcho(0); ok {
			res := r.w.Inject(0, sp)
			if res.TimedOut {
				out = append(out, r.viol("ack", "never/echo-"+sp.Kind, "echo never acknowledged: "+sp.String()))
			}
			if res.Err == "" && r.valid(sp) {
				r.apply(sp)
			}
		}
	case "cmd":
		// the observer's view is brought up to date first (stale views are C01/C02/C05's subject)
		_ = r.w.Barrier(r.o)
		r.o.C.Cmd("NOOP")
		res := r.o.C.Cmd(ev.A)
		if res.Err != nil {
			if r.o.C.Closed {
				r.o.Dead = true
			} else {
				r.broken = res.Err.Error()
			}
		} else if res.OK() {
			r.modelClient(ev.A)
		}
	case "append":
		r.keyN++
		key := fmt.Sprintf("k%d", r.keyN)
		res := r.o.C.CmdLit("APPEND "+quote(ev.A), vconn.MakeLiteral(key), "")
		if res.Err != nil && r.o.C.Closed {
			r.o.Dead = true
		}
		if res.OK() {
			id := fmt.Sprintf("rm%d", len(r.w.Users[0].Conn.Messages))
			// the connector assigned the newest id
			for rid := range r.w.Users[0].Conn.Messages {
				if _, ok := r.model.Msgs[string(rid)]; !ok && strings.HasPrefix(string(rid), "rm") {
					id = string(rid)
				}
			}
			r.model.Msgs[id] = &c06Msg{Key: key, Flags: map[string]bool{}}
			for mb, n := range r.model.Boxes {
				if n == ev.A {
					r.model.In[mb] = append(r.model.In[mb], id)
				}
			}
		}
	}
	r.newEcho = len(r.w.Users[0].Conn.Echoes) - echoBefore
	if r.newEcho < 0 {
		r.newEcho = 0
	}
	if !r.o.Dead {
		_ = r.w.Barrier(r.o)
		if d, ok := r.w.DumpOf(r.o); ok && d.Invalid {
			r.invalid = true
		}
	}
	if r.broken == "" && !r.unmodelled {
		out = append(out, r.compare(ev)...)
	}
	if r.broken != "" {
		out = append(out, explore.Violation{Prop: "ENGINE", Clause: "engine", Sig: "broken", Msg: r.broken})
	}
	return out
}

// modelClient applies the effect of the observer's own commands to the remote model (the connector is told).
func (r *c06run) modelClient(text string) {
	keys, _ := r.viewIDs()
	up := strings.ToUpper(text)
	switch {
	case storeRe.MatchString(text):
		m := storeRe.FindStringSubmatch(text)
		uids := make([]uint32, len(keys))
		for _, i := range resolveSet(m[2], len(keys), uids, false) {
			if mm, ok := r.model.Msgs[keys[i]]; ok {
				for _, f := range strings.Fields(strings.ToLower(m[5])) {
					switch m[3] {
					case "+":
						mm.Flags[f] = true
					case "-":
						delete(mm.Flags, f)
					}
				}
			}
		}
	case copyRe.MatchString(text):
		m := copyRe.FindStringSubmatch(text)
		uids := make([]uint32, len(keys))
		var dst string
		for id, n := range r.model.Boxes {
			if n == strings.Trim(m[4], `"`) {
				dst = id
			}
		}
		for _, i := range resolveSet(m[3], len(keys), uids, false) {
			id := keys[i]
			if strings.EqualFold(m[2], "MOVE") {
				r.model.removeFrom("0", id)
			}
			r.model.removeFrom(dst, id)
			r.model.In[dst] = append(r.model.In[dst], id)
		}
	case up == "NOOP":
	}
}

// viewIDs: remote ids of the observer's snapshot in sequence order (taken before a command is modelled, i.e. the
// snapshot after the command minus nothing — the commands used here do not change membership of the view before
// the flush, so the pre-command view is reconstructed from the model's INBOX order).
func (r *c06run) viewIDs() ([]string, bool) {
	return append([]string{}, r.model.In["0"]...), true
}

func (r *c06run) freshAll() (string, string, error) {
	v, err := ReadDB(r.w, 0)
	if err != nil {
		return "", "", err
	}
	var withUID, noUID strings.Builder
	for _, mb := range v.Mboxes {
		if mb.Name == "Recovered Messages" {
			continue
		}
		rows, err := FreshBox(r.w, mb.Name, false)
		if err != nil {
			return "", "", err
		}
		fmt.Fprintf(&withUID, "[%s:", mb.Name)
		fmt.Fprintf(&noUID, "[%s:", mb.Name)
		for _, f := range rows {
			var fl []string
			for _, x := range f.Flags {
				if x != `\deleted` || true {
					fl = append(fl, x)
				}
			}
			fmt.Fprintf(&withUID, " %d=%s%v", f.UID, f.Key, fl)
			fmt.Fprintf(&noUID, " %s%v", f.Key, fl)
		}
		withUID.WriteString("]")
		noUID.WriteString("]")
	}
	return withUID.String(), noUID.String(), nil
}

func (r *c06run) compare(ev explore.Event) []explore.Violation {
	_, got, err := r.freshAll()
	if err != nil {
		r.broken = err.Error()
		return nil
	}
	want := r.model.render()
	if got != want {
		kind := ev.K
		if ev.Spec != nil {
			kind = ev.Spec.Kind
		} else if ev.K == "cmd" {
			kind = "client-" + cmdKind(ev.A)
		}
		return []explore.Violation{r.viol("effect", kind, fmt.Sprintf("after %s the mailboxes are %s, the update semantics say %s", ev, got, want))}
	}
	return nil
}

func (r *c06run) Canon() string {
	v, err := ReadDB(r.w, 0)
	if err != nil {
		return "DBERR"
	}
	d, _ := r.w.DumpOf(r.o)
	var b strings.Builder
	b.WriteString(v.Canon() + "\n" + r.model.render() + "\n" + r.w.Users[0].Conn.Canon())
	var del []string
	for k := range r.deleted {
		del = append(del, k)
	}
	sort.Strings(del)
	fmt.Fprintf(&b, "\ndeleted=%v unmodelled=%v O dead=%v invalid=%v sel=%v n=%d res=%d keyN=%d newEcho=%d last=%v", del, r.unmodelled, r.o.Dead, r.invalid, d.Selected, len(d.Msgs), len(d.Responders), r.keyN, r.newEcho, r.lastSpec)
	for _, m := range d.Msgs {
		fmt.Fprintf(&b, "(%d %s %v)", m.UID, m.Remote, m.Flags)
	}
	return b.String()
}

// restatements: updates that only restate the current state.
func (r *c06run) restatements() []vconn.Spec {
	var out []vconn.Spec
	c := r.w.Users[0].Conn
	// (a) echoes of the last client action
	// (only when no older echo is still on its way: a connector delivers echoes in order, and the echo of the last
	// action describes the remote state INCLUDING the older actions, so ahead of their echoes it is not a restatement)
	n := len(c.Echoes)
	for i := n - r.newEcho; n == r.newEcho && i < n && i >= 0; i++ {
		out = append(out, c.Echoes[i])
	}
	// (b) duplicate delivery of the last applied update
	if r.lastSpec != nil {
		switch r.lastSpec.Kind {
		case "UIDValidityBumped", "MessageIDChanged", "MailboxIDChanged", "Noop":
			// a second bump is a new bump; id changes refer to the old id
		default:
			out = append(out, *r.lastSpec)
		}
	}
	// (c) synthetic restatements of the model
	if r.unmodelled {
		return out
	}
	m := r.model
	var ids []string
	for id := range m.Msgs {
		ids = append(ids, id)
	}
	sort.Strings(ids)
	for _, id := range ids {
		var mbs []string
		for mb := range m.Boxes {
			if m.inBox(mb, id) {
				mbs = append(mbs, mb)
			}
		}
		sort.Strings(mbs)
		var fl []string
		for f := range m.Msgs[id].Flags {
			fl = append(fl, canonFlag(f))
		}
		sort.Strings(fl)
		if fl == nil {
			fl = []string{}
		}
		if mbs == nil {
			mbs = []string{}
		}
		out = append(out, vconn.Spec{Kind: "MessageFlagsUpdated", Msg: id, Flags: fl})
		out = append(out, vconn.Spec{Kind: "MessageMailboxesUpdated", Msg: id, Mboxes: mbs, Flags: fl})
		if len(mbs) > 0 {
			out = append(out, vconn.Spec{Kind: "MessagesCreated", Msg: id, Key: m.Msgs[id].Key, Mboxes: mbs, Flags: fl})
			out = append(out, vconn.Spec{Kind: "MessageUpdated", Msg: id, Key: m.Msgs[id].Key, Mboxes: mbs, Flags: fl})
		}
	}
	var mids []string
	for id := range m.Boxes {
		mids = append(mids, id)
	}
	sort.Strings(mids)
	for _, id := range mids {
		out = append(out, vconn.Spec{Kind: "MailboxCreated", Mbox: id, Name: strings.Split(m.Boxes[id], "/")})
		out = append(out, vconn.Spec{Kind: "MailboxUpdated", Mbox: id, Name: strings.Split(m.Boxes[id], "/")})
	}
	return out
}

// Extensions: re-deliver every restatement; nothing a client can observe may change.
func (r *c06run) Extensions() []explore.Violation {
	var out []explore.Violation
	if r.broken != "" {
		return out
	}
	// the observer first takes in everything that is already pending
	if !r.o.Dead && !r.invalid {
		r.o.C.Cmd("NOOP")
	}
	before, _, err := r.freshAll()
	if err != nil {
		return out
	}
	for _, sp := range r.restatements() {
		res := r.w.Inject(0, sp)
		if res.TimedOut {
			out = append(out, r.viol("ack", "never/restate-"+sp.Kind, "restatement never acknowledged: "+sp.String()))
			return out
		}
		if res.Err != "" {
			out = append(out, r.viol("restatement-failed", sp.Kind, fmt.Sprintf("re-delivering %s (restates the current state) was acknowledged with error %q", sp.String(), res.Err)))
			continue
		}
		if !r.o.Dead && !r.invalid {
			_ = r.w.Barrier(r.o)
			res := r.o.C.Cmd("NOOP")
			for _, u := range res.Untagged {
				if p := imapc.ParseUntagged(u); p.Kind == "EXISTS" || p.Kind == "EXPUNGE" || p.Kind == "FETCH" {
					out = append(out, r.viol("replay-visible", sp.Kind, fmt.Sprintf("re-delivering %s (restates the current state) made the session receive %q", sp.String(), u.Text)))
				}
			}
		}
		after, _, err := r.freshAll()
		if err != nil {
			return out
		}
		if after != before {
			out = append(out, r.viol("replay-changed", sp.Kind, fmt.Sprintf("re-delivering %s (restates the current state) changed the mailboxes from %s to %s", sp.String(), before, after)))
			before = after
		}
	}
	return out
}
