package mbox

import (
	"fmt"
	"regexp"
	"sort"
	"strings"

	"github.com/ProtonMail/gluon/imap"

	"verif/engine/explore"
	"verif/engine/imapc"
)

func imapMsgID(s string) imap.MessageID { return imap.MessageID(s) }

var (
	uuidRe    = regexp.MustCompile(`[0-9a-f]{8}-[0-9a-f]{4}-[0-9a-f]{4}-[0-9a-f]{4}-[0-9a-f]{12}(\.\.\.)?`)
	stateIDRe = regexp.MustCompile(`StateID = (\d+)`)
	msgListRe = regexp.MustCompile(`messages = \[([^\]]*)\]`)
)

// Canon is the canonical state: authoritative mailboxes, every session's snapshot / queued responders / held
// updates / mirror, the connector model and the oracle bookkeeping; random ids are renamed.
func (r *run) Canon() string {
	var b strings.Builder
	v, err := ReadDB(r.w, 0)
	if err != nil {
		return "DBERR " + err.Error()
	}
	i2r := v.InternalToRemote()
	sid := map[string]string{}
	for i, s := range r.sess {
		if s.s.StateID != 0 {
			sid[fmt.Sprint(s.s.StateID)] = fmt.Sprintf("S%d", i)
		}
	}
	dumps := map[int64]int{}
	all := r.w.Dump(0)
	for i, d := range all {
		dumps[d.StateID] = i
		for _, m := range d.Msgs {
			if _, ok := i2r[m.Internal]; !ok {
				i2r[m.Internal] = m.Remote
			}
		}
	}
	norm := func(s string) string {
		s = uuidRe.ReplaceAllStringFunc(s, func(u string) string {
			u = strings.TrimSuffix(u, "...")
			if rem, ok := i2r[u]; ok {
				return "<" + rem + ">"
			}
			return "<gone>"
		})
		s = stateIDRe.ReplaceAllStringFunc(s, func(m string) string {
			n := stateIDRe.FindStringSubmatch(m)[1]
			if x, ok := sid[n]; ok {
				return "StateID = " + x
			}
			return "StateID = S?"
		})
		s = msgListRe.ReplaceAllStringFunc(s, func(m string) string {
			ids := strings.Fields(msgListRe.FindStringSubmatch(m)[1])
			sort.Strings(ids)
			return "messages = [" + strings.Join(ids, " ") + "]"
		})
		return s
	}
	b.WriteString("DB " + v.Canon() + "\n")
	for i, s := range r.sess {
		fmt.Fprintf(&b, "S%d ", i)
		if s.s.Dead {
			b.WriteString("dead\n")
			continue
		}
		di, ok := dumps[s.s.StateID]
		if !ok {
			b.WriteString("nostate\n")
			continue
		}
		d := all[di]
		name := "-"
		if d.Selected {
			if mb := v.MboxByID(d.MboxID); mb != nil {
				name = mb.Name
			} else {
				name = "<deleted mailbox>"
			}
		}
		fmt.Fprintf(&b, "sel=%s ro=%v idle=%v invalid=%v snap[", name, d.ReadOnly, d.Idle, d.Invalid)
		for _, m := range d.Msgs {
			fl := append([]string(nil), m.Flags...)
			for k := range fl {
				fl[k] = strings.ToLower(fl[k])
			}
			sort.Strings(fl)
			fmt.Fprintf(&b, "(%d %s %v)", m.UID, m.Remote, fl)
		}
		b.WriteString("] res[")
		resp := make([]string, len(d.Responders))
		for k, x := range d.Responders {
			resp[k] = norm(x)
		}
		// The order of consecutive Fetch responders (one per message of a single flag update) follows an
		// unordered database result; it only permutes response lines, so runs of them are sorted.
		for a := 0; a < len(resp); {
			e := a
			for e < len(resp) && strings.HasPrefix(resp[e], "Fetch:") == strings.HasPrefix(resp[a], "Fetch:") {
				e++
			}
			if strings.HasPrefix(resp[a], "Fetch:") {
				sort.Strings(resp[a:e])
			}
			a = e
		}
		for _, x := range resp {
			b.WriteString(x + ";")
		}
		b.WriteString("] held[")
		for _, x := range d.Held {
			b.WriteString(norm(x) + ";")
		}
		fmt.Fprintf(&b, "] mir=%s\n", s.mir.Canon())
	}
	b.WriteString("CONN " + r.w.Users[0].Conn.Canon() + "\n")
	fmt.Fprintf(&b, "keyN=%d lastRemoved=%s/%s tainted=%s ooo=%s", r.keyN, r.lastRemoved, r.lastRemMbox, r.taintCanon(), r.oooCanon())
	return b.String()
}

// freshRows opens a new session, EXAMINEs the mailbox and returns its rows.
func (r *run) freshRows(mbox string) ([]*imapc.FetchRow, error) {
	s, err := r.w.Connect()
	if err != nil {
		return nil, err
	}
	if res := r.w.Login(s, 0); !res.OK() {
		return nil, fmt.Errorf("fresh login: %v", res.Lines())
	}
	defer r.w.Logout(s)
	if res := s.C.Cmd("EXAMINE " + quote(mbox)); !res.OK() {
		return nil, fmt.Errorf("fresh examine %s: %v", mbox, res.Lines())
	}
	res := s.C.Cmd(probeCmd)
	if !res.OK() {
		return nil, fmt.Errorf("fresh fetch: %v", res.Lines())
	}
	var rows []*imapc.FetchRow
	for _, u := range res.Untagged {
		if p := imapc.ParseUntagged(u); p.Kind == "FETCH" {
			rows = append(rows, p.Row)
		}
	}
	sortRows(rows)
	return rows, nil
}

func rowsString(rows []*imapc.FetchRow) string {
	var b strings.Builder
	for _, r := range rows {
		fmt.Fprintf(&b, "(%d %v)", r.UID, stripRecent(r.Flags))
	}
	return b.String()
}

// classify describes how the long-lived session's rows differ from the fresh rows.
func classify(own, fresh []*imapc.FetchRow) (string, string, uint32) {
	ou, fu := map[uint32]*imapc.FetchRow{}, map[uint32]*imapc.FetchRow{}
	for _, x := range own {
		ou[x.UID] = x
	}
	for _, x := range fresh {
		fu[x.UID] = x
	}
	for _, x := range own {
		if _, ok := fu[x.UID]; !ok {
			return "removed-message-visible", fmt.Sprintf("UID %d is in the session's view but not in the mailbox", x.UID), x.UID
		}
	}
	for _, x := range fresh {
		if _, ok := ou[x.UID]; !ok {
			return "message-missing", fmt.Sprintf("UID %d is in the mailbox but not in the session's view", x.UID), x.UID
		}
	}
	for i := range own {
		if own[i].UID != fresh[i].UID {
			return "order", "same UIDs in different order", 0
		}
	}
	for i := range own {
		a, b := stripRecent(own[i].Flags), stripRecent(fresh[i].Flags)
		if strings.Join(a, " ") != strings.Join(b, " ") {
			as, bs := map[string]bool{}, map[string]bool{}
			for _, f := range a {
				as[f] = true
			}
			for _, f := range b {
				bs[f] = true
			}
			var miss, extra []string
			for _, f := range b {
				if !as[f] {
					miss = append(miss, f)
				}
			}
			for _, f := range a {
				if !bs[f] {
					extra = append(extra, f)
				}
			}
			sig := "flags"
			if len(miss) > 0 {
				sig += "-missed"
			}
			if len(extra) > 0 {
				sig += "-stale"
			}
			return sig, fmt.Sprintf("UID %d: session sees %v, mailbox has %v", own[i].UID, a, b), own[i].UID
		}
	}
	return "", "", 0
}

// Extensions: PROBE every selected session (C01), then QUIESCE: deliver everything, NOOP, probe, compare with a
// fresh session (C02). The world is discarded afterwards.
func (r *run) Extensions() []explore.Violation {
	return r.relabel(r.extensions())
}

func (r *run) extensions() []explore.Violation {
	var out []explore.Violation
	if r.broken != "" {
		return out
	}
	if r.orc["c01"] || r.orc["c05"] {
		for i, s := range r.sess {
			if s.s.Dead || s.s.Idle || !r.selected(i) {
				continue
			}
			out = append(out, r.probe(i)...)
		}
		if len(out) > 0 {
			return out
		}
	}
	if !r.orc["c02"] {
		return out
	}
	// QUIESCE
	for i, s := range r.sess {
		if s.s.Idle && !s.s.Dead {
			out = append(out, r.Step(explore.Event{K: "done", S: i})...)
		}
	}
	pushed, err := r.w.DrainAll()
	if err != nil {
		r.broken = "drain: " + err.Error()
		return append(out, r.viol("ENGINE", "engine", "broken", r.broken))
	}
	_ = pushed
	for _, s := range r.sess {
		_ = r.w.Barrier(s.s)
	}
	r.noteOutOfOrder()
	for i, s := range r.sess {
		if s.s.Dead || !r.selected(i) {
			continue
		}
		d, _ := r.w.DumpOf(s.s)
		if d.Invalid {
			continue
		}
		res := s.s.C.Cmd("NOOP")
		if res.Err != nil {
			continue
		}
		out = append(out, r.afterCommand(i, "NOOP", res, nil)...)
		_ = r.w.Barrier(s.s)
		r.noteOutOfOrder()
		pr := s.s.C.Cmd(probeCmd)
		if !pr.OK() {
			continue
		}
		var rows []*imapc.FetchRow
		for _, u := range pr.Untagged {
			if p := imapc.ParseUntagged(u); p.Kind == "FETCH" && strings.Contains(u.Text, "RFC822.SIZE") {
				rows = append(rows, p.Row)
			}
		}
		sortRows(rows)
		v, err := ReadDB(r.w, 0)
		if err != nil {
			continue
		}
		mb := v.MboxByID(d.MboxID)
		if mb == nil {
			continue // the selected mailbox was deleted
		}
		fresh, err := r.freshRows(mb.Name)
		if err != nil {
			r.broken = err.Error()
			continue
		}
		if sig, msg, uid := classify(rows, fresh); sig != "" {
			// Which message is it? (from the session's view or from the mailbox)
			key := ""
			if d2, ok := r.w.DumpOf(s.s); ok {
				for _, m := range d2.Msgs {
					if m.UID == uid {
						key = m.Remote
					}
				}
			}
			if key == "" {
				if v2, err := ReadDB(r.w, 0); err == nil {
					if mb2 := v2.MboxByID(d.MboxID); mb2 != nil {
						for _, m := range mb2.Msgs {
							if m.UID == uid {
								key = m.Remote
							}
						}
					}
				}
			}
			clause := "converge"
			if key != "" && r.tainted[key] {
				msg = "[converge/" + sig + "] " + msg + " [a session had acted on this message while an older update about it was still undelivered to it]"
				clause, sig = "ordering-defect", "+stale-own-action"
			}
			out = append(out, r.viol("C02", clause, sig, fmt.Sprintf("session %d after quiescence + NOOP: %s; session rows %s, fresh rows %s", i, msg, rowsString(rows), rowsString(fresh))))
		}
	}
	if r.broken != "" {
		out = append(out, r.viol("ENGINE", "engine", "broken", r.broken))
	}
	return out
}
