package mbox

import (
	"bytes"
	"encoding/json"
	"fmt"
	"github.com/ProtonMail/gluon/imap"
	"github.com/ProtonMail/gluon/limits"
	"sort"
	"strconv"
	"strings"

	"verif/engine/explore"
	"verif/engine/vconn"
	"verif/engine/world"
)

// C20: a message handed to APPEND is never silently lost (recovery mailbox).

type C20Params struct {
	Alphabet  []explore.Event `json:"alphabet"`
	MaxFaults int             `json:"max_faults"`
	// MaxMessages > 0: a per-mailbox message limit is configured (the recovery mailbox obeys it too: a rejected
	// message is kept while there is room). FailAlways: the remote refuses every message creation.
	MaxMessages uint32 `json:"max_messages,omitempty"`
	FailAlways  bool   `json:"fail_always,omitempty"`
}

type c20run struct {
	p       C20Params
	w       *world.World
	o       *world.Sess
	boxes   map[string][]string // model: mailbox -> keys in order
	rec     []string            // model: recovery mailbox keys in order
	faults  int
	broken  string
	selName string
	// refused: keys whose APPEND has been refused since the server (re)started. The server remembers refused
	// messages in memory (hash set) independently of what the recovery mailbox holds; two histories that differ in
	// it are different states even when everything observable is equal.
	refused map[string]bool
}

const recBox = "Recovered Messages"

func init() { explore.Register("c20", NewC20) }

func NewC20(raw json.RawMessage) (explore.Run, error) {
	var p C20Params
	if err := json.Unmarshal(raw, &p); err != nil {
		return nil, err
	}
	cfg := world.Config{Hold: false}
	if p.MaxMessages > 0 {
		lim := limits.NewIMAPLimits(100, p.MaxMessages, imap.UID(1<<30), imap.UID(1<<30))
		cfg.Limits = &lim
	}
	w, err := world.New(cfg)
	if err != nil {
		return nil, err
	}
	if p.FailAlways {
		w.Users[0].Conn.Sticky = map[string]string{"CreateMessage": "fail"}
	}
	r := &c20run{p: p, w: w, boxes: map[string][]string{"INBOX": nil, "other": nil}}
	sp := vconn.Spec{Kind: "MailboxCreated", Mbox: "mb-other", Name: []string{"other"}}
	if res := w.Inject(0, sp); res.Err != "" {
		w.Close()
		return nil, fmt.Errorf("setup: %+v", res)
	}
	w.Users[0].Conn.NoteRemote(sp)
	if err := r.open(); err != nil {
		w.Close()
		return nil, err
	}
	return r, nil
}

func (r *c20run) open() error {
	s, err := r.w.Connect()
	if err != nil {
		return err
	}
	if res := r.w.Login(s, 0); !res.OK() {
		return fmt.Errorf("login failed")
	}
	r.o = s
	r.selName = ""
	return nil
}

func (r *c20run) Close() { r.w.Close() }

func (r *c20run) Enabled() []explore.Event {
	var out []explore.Event
	for _, e := range r.p.Alphabet {
		switch e.K {
		case "fault":
			if r.faults >= r.p.MaxFaults {
				continue
			}
			// at most one pending answer per call kind
			kind := strings.SplitN(e.A, ":", 2)[0]
			if len(r.w.Users[0].Conn.Faults[kind]) > 0 {
				continue
			}
		case "cmd":
			k := strings.Fields(strings.ToUpper(e.A))[0]
			if selectedCmds[k] && r.selName == "" {
				continue
			}
		}
		if r.o.Dead && e.K != "restart" {
			continue
		}
		out = append(out, e)
	}
	return out
}

func (r *c20run) viol(clause, sig, msg string) explore.Violation {
	return explore.Violation{Prop: "C20", Clause: clause, Sig: sig, Msg: msg}
}

func removeAt(s []string, i int) []string { return append(append([]string{}, s[:i]...), s[i+1:]...) }

func (r *c20run) Step(ev explore.Event) []explore.Violation {
	var out []explore.Violation
	conn := r.w.Users[0].Conn
	pendingFault := func(kind string) string {
		if q := conn.Faults[kind]; len(q) > 0 {
			return q[0]
		}
		if a, ok := conn.Sticky[kind]; ok {
			return a
		}
		return "ok"
	}
	switch ev.K {
	case "fault":
		kv := strings.SplitN(ev.A, ":", 2)
		conn.SetFault(kv[0], kv[1])
		r.faults++
	case "restart":
		if err := r.w.Restart(); err != nil {
			r.broken = "restart: " + err.Error()
			break
		}
		if err := r.open(); err != nil {
			r.broken = err.Error()
		}
		r.refused = nil
	case "append":
		box, key := ev.A, ev.B
		answer := pendingFault("CreateMessage")
		forbidden := strings.EqualFold(box, recBox)
		res := r.o.C.CmdLit("APPEND "+quote(box), vconn.MakeLiteral(key), "")
		if res.Err != nil {
			r.broken = res.Err.Error()
			break
		}
		switch {
		case forbidden:
			if res.OK() {
				out = append(out, r.viol("forbidden-accepted", "APPEND", "APPEND to the recovery mailbox answered "+res.Tagged.Text))
			}
		case res.OK():
			if answer != "ok" {
				out = append(out, r.viol("append-ok-despite-remote-failure", answer, "the remote refused the message ("+answer+") but APPEND answered "+res.Tagged.Text))
			}
			r.boxes[box] = append(r.boxes[box], key)
			if m := appendUIDRe.FindStringSubmatch(res.Tagged.Text); m != nil {
				uid, _ := strconv.ParseUint(m[2], 10, 32)
				rows, err := FreshBox(r.w, box, true)
				if err == nil {
					found := false
					for _, f := range rows {
						if f.UID == uint32(uid) && f.Key == key {
							found = true
						}
					}
					if !found {
						out = append(out, r.viol("append-ok-not-found", "APPEND", fmt.Sprintf("APPEND answered %q but a fresh session does not find message %s under UID %d in %s", res.Tagged.Text, key, uid, box)))
					}
				}
			}
		default: // NO / BAD
			if r.refused == nil {
				r.refused = map[string]bool{}
			}
			r.refused[key] = true
			switch answer {
			case "ok":
				out = append(out, r.viol("append-refused", "APPEND", "the remote accepts the message but APPEND answered "+res.Tagged.Text))
			case "fail":
				// the bytes must be kept in the recovery mailbox, once per distinct message
				have := false
				for _, k := range r.rec {
					if k == key {
						have = true
					}
				}
				if !have && r.p.MaxMessages > 0 && len(r.rec) >= int(r.p.MaxMessages) {
					// the recovery mailbox is full: the limit wins, the client has been told NO
					break
				}
				if !have {
					r.rec = append(r.rec, key)
				}
			case "fail-size":
				// not kept (either way is accepted): adopt what the server did
				rows, err := FreshBox(r.w, recBox, false)
				if err == nil {
					r.rec = nil
					for _, f := range rows {
						r.rec = append(r.rec, f.Key)
					}
				}
			}
		}
	case "cmd":
		up := strings.ToUpper(ev.A)
		f := strings.Fields(ev.A)
		verb := strings.ToUpper(f[0])
		res := r.o.C.Cmd(ev.A)
		if res.Err != nil {
			if r.o.C.Closed {
				r.o.Dead = true
				break
			}
			r.broken = res.Err.Error()
			break
		}
		touchesRecovery := strings.Contains(strings.ToLower(ev.A), strings.ToLower(recBox))
		switch verb {
		case "SELECT":
			if res.OK() {
				r.selName = strings.Trim(strings.TrimPrefix(ev.A, f[0]+" "), `"`)
				if strings.EqualFold(r.selName, recBox) {
					r.selName = recBox
				}
			}
		case "CREATE", "DELETE", "RENAME":
			if touchesRecovery && res.OK() {
				out = append(out, r.viol("forbidden-accepted", verb, ev.A+" answered "+res.Tagged.Text))
			}
			if !touchesRecovery {
				r.broken = "c20: unmodelled namespace command"
			}
		case "COPY", "MOVE":
			dst := strings.Trim(strings.TrimSpace(strings.SplitN(ev.A, " ", 3)[2]), `"`)
			if strings.EqualFold(dst, recBox) {
				if res.OK() {
					out = append(out, r.viol("forbidden-accepted", verb, ev.A+" answered "+res.Tagged.Text))
				}
				break
			}
			if r.selName != recBox {
				r.broken = "c20: COPY/MOVE only modelled out of the recovery mailbox"
				break
			}
			if len(r.rec) == 0 {
				break // nothing addressed: BAD
			}
			// the message is created remotely in the destination (CreateMessage)
			if res.OK() {
				key := r.rec[0]
				r.boxes[dst] = append(r.boxes[dst], key)
				if verb == "MOVE" {
					r.rec = removeAt(r.rec, 0)
				}
			}
		case "STORE":
		case "EXPUNGE":
			if res.OK() && r.selName == recBox {
				// the client deliberately discards what it marked; adopt the server's content
				rows, err := FreshBox(r.w, recBox, false)
				if err == nil {
					var keep []string
					for _, fr := range rows {
						keep = append(keep, fr.Key)
					}
					// only removals of messages that were there are acceptable
					for _, k := range keep {
						ok := false
						for _, m := range r.rec {
							if m == k {
								ok = true
							}
						}
						if !ok {
							out = append(out, r.viol("recovery-content", "EXPUNGE", "message "+k+" appeared in the recovery mailbox after EXPUNGE"))
						}
					}
					r.rec = keep
				}
			}
		case "LIST", "NOOP":
		default:
			_ = up
		}
	}
	_ = r.w.Barrier(r.o)
	if r.broken == "" {
		out = append(out, r.compare(ev)...)
	}
	if r.broken != "" {
		out = append(out, explore.Violation{Prop: "ENGINE", Clause: "engine", Sig: "broken", Msg: r.broken})
	}
	return out
}

func (r *c20run) compare(ev explore.Event) []explore.Violation {
	var out []explore.Violation
	kind := ev.K
	if ev.K == "cmd" {
		kind = cmdKind(ev.A)
	}
	// recovery mailbox content: exact bytes, once per distinct message
	rows, err := FreshBox(r.w, recBox, true)
	if err != nil {
		r.broken = err.Error()
		return out
	}
	var got []string
	for _, f := range rows {
		got = append(got, f.Key)
		body := gluonIDRe.ReplaceAll(f.Body, nil)
		if !bytes.Equal(body, vconn.MakeLiteral(f.Key)) {
			out = append(out, r.viol("recovery-bytes", kind, "recovered message "+f.Key+" does not have the bytes that were handed to APPEND"))
		}
	}
	gs, ws := append([]string{}, got...), append([]string{}, r.rec...)
	sort.Strings(gs)
	sort.Strings(ws)
	if strings.Join(gs, ",") != strings.Join(ws, ",") {
		out = append(out, r.viol("recovery-content", kind, fmt.Sprintf("after %s the recovery mailbox holds %v, expected %v (every message refused by the remote, once)", ev, got, r.rec)))
	}
	for _, box := range []string{"INBOX", "other"} {
		rows, err := FreshBox(r.w, box, false)
		if err != nil {
			r.broken = err.Error()
			return out
		}
		var g []string
		for _, f := range rows {
			g = append(g, f.Key)
		}
		if strings.Join(g, ",") != strings.Join(r.boxes[box], ",") {
			out = append(out, r.viol("mailbox-content", kind, fmt.Sprintf("after %s mailbox %s holds %v, expected %v", ev, box, g, r.boxes[box])))
		}
	}
	// LIST shows the recovery mailbox exactly while it is non-empty
	if !r.o.Dead {
		res := r.o.C.Cmd(`LIST "" "*"`)
		listed := false
		for _, u := range res.Untagged {
			if strings.Contains(u.Text, recBox) {
				listed = true
			}
		}
		if listed != (len(r.rec) > 0) {
			out = append(out, r.viol("recovery-listing", kind, fmt.Sprintf("recovery mailbox listed=%v while it holds %d message(s)", listed, len(r.rec))))
		}
	}
	return out
}

func (r *c20run) Canon() string {
	v, err := ReadDB(r.w, 0)
	if err != nil {
		return "DBERR"
	}
	d, _ := r.w.DumpOf(r.o)
	var ref []string
	for k := range r.refused {
		ref = append(ref, k)
	}
	sort.Strings(ref)
	return fmt.Sprintf("%s\nmodel %v rec %v faults=%d sel=%s dead=%v n=%d refused=%v\n%s", v.Canon(), r.boxes, r.rec, r.faults, r.selName, r.o.Dead, len(d.Msgs), ref, r.w.Users[0].Conn.Canon())
}

func (r *c20run) Extensions() []explore.Violation { return nil }
