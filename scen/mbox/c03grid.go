package mbox

import (
	"encoding/json"
	"fmt"
	"strings"

	"verif/engine/enumt"
	"verif/engine/explore"
	"verif/engine/vconn"
	"verif/engine/world"
)

// C03 batch grid: message sets on both sides of the index's statement-batching limit, through IMAP.

type GridCase struct {
	N  int    `json:"n"`
	Op string `json:"op"`
}

func init() { explore.RegisterCall("c03grid", c03gridCall) }

func c03gridCall(raw json.RawMessage) (any, error) {
	chunk, err := enumt.ParseChunk(raw)
	if err != nil {
		return nil, err
	}
	res := &enumt.Result{Counters: map[string]int{}}
	outcomes := map[string]bool{}
	for _, rc := range chunk.Cases {
		var cs GridCase
		if err := json.Unmarshal(rc, &cs); err != nil {
			return nil, err
		}
		w, err := world.New(world.Config{Hold: false})
		if err != nil {
			return nil, err
		}
		err = func() error {
			defer w.Close()
			sp := vconn.Spec{Kind: "MailboxCreated", Mbox: "mb-other", Name: []string{"other"}}
			if r := w.Inject(0, sp); r.Err != "" {
				return fmt.Errorf("setup: %s", r.Err)
			}
			batch := vconn.Spec{Kind: "MessagesCreated", Mboxes: []string{"0"}}
			for i := 0; i < cs.N; i++ {
				batch.Msgs = append(batch.Msgs, fmt.Sprintf("c-g%04d", i))
				batch.Keys = append(batch.Keys, fmt.Sprintf("g%04d", i))
			}
			if r := w.Inject(0, batch); r.Err != "" || !r.Done {
				return fmt.Errorf("setup batch: %+v", r)
			}
			s, err := w.Connect()
			if err != nil {
				return err
			}
			w.Login(s, 0)
			if r := s.C.Cmd("SELECT INBOX"); !r.OK() {
				return fmt.Errorf("select: %v", r.Lines())
			}
			pre := func(cmd string) error {
				if r := s.C.Cmd(cmd); !r.OK() {
					return fmt.Errorf("preparation %q: %s", cmd, r.Tagged.Text)
				}
				return nil
			}
			var cmd string
			wantInbox, wantOther := cs.N, 0
			wantFlags := "" // flags every INBOX message must have exactly ("" = none)
			switch cs.Op {
			case "store+kw":
				cmd, wantFlags = `STORE 1:* +FLAGS (kw)`, "kw"
			case "store-kw":
				if err := pre(`STORE 1:* +FLAGS.SILENT (kw)`); err != nil {
					return err
				}
				cmd = `STORE 1:* -FLAGS (KW)`
			case "store-seen":
				if err := pre(`STORE 1:* +FLAGS.SILENT (\Seen)`); err != nil {
					return err
				}
				cmd = `STORE 1:* -FLAGS.SILENT (\Seen)`
			case "store=seen":
				if err := pre(`STORE 1:* +FLAGS.SILENT (kw)`); err != nil {
					return err
				}
				cmd, wantFlags = `STORE 1:* FLAGS (\Seen)`, `\seen`
			case "store=none":
				if err := pre(`STORE 1:* +FLAGS.SILENT (kw \Flagged)`); err != nil {
					return err
				}
				cmd = `STORE 1:* FLAGS ()`
			case "expunge":
				if err := pre(`STORE 1:* +FLAGS.SILENT (\Deleted)`); err != nil {
					return err
				}
				cmd, wantInbox = `EXPUNGE`, 0
			case "uidexpunge":
				if err := pre(`STORE 1:* +FLAGS.SILENT (\Deleted)`); err != nil {
					return err
				}
				cmd, wantInbox = `UID EXPUNGE 1:*`, 0
			case "close":
				if err := pre(`STORE 1:* +FLAGS.SILENT (\Deleted)`); err != nil {
					return err
				}
				cmd, wantInbox = `CLOSE`, 0
			case "copy-other":
				cmd, wantOther = `COPY 1:* other`, cs.N
			case "move-other":
				cmd, wantInbox, wantOther = `MOVE 1:* other`, 0, cs.N
			case "copy-same":
				cmd = `COPY 1:* INBOX`
			default:
				return fmt.Errorf("unknown op %q", cs.Op)
			}
			r := s.C.Cmd(cmd)
			res.Evaluations++
			add := func(clause, msg string) {
				res.Viol = append(res.Viol, enumt.Viol{Clause: clause, Sig: cs.Op, Msg: fmt.Sprintf("%d messages, %s: %s", cs.N, cmd, msg), Input: cs})
			}
			if r.Err != nil {
				add("no-response", r.Err.Error())
				return nil
			}
			_ = w.Barrier(s)
			v, err := ReadDB(w, 0)
			if err != nil {
				return err
			}
			inbox, other := v.Mbox("INBOX"), v.Mbox("other")
			if !r.OK() {
				// refused: nothing may have changed
				if len(inbox.Msgs) != cs.N || len(other.Msgs) != 0 {
					add("refused-with-effect", fmt.Sprintf("answered %q but INBOX has %d and other %d messages", r.Tagged.Text, len(inbox.Msgs), len(other.Msgs)))
				} else {
					add("refused", fmt.Sprintf("answered %q", r.Tagged.Text))
				}
				return nil
			}
			if len(inbox.Msgs) != wantInbox || len(other.Msgs) != wantOther {
				add("membership", fmt.Sprintf("INBOX has %d messages (expected %d), other has %d (expected %d)", len(inbox.Msgs), wantInbox, len(other.Msgs), wantOther))
			}
			check := func(mb *DBMbox, flags string) {
				bad, firstBad := 0, ""
				for i, m := range mb.Msgs {
					got := strings.Join(m.Flags, " ")
					wantKey := fmt.Sprintf("c-g%04d", i)
					if got != flags {
						bad++
						if firstBad == "" {
							firstBad = fmt.Sprintf("UID %d (%s) has flags [%s], expected [%s]", m.UID, m.Remote, got, flags)
						}
					}
					if m.Remote != wantKey && firstBad == "" {
						bad++
						firstBad = fmt.Sprintf("position %d holds %s, expected %s", i+1, m.Remote, wantKey)
					}
				}
				if bad > 0 {
					add("flags-or-order", fmt.Sprintf("%d of %d messages in %s differ from the model, first: %s", bad, len(mb.Msgs), mb.Name, firstBad))
				}
			}
			check(inbox, wantFlags)
			check(other, "")
			outcomes[fmt.Sprintf("%s|%d|%d|%d", cs.Op, cs.N, len(inbox.Msgs), len(other.Msgs))] = true
			if len(res.Samples) < 2 {
				res.Samples = append(res.Samples, map[string]any{"case": cs, "cmd": cmd, "inbox": len(inbox.Msgs), "other": len(other.Msgs)})
			}
			return nil
		}()
		if err != nil {
			return nil, err
		}
	}
	for k := range outcomes {
		res.Outcomes = append(res.Outcomes, k)
	}
	return res, nil
}
