package mbox

import (
	"encoding/json"
	"fmt"
	"strings"

	"verif/engine/enumt"
	"verif/engine/explore"
	"verif/engine/imapc"
	"verif/engine/vconn"
	"verif/engine/world"
)

// C03 batch grid: message sets on both sides of the index's statement-batching limit, through IMAP.

type GridCase struct {
	N  int    `json:"n"`
	Op string `json:"op"`
}

func init() { explore.RegisterCall("c03grid", c03gridCall) }

func c03gridCall(raw json.RawMessage) (any, error) {
	chunk, err := enumt.ParseChunk(raw)
	if err != nil {
		return nil, err
	}
	res := &enumt.Result{Counters: map[string]int{}}
	outcomes := map[string]bool{}
	for _, rc := range chunk.Cases {
		var cs GridCase
		if err := json.Unmarshal(rc, &cs); err != nil {
			return nil, err
		}
		w, err := world.New(world.Config{Hold: false})
		if err != nil {
			return nil, err
		}
		err = func() error {
			defer w.Close()
			sp := vconn.Spec{Kind: "MailboxCreated", Mbox: "mb-other", Name: []string{"other"}}
			if r := w.Inject(0, sp); r.Err != "" {
				return fmt.Errorf("setup: %s", r.Err)
			}
			batch := vconn.Spec{Kind: "MessagesCreated", Mboxes: []string{"0"}}
			for i := 0; i < cs.N; i++ {
				batch.Msgs = append(batch.Msgs, fmt.Sprintf("c-g%04d", i))
				batch.Keys = append(batch.Keys, fmt.Sprintf("g%04d", i))
			}
			if r := w.Inject(0, batch); r.Err != "" || !r.Done {
				return fmt.Errorf("setup batch: %+v", r)
			}
			s, err := w.Connect()
			if err != nil {
				return err
			}
			w.Login(s, 0)
			if r := s.C.Cmd("SELECT INBOX"); !r.OK() {
				return fmt.Errorf("select: %v", r.Lines())
			}
			pre := func(cmd string) error {
				if r := s.C.Cmd(cmd); !r.OK() {
					return fmt.Errorf("preparation %q: %s", cmd, r.Tagged.Text)
				}
				return nil
			}
			var cmd string
			wantInbox, wantOther := cs.N, 0
			wantFlags := "" // flags every INBOX message must have exactly ("" = none)
			switch cs.Op {
			case "store+kw":
				cmd, wantFlags = `STORE 1:* +FLAGS (kw)`, "kw"
			case "store-kw":
				if err := pre(`STORE 1:* +FLAGS.SILENT (kw)`); err != nil {
					return err
				}
				cmd = `STORE 1:* -FLAGS (KW)`
			case "store-seen":
				if err := pre(`STORE 1:* +FLAGS.SILENT (\Seen)`); err != nil {
					return err
				}
				cmd = `STORE 1:* -FLAGS.SILENT (\Seen)`
			case "store=seen":
				if err := pre(`STORE 1:* +FLAGS.SILENT (kw)`); err != nil {
					return err
				}
				cmd, wantFlags = `STORE 1:* FLAGS (\Seen)`, `\seen`
			case "store=none":
				if err := pre(`STORE 1:* +FLAGS.SILENT (kw \Flagged)`); err != nil {
					return err
				}
				cmd = `STORE 1:* FLAGS ()`
			case "expunge":
				if err := pre(`STORE 1:* +FLAGS.SILENT (\Deleted)`); err != nil {
					return err
				}
				cmd, wantInbox = `EXPUNGE`, 0
			case "uidexpunge":
				if err := pre(`STORE 1:* +FLAGS.SILENT (\Deleted)`); err != nil {
					return err
				}
				cmd, wantInbox = `UID EXPUNGE 1:*`, 0
			case "close":
				if err := pre(`STORE 1:* +FLAGS.SILENT (\Deleted)`); err != nil {
					return err
				}
				cmd, wantInbox = `CLOSE`, 0
			case "copy-other":
				cmd, wantOther = `COPY 1:* other`, cs.N
			case "move-other":
				cmd, wantInbox, wantOther = `MOVE 1:* other`, 0, cs.N
			case "copy-same":
				cmd = `COPY 1:* INBOX`
			case "copyuid-other": // C04: the UIDs announced in COPYUID are where the messages are found
				cmd, wantOther = `COPY 1:* other`, cs.N
			case "moveuid-other":
				cmd, wantInbox, wantOther = `UID MOVE 1:* other`, 0, cs.N
			case "conn-arrival": // C02: a second session learns about a connector batch of N messages
				return connArrival(w, s, cs, res, outcomes)
			default:
				return fmt.Errorf("unknown op %q", cs.Op)
			}
			r := s.C.Cmd(cmd)
			res.Evaluations++
			add := func(clause, msg string) {
				res.Viol = append(res.Viol, enumt.Viol{Clause: clause, Sig: cs.Op, Msg: fmt.Sprintf("%d messages, %s: %s", cs.N, cmd, msg), Input: cs})
			}
			if r.Err != nil {
				add("no-response", r.Err.Error())
				return nil
			}
			_ = w.Barrier(s)
			v, err := ReadDB(w, 0)
			if err != nil {
				return err
			}
			inbox, other := v.Mbox("INBOX"), v.Mbox("other")
			if !r.OK() {
				// refused: nothing may have changed
				if len(inbox.Msgs) != cs.N || len(other.Msgs) != 0 {
					add("refused-with-effect", fmt.Sprintf("answered %q but INBOX has %d and other %d messages", r.Tagged.Text, len(inbox.Msgs), len(other.Msgs)))
				} else {
					add("refused", fmt.Sprintf("answered %q", r.Tagged.Text))
				}
				return nil
			}
			if len(inbox.Msgs) != wantInbox || len(other.Msgs) != wantOther {
				add("membership", fmt.Sprintf("INBOX has %d messages (expected %d), other has %d (expected %d)", len(inbox.Msgs), wantInbox, len(other.Msgs), wantOther))
			}
			check := func(mb *DBMbox, flags string) {
				bad, firstBad := 0, ""
				for i, m := range mb.Msgs {
					got := strings.Join(m.Flags, " ")
					wantKey := fmt.Sprintf("c-g%04d", i)
					if got != flags {
						bad++
						if firstBad == "" {
							firstBad = fmt.Sprintf("UID %d (%s) has flags [%s], expected [%s]", m.UID, m.Remote, got, flags)
						}
					}
					if m.Remote != wantKey && firstBad == "" {
						bad++
						firstBad = fmt.Sprintf("position %d holds %s, expected %s", i+1, m.Remote, wantKey)
					}
				}
				if bad > 0 {
					add("flags-or-order", fmt.Sprintf("%d of %d messages in %s differ from the model, first: %s", bad, len(mb.Msgs), mb.Name, firstBad))
				}
			}
			check(inbox, wantFlags)
			check(other, "")
			if strings.HasSuffix(cs.Op, "uid-other") {
				// COPYUID <validity> <source uids> <destination uids>: pairwise, the destination UID must hold the
				// message that has the source UID
				m := copyUIDRe.FindStringSubmatch(strings.Join(r.Lines(), " "))
				if m == nil {
					res.Viol = append(res.Viol, enumt.Viol{Prop: "C04", Clause: "copyuid-missing", Sig: cs.Op, Msg: fmt.Sprintf("%d messages, %s: no COPYUID in %q", cs.N, cmd, r.Tagged.Text), Input: cs})
				} else {
					src, dst := expandUIDs(m[2]), expandUIDs(m[3])
					byUID := map[uint32]string{}
					for _, x := range other.Msgs {
						byUID[x.UID] = x.Remote
					}
					bad, first := 0, ""
					if len(src) != cs.N || len(dst) != cs.N {
						bad, first = 1, fmt.Sprintf("COPYUID names %d source and %d destination UIDs for %d messages", len(src), len(dst), cs.N)
					} else {
						for i := range src {
							want := fmt.Sprintf("c-g%04d", int(src[i])-1) // source UID u holds message g(u-1)
							if byUID[dst[i]] != want {
								bad++
								if first == "" {
									first = fmt.Sprintf("source UID %d (%s) announced as destination UID %d, which holds %q", src[i], want, dst[i], byUID[dst[i]])
								}
							}
						}
					}
					if bad > 0 {
						res.Viol = append(res.Viol, enumt.Viol{Prop: "C04", Clause: "announced-uid", Sig: cs.Op, Msg: fmt.Sprintf("%d messages, %s: %d wrong COPYUID pairs, first: %s", cs.N, cmd, bad, first), Input: cs})
					}
				}
			}
			outcomes[fmt.Sprintf("%s|%d|%d|%d", cs.Op, cs.N, len(inbox.Msgs), len(other.Msgs))] = true
			if len(res.Samples) < 2 {
				res.Samples = append(res.Samples, map[string]any{"case": cs, "cmd": cmd, "inbox": len(inbox.Msgs), "other": len(other.Msgs)})
			}
			return nil
		}()
		if err != nil {
			return nil, err
		}
	}
	for k := range outcomes {
		res.Outcomes = append(res.Outcomes, k)
	}
	return res, nil
}

// connArrival: an observer has INBOX selected; the connector creates N more messages in one batch; after NOOP the
// observer must have been told about all of them and its rows must equal a fresh session's.
func connArrival(w *world.World, s *world.Sess, cs GridCase, res *enumt.Result, outcomes map[string]bool) error {
	batch := vconn.Spec{Kind: "MessagesCreated", Mboxes: []string{"0"}}
	for i := 0; i < cs.N; i++ {
		batch.Msgs = append(batch.Msgs, fmt.Sprintf("c-h%04d", i))
		batch.Keys = append(batch.Keys, fmt.Sprintf("h%04d", i))
	}
	if r := w.Inject(0, batch); r.Err != "" || !r.Done {
		return fmt.Errorf("batch: %+v", r)
	}
	_ = w.Barrier(s)
	res.Evaluations++
	r := s.C.Cmd("NOOP")
	exists := -1
	for _, u := range r.Untagged {
		if p := imapc.ParseUntagged(u); p.Kind == "EXISTS" {
			exists = p.N
		}
	}
	add := func(clause, msg string) {
		res.Viol = append(res.Viol, enumt.Viol{Prop: "C02", Clause: clause, Sig: "conn-arrival", Msg: fmt.Sprintf("observer with %d messages, connector batch of %d more: %s", cs.N, cs.N, msg), Input: cs})
	}
	if exists != 2*cs.N {
		add("grid-exists", fmt.Sprintf("NOOP announced %d EXISTS, the mailbox holds %d", exists, 2*cs.N))
	}
	own, _ := s.C.Cmd(probeCmd), 0
	var rows []*imapc.FetchRow
	for _, u := range own.Untagged {
		if p := imapc.ParseUntagged(u); p.Kind == "FETCH" {
			rows = append(rows, p.Row)
		}
	}
	v, err := ReadDB(w, 0)
	if err != nil {
		return err
	}
	inbox := v.Mbox("INBOX")
	if len(rows) != len(inbox.Msgs) {
		add("grid-converge", fmt.Sprintf("the observer sees %d messages, the mailbox holds %d", len(rows), len(inbox.Msgs)))
	} else {
		sortRows(rows)
		for i := range rows {
			if rows[i].UID != inbox.Msgs[i].UID {
				add("grid-converge", fmt.Sprintf("position %d: observer has UID %d, mailbox has UID %d", i+1, rows[i].UID, inbox.Msgs[i].UID))
				break
			}
		}
	}
	outcomes[fmt.Sprintf("conn-arrival|%d|%d", cs.N, exists)] = true
	return nil
}
