package mbox

import (
	"fmt"
	"sort"
	"strings"

	"verif/engine/imapc"
)

// Cell is what a client knows about one sequence number.
type Cell struct {
	UID   uint32   // 0 = unknown
	Flags []string // nil = unknown; lower-cased, sorted, without \recent
	Known bool     // flags known
}

// Mirror is the mailbox a client reconstructs purely from untagged EXISTS / EXPUNGE / FETCH responses.
type Mirror struct {
	Valid bool
	Cells []Cell
}

func stripRecent(f []string) []string {
	out := make([]string, 0, len(f))
	for _, x := range f {
		if x != `\recent` {
			out = append(out, x)
		}
	}
	sort.Strings(out)
	return out
}

func (m *Mirror) Reset(n int) {
	m.Valid = true
	m.Cells = make([]Cell, n)
}

func (m *Mirror) Invalidate() { m.Valid = false; m.Cells = nil }

func (m *Mirror) ForgetFlags() {
	for i := range m.Cells {
		m.Cells[i].Known = false
		m.Cells[i].Flags = nil
	}
}

// ForgetFlagsOf forgets the flags of the messages a .SILENT store addressed (the client is not told their new flags);
// what it knows about every other message stays, so that announcements owed for those are still checked. set is the
// message set as written; count is the number of messages the client counted when it sent the command.
func (m *Mirror) ForgetFlagsOf(set string, uid bool, count int) {
	type rng struct{ lo, hi uint64 }
	var rs []rng
	star := uint64(count)
	if uid {
		star = 0
		for _, c := range m.Cells {
			if uint64(c.UID) > star {
				star = uint64(c.UID)
			}
		}
	}
	num := func(x string) (uint64, bool) {
		if x == "*" {
			return star, true
		}
		var v uint64
		if _, err := fmt.Sscanf(x, "%d", &v); err != nil {
			return 0, false
		}
		return v, true
	}
	for _, part := range strings.Split(set, ",") {
		ab := strings.SplitN(part, ":", 2)
		lo, ok := num(ab[0])
		hi := lo
		if ok && len(ab) == 2 {
			hi, ok = num(ab[1])
		}
		if !ok {
			m.ForgetFlags() // not understood: be conservative
			return
		}
		if lo > hi {
			lo, hi = hi, lo
		}
		rs = append(rs, rng{lo, hi})
	}
	for i := range m.Cells {
		key := uint64(i + 1)
		if uid {
			if m.Cells[i].UID == 0 {
				m.Cells[i].Known, m.Cells[i].Flags = false, nil // UID unknown to the client: may have been addressed
				continue
			}
			key = uint64(m.Cells[i].UID)
		} else if i >= count {
			continue
		}
		for _, r := range rs {
			if key >= r.lo && key <= r.hi {
				m.Cells[i].Known, m.Cells[i].Flags = false, nil
			}
		}
	}
}

// Apply processes one untagged line; it returns a description of an inconsistency, if any.
func (m *Mirror) Apply(u imapc.Untagged) string {
	if !m.Valid {
		return ""
	}
	switch u.Kind {
	case "EXISTS":
		if u.N < len(m.Cells) {
			return fmt.Sprintf("EXISTS %d announced while the client counts %d messages (count shrank without EXPUNGE)", u.N, len(m.Cells))
		}
		for len(m.Cells) < u.N {
			m.Cells = append(m.Cells, Cell{})
		}
	case "EXPUNGE":
		if u.N < 1 || u.N > len(m.Cells) {
			return fmt.Sprintf("EXPUNGE %d outside 1..%d", u.N, len(m.Cells))
		}
		m.Cells = append(m.Cells[:u.N-1], m.Cells[u.N:]...)
	case "FETCH":
		if u.N < 1 || u.N > len(m.Cells) {
			return fmt.Sprintf("FETCH for sequence number %d outside 1..%d", u.N, len(m.Cells))
		}
		c := &m.Cells[u.N-1]
		if u.Row.UID != 0 {
			if c.UID != 0 && c.UID != u.Row.UID {
				return fmt.Sprintf("sequence number %d was UID %d, now reported as UID %d", u.N, c.UID, u.Row.UID)
			}
			c.UID = u.Row.UID
		}
		if u.Row.HasFlags {
			c.Flags = stripRecent(u.Row.Flags)
			c.Known = true
		}
	}
	return ""
}

// CheckRows compares probe rows (the server's answer) with the mirror. rows must be sorted by Seq.
func (m *Mirror) CheckRows(rows []*imapc.FetchRow) (clause, msg string) {
	if !m.Valid {
		return "", ""
	}
	if len(rows) != len(m.Cells) {
		return "count", fmt.Sprintf("server answers with %d messages, client was told %d", len(rows), len(m.Cells))
	}
	var last uint32
	for i, r := range rows {
		if r.Seq != i+1 {
			return "dense", fmt.Sprintf("row %d has sequence number %d", i+1, r.Seq)
		}
		if r.UID <= last {
			return "uid-order", fmt.Sprintf("UID %d at sequence %d not above previous %d", r.UID, r.Seq, last)
		}
		last = r.UID
		c := m.Cells[i]
		if c.UID != 0 && c.UID != r.UID {
			return "uid-map", fmt.Sprintf("sequence %d: client learned UID %d, server answers UID %d", r.Seq, c.UID, r.UID)
		}
		if c.Known {
			got := stripRecent(r.Flags)
			if strings.Join(got, " ") != strings.Join(c.Flags, " ") {
				return "flags", fmt.Sprintf("sequence %d (UID %d): client learned flags %v, server answers %v", r.Seq, r.UID, c.Flags, got)
			}
		}
	}
	return "", ""
}

// Learn stores what the probe rows told the client.
func (m *Mirror) Learn(rows []*imapc.FetchRow) {
	if !m.Valid || len(rows) != len(m.Cells) {
		return
	}
	for i, r := range rows {
		m.Cells[i].UID = r.UID
		if r.HasFlags {
			m.Cells[i].Flags = stripRecent(r.Flags)
			m.Cells[i].Known = true
		}
	}
}

func (m *Mirror) Canon() string {
	if !m.Valid {
		return "-"
	}
	var b strings.Builder
	for _, c := range m.Cells {
		if c.Known {
			fmt.Fprintf(&b, "(%d %v)", c.UID, c.Flags)
		} else {
			fmt.Fprintf(&b, "(%d ?)", c.UID)
		}
	}
	return b.String()
}
