package mbox

import (
	"encoding/json"
	"fmt"
	"sort"
	"strings"
	"time"

	"github.com/ProtonMail/gluon"
	"github.com/ProtonMail/gluon/imap"
	"github.com/ProtonMail/gluon/limits"
	"github.com/ProtonMail/gluon/store"

	"verif/engine/crash"
	"verif/engine/enumt"
	"verif/engine/explore"
	"verif/engine/vconn"
	"verif/engine/world"
)

// C17 concurrent clause: two operations that together exceed a limit are issued at once; every interleaving of
// their DATABASE TRANSACTIONS (the granularity at which the limit is checked and the insertion is done) is
// enumerated by parking each transaction at its start and letting the explorer choose which actor proceeds.

type ConcCase struct {
	MaxMailboxes uint32   `json:"max_mailboxes"`
	MaxMessages  uint32   `json:"max_messages"`
	Ops          []string `json:"ops"` // one per actor: "append" | "copy2" | "move2" | "create:a" | "create:b/c" | "conn2"
}

func init() { explore.RegisterCall("c17conc", c17concCall) }

type actor struct {
	op     string
	done   chan string // tagged status / ack
	status string
	gate   *crash.Gated
	fin    bool
}

type concExec struct {
	trace    [][]int // per decision: enabled actor indices
	choices  []int
	viol     []enumt.Viol
	outcome  string
	engine   string
	schedule []string
}

func runConc(cs ConcCase, prefix []int) *concExec {
	x := &concExec{}
	h := &crash.Hook{}
	lim := limits.NewIMAPLimits(cs.MaxMailboxes, cs.MaxMessages, imap.UID(1<<30), imap.UID(1<<30))
	w, err := world.New(world.Config{Hold: true, Limits: &lim,
		StoreBuilder: crash.StoreBuilder{Inner: &store.OnDiskStoreBuilder{}, H: h},
		DBCI:         crash.CI{Inner: gluon.VerifSQLiteClientInterface(), H: h}})
	if err != nil {
		x.engine = err.Error()
		return x
	}
	defer w.Close()
	fail := func(e string) *concExec { x.engine = e; h.SetGate(false); return x }
	// pre-state: INBOX holds max-1 messages; mailbox "src" holds 2 messages; mailbox count = max-1 when asked
	for _, sp := range []vconn.Spec{{Kind: "MailboxCreated", Mbox: "mb-src", Name: []string{"src"}}} {
		if r := w.Inject(0, sp); r.Err != "" {
			return fail("setup: " + r.Err)
		}
	}
	for i := 0; i < int(cs.MaxMessages)-1; i++ {
		k := fmt.Sprintf("i%d", i)
		if r := w.Inject(0, vconn.Spec{Kind: "MessagesCreated", Msg: "c-" + k, Key: k, Mboxes: []string{"0"}}); r.Err != "" {
			return fail("setup: " + r.Err)
		}
	}
	for _, k := range []string{"s1", "s2"} {
		if r := w.Inject(0, vconn.Spec{Kind: "MessagesCreated", Msg: "c-" + k, Key: k, Mboxes: []string{"mb-src"}}); r.Err != "" {
			return fail("setup: " + r.Err)
		}
	}
	before, err := ReadDB(w, 0)
	if err != nil {
		return fail(err.Error())
	}
	// extra mailboxes so that the mailbox count is max-1
	for n := len(before.Mboxes); n < int(cs.MaxMailboxes)-1; n++ {
		if r := w.Inject(0, vconn.Spec{Kind: "MailboxCreated", Mbox: fmt.Sprintf("mb-f%d", n), Name: []string{fmt.Sprintf("f%d", n)}}); r.Err != "" {
			return fail("setup: " + r.Err)
		}
	}
	before, _ = ReadDB(w, 0)
	actors := make([]*actor, len(cs.Ops))
	sessions := make([]*world.Sess, len(cs.Ops))
	for i, op := range cs.Ops {
		actors[i] = &actor{op: op, done: make(chan string, 1)}
		if op == "conn2" {
			continue
		}
		s, err := w.Connect()
		if err != nil {
			return fail(err.Error())
		}
		w.Login(s, 0)
		sel := "INBOX"
		if op == "copy2" || op == "move2" {
			sel = "src"
		}
		if r := s.C.Cmd("SELECT " + sel); !r.OK() {
			return fail("select failed")
		}
		sessions[i] = s
	}
	h.SetGate(true)
	// start the actors one after the other; each parks at its first transaction (or finishes without one)
	waitEvent := func(a *actor) bool {
		deadline := time.Now().Add(60 * time.Second)
		for time.Now().Before(deadline) {
			select {
			case st := <-a.done:
				a.status, a.fin = st, true
				return true
			default:
			}
			if p := h.TakePending(); len(p) > 0 {
				if len(p) > 1 {
					x.engine = "two transactions arrived at the gate at once"
					for _, g := range p {
						g.Release()
					}
					return false
				}
				a.gate = p[0]
				return true
			}
			time.Sleep(20 * time.Microsecond)
		}
		x.engine = "actor neither reached a transaction nor finished: " + a.op
		return false
	}
	for i, a := range actors {
		i, a := i, a
		go func() {
			switch {
			case a.op == "append":
				r := sessions[i].C.CmdLit("APPEND INBOX", vconn.MakeLiteral(fmt.Sprintf("n%d", i)), "")
				a.done <- r.Status
			case a.op == "copy2":
				a.done <- sessions[i].C.Cmd("COPY 1:2 INBOX").Status
			case a.op == "move2":
				a.done <- sessions[i].C.Cmd("MOVE 1:2 INBOX").Status
			case strings.HasPrefix(a.op, "create:"):
				a.done <- sessions[i].C.Cmd("CREATE " + strings.TrimPrefix(a.op, "create:") + fmt.Sprint(i)).Status
			case a.op == "conn2":
				r := w.Inject(0, vconn.Spec{Kind: "MessagesCreated", Msgs: []string{"c-u1", "c-u2"}, Keys: []string{"u1", "u2"}, Mboxes: []string{"0"}})
				if r.Err != "" {
					a.done <- "NACK"
				} else {
					a.done <- "ACK"
				}
			}
		}()
		if !waitEvent(a) {
			h.SetGate(false)
			return x
		}
	}
	// explore: at each step choose among the actors that are parked at a transaction
	for {
		var en []int
		for i, a := range actors {
			if !a.fin && a.gate != nil {
				en = append(en, i)
			}
		}
		if len(en) == 0 {
			break
		}
		idx := 0
		if len(en) > 1 {
			pos := len(x.choices)
			if pos < len(prefix) {
				idx = prefix[pos]
				if idx >= len(en) {
					x.engine = "replay diverged"
					idx = 0
				}
			}
			x.trace = append(x.trace, en)
			x.choices = append(x.choices, idx)
		}
		a := actors[en[idx]]
		x.schedule = append(x.schedule, fmt.Sprintf("%s:%s", a.op, a.gate.Name))
		g := a.gate
		a.gate = nil
		g.Release()
		if !waitEvent(a) {
			h.SetGate(false)
			return x
		}
	}
	h.SetGate(false)
	for _, a := range actors {
		if !a.fin {
			select {
			case st := <-a.done:
				a.status, a.fin = st, true
			case <-time.After(30 * time.Second):
				x.engine = "actor did not finish: " + a.op
				return x
			}
		}
	}
	for _, s := range sessions {
		if s != nil {
			_ = w.Barrier(s)
		}
	}
	after, err := ReadDB(w, 0)
	if err != nil {
		x.engine = err.Error()
		return x
	}
	add := func(clause, sig, msg string) {
		x.viol = append(x.viol, enumt.Viol{Clause: clause, Sig: sig, Msg: fmt.Sprintf("ops %v limits mailboxes=%d messages=%d, schedule %v: %s", cs.Ops, cs.MaxMailboxes, cs.MaxMessages, x.schedule, msg)})
	}
	pair := strings.Join(cs.Ops, "+")
	if len(after.Mboxes) > int(cs.MaxMailboxes) {
		add("max-mailboxes", pair, fmt.Sprintf("%d mailboxes exist", len(after.Mboxes)))
	}
	var statuses []string
	for _, mb := range after.Mboxes {
		if len(mb.Msgs) > int(cs.MaxMessages) {
			add("max-messages", pair, fmt.Sprintf("mailbox %s holds %d messages", mb.Name, len(mb.Msgs)))
		}
	}
	// all-or-nothing per operation
	inbox := map[string]bool{}
	if mb := after.Mbox("INBOX"); mb != nil {
		for _, m := range mb.Msgs {
			inbox[m.Remote] = true
		}
	}
	for i, a := range actors {
		statuses = append(statuses, a.status)
		okStatus := a.status == "OK" || a.status == "ACK"
		var mine []string
		switch a.op {
		case "copy2", "move2":
			mine = []string{"c-s1", "c-s2"}
		case "conn2":
			mine = []string{"c-u1", "c-u2"}
		case "append":
			_ = i
		}
		if len(mine) > 0 {
			n := 0
			for _, m := range mine {
				if inbox[m] {
					n++
				}
			}
			if okStatus && n != len(mine) {
				add("partial-effect", a.op, fmt.Sprintf("%s was accepted (%s) but only %d of its %d messages are in INBOX", a.op, a.status, n, len(mine)))
			}
			if !okStatus && n != 0 {
				add("partial-effect", a.op, fmt.Sprintf("%s was refused (%s) but %d of its messages are in INBOX", a.op, a.status, n))
			}
		}
	}
	sort.Strings(statuses)
	cnt := 0
	if mb := after.Mbox("INBOX"); mb != nil {
		cnt = len(mb.Msgs)
	}
	x.outcome = fmt.Sprintf("%v inbox=%d boxes=%d", statuses, cnt, len(after.Mboxes))
	return x
}

func c17concCall(raw json.RawMessage) (any, error) {
	chunk, err := enumt.ParseChunk(raw)
	if err != nil {
		return nil, err
	}
	res := &enumt.Result{Counters: map[string]int{}}
	outcomes := map[string]bool{}
	for _, rc := range chunk.Cases {
		var cs ConcCase
		// a replay artefact carries {"case": ..., "schedule": [...]}: that one schedule is executed, without the explorer
		var rep struct {
			Case     *ConcCase `json:"case"`
			Schedule []int     `json:"schedule"`
		}
		if err := json.Unmarshal(rc, &rep); err == nil && rep.Case != nil {
			x := runConc(*rep.Case, rep.Schedule)
			if x.engine != "" {
				return nil, fmt.Errorf("c17conc replay: %s", x.engine)
			}
			res.Evaluations++
			res.Viol = append(res.Viol, x.viol...)
			continue
		}
		if err := json.Unmarshal(rc, &cs); err != nil {
			return nil, err
		}
		stack := [][]int{{}}
		n := 0
		seen := map[string]bool{}
		for len(stack) > 0 {
			prefix := stack[len(stack)-1]
			stack = stack[:len(stack)-1]
			x := runConc(cs, prefix)
			n++
			res.Evaluations++
			if x.engine != "" {
				return nil, fmt.Errorf("c17conc %v prefix %v: %s", cs.Ops, prefix, x.engine)
			}
			for _, v := range x.viol {
				if !seen[v.Clause+v.Sig] {
					seen[v.Clause+v.Sig] = true
					v.Input = map[string]any{"case": cs, "schedule": x.choices}
					res.Viol = append(res.Viol, v)
				}
			}
			outcomes[strings.Join(cs.Ops, "+")+"|"+x.outcome] = true
			for i := len(x.trace) - 1; i >= len(prefix); i-- {
				for alt := len(x.trace[i]) - 1; alt >= 1; alt-- {
					stack = append(stack, append(append([]int{}, x.choices[:i]...), alt))
				}
			}
			if n >= 20000 {
				// reported, not an error: the case is explored up to the cap
				res.Counters["capped-cases"]++
				res.Counters["non-exhaustive"]++
				break
			}
		}
		res.Counters["interleavings:"+strings.Join(cs.Ops, "+")] += n
		if len(res.Samples) < 2 {
			res.Samples = append(res.Samples, map[string]any{"case": cs, "interleavings": n})
		}
	}
	for k := range outcomes {
		res.Outcomes = append(res.Outcomes, k)
	}
	return res, nil
}
