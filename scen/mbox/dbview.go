package mbox

import (
	"context"
	"fmt"
	"sort"
	"strings"

	"github.com/ProtonMail/gluon/db"
	"github.com/ProtonMail/gluon/imap"

	"verif/engine/world"
)

type DBMsg struct {
	UID      uint32
	Internal string
	Remote   string
	Flags    []string // lower-cased, sorted, with \deleted, without \recent
	Recent   bool
}

type DBMbox struct {
	Name        string
	ID          uint64
	Remote      string
	UIDValidity uint32
	UIDNext     uint32
	Subscribed  bool
	Msgs        []DBMsg
}

type DBView struct {
	Mboxes     []DBMbox
	DeletedSub []string
	Marked     int // messages marked deleted in the message table
}

func normFlags(fs imap.FlagSet) []string {
	var out []string
	for _, f := range fs.ToSlice() {
		l := strings.ToLower(f)
		if l == `\recent` {
			continue
		}
		out = append(out, l)
	}
	sort.Strings(out)
	return out
}

// ReadDB reads the authoritative mailbox contents through the public db interface.
func ReadDB(w *world.World, user int) (DBView, error) {
	var v DBView
	client := w.DB(user)
	if client == nil {
		return v, fmt.Errorf("no db for user %d", user)
	}
	err := client.Read(context.Background(), func(ctx context.Context, r db.ReadOnly) error {
		mboxes, err := r.GetAllMailboxesWithAttr(ctx)
		if err != nil {
			return err
		}
		for _, mb := range mboxes {
			m := DBMbox{Name: mb.Name, ID: uint64(mb.ID), Remote: string(mb.RemoteID), UIDValidity: uint32(mb.UIDValidity), Subscribed: mb.Subscribed}
			next, err := r.GetMailboxUID(ctx, mb.ID)
			if err != nil {
				return err
			}
			m.UIDNext = uint32(next)
			rows, err := r.GetMailboxMessageForNewSnapshot(ctx, mb.ID)
			if err != nil {
				return err
			}
			for _, row := range rows {
				fs := row.GetFlagSet()
				m.Msgs = append(m.Msgs, DBMsg{UID: uint32(row.UID), Internal: row.InternalID.String(), Remote: string(row.RemoteID), Flags: normFlags(fs), Recent: row.Recent})
			}
			sort.SliceStable(m.Msgs, func(i, j int) bool { return m.Msgs[i].UID < m.Msgs[j].UID })
			v.Mboxes = append(v.Mboxes, m)
		}
		ds, err := r.GetDeletedSubscriptionSet(ctx)
		if err != nil {
			return err
		}
		for _, d := range ds {
			v.DeletedSub = append(v.DeletedSub, d.Name)
		}
		sort.Strings(v.DeletedSub)
		marked, err := r.GetMessageIDsMarkedAsDelete(ctx)
		if err != nil {
			return err
		}
		v.Marked = len(marked)
		return nil
	})
	sort.Slice(v.Mboxes, func(i, j int) bool { return v.Mboxes[i].Name < v.Mboxes[j].Name })
	return v, err
}

func (v DBView) Mbox(name string) *DBMbox {
	for i := range v.Mboxes {
		if v.Mboxes[i].Name == name {
			return &v.Mboxes[i]
		}
	}
	return nil
}

func (v DBView) MboxByID(id uint64) *DBMbox {
	for i := range v.Mboxes {
		if v.Mboxes[i].ID == id {
			return &v.Mboxes[i]
		}
	}
	return nil
}

// InternalToRemote maps internal message ids to remote ids for all messages in any mailbox.
func (v DBView) InternalToRemote() map[string]string {
	out := map[string]string{}
	for _, mb := range v.Mboxes {
		for _, m := range mb.Msgs {
			out[m.Internal] = m.Remote
		}
	}
	return out
}

// Canon renders the view; UIDVALIDITY values are replaced by their rank.
func (v DBView) Canon() string {
	var vals []uint32
	for _, mb := range v.Mboxes {
		vals = append(vals, mb.UIDValidity)
	}
	sort.Slice(vals, func(i, j int) bool { return vals[i] < vals[j] })
	rank := map[uint32]int{}
	for _, x := range vals {
		if _, ok := rank[x]; !ok {
			rank[x] = len(rank)
		}
	}
	var b strings.Builder
	for _, mb := range v.Mboxes {
		fmt.Fprintf(&b, "[%s r=%s v#%d next=%d sub=%v:", mb.Name, mb.Remote, rank[mb.UIDValidity], mb.UIDNext, mb.Subscribed)
		for _, m := range mb.Msgs {
			remote := m.Remote
			if strings.HasPrefix(remote, "GLUON-RECOVERED-MESSAGE-") {
				remote = "GLUON-RECOVERED-MESSAGE" // random suffix
			}
			fmt.Fprintf(&b, " (%d %s %v r=%v)", m.UID, remote, m.Flags, m.Recent)
		}
		b.WriteString("]")
	}
	fmt.Fprintf(&b, " delsub=%v marked=%d", v.DeletedSub, v.Marked)
	return b.String()
}
