// Package mbox is the "sessions on a mailbox" scenario: N sessions of one user, connector updates and explicit
// update delivery, with the client-side mirror (C01), quiescence convergence (C02) and EXPUNGE discipline (C05)
// oracles.
package mbox

import (
	"encoding/json"
	"fmt"
	"regexp"
	"sort"
	"strings"
	"time"

	"verif/engine/explore"
	"verif/engine/imapc"
	"verif/engine/vconn"
	"verif/engine/world"
)

type InitMsg struct {
	Key   string   `json:"key"`
	Flags []string `json:"flags,omitempty"`
}

type Params struct {
	NSess     int                  `json:"nsess"`
	Sel       []string             `json:"sel,omitempty"`
	Mailboxes []string             `json:"mailboxes,omitempty"`
	Init      map[string][]InitMsg `json:"init,omitempty"`
	Alphabet  []explore.Event      `json:"alphabet"`
	Oracles   []string             `json:"oracles"`
	Hold      bool                 `json:"hold"`
	// IdleBulkMS: gluon's IDLE bulk time in ms (0 = responses are sent at once). With a value far above the length of
	// a run nothing is flushed by the timer: what is pushed during IDLE stays buffered until IDLE ends.
	IdleBulkMS int `json:"idle_bulk_ms,omitempty"`
}

type sess struct {
	s   *world.Sess
	mir Mirror
}

type run struct {
	p           Params
	w           *world.World
	sess        []*sess
	keyN        int
	orc         map[string]bool
	lastRemoved string // remote id of the message most recently removed by a conn event
	lastRemMbox string
	broken      string // engine-level problem (reported as engine error, not as violation)
	// tainted: messages on which some session executed a mutating command of its own while an update about that
	// very message was still held or queued for that session (the session acted on a stale view of the message).
	tainted map[string]bool
	// ooo: sessions in whose view a message arrived out of UID order (a queued EXISTS with a UID below one that is
	// already in the view, or a message inserted before existing ones).
	ooo      map[int]bool
	prevSnap map[int][]string
}

func init() {
	explore.Register("mbox", New)
}

func New(raw json.RawMessage) (explore.Run, error) {
	var p Params
	if err := json.Unmarshal(raw, &p); err != nil {
		return nil, err
	}
	r := &run{p: p, orc: map[string]bool{}, tainted: map[string]bool{}, ooo: map[int]bool{}, prevSnap: map[int][]string{}}
	for _, o := range p.Oracles {
		r.orc[o] = true
	}
	w, err := world.New(world.Config{Hold: p.Hold, IdleBulk: time.Duration(p.IdleBulkMS) * time.Millisecond})
	if err != nil {
		return nil, err
	}
	r.w = w
	for _, name := range p.Mailboxes {
		spec := vconn.Spec{Kind: "MailboxCreated", Mbox: "mb-" + name, Name: strings.Split(name, "/")}
		if res := w.Inject(0, spec); res.Err != "" || !res.Done {
			w.Close()
			return nil, fmt.Errorf("setup mailbox %s: %+v", name, res)
		}
		w.Users[0].Conn.NoteRemote(spec)
	}
	var names []string
	for name := range p.Init {
		names = append(names, name)
	}
	sort.Strings(names)
	for _, name := range names {
		for _, im := range p.Init[name] {
			remote, err := r.mboxRemote(name)
			if err != nil {
				w.Close()
				return nil, err
			}
			spec := vconn.Spec{Kind: "MessagesCreated", Msg: "c-" + im.Key, Key: im.Key, Mboxes: []string{remote}, Flags: im.Flags}
			if res := w.Inject(0, spec); res.Err != "" || !res.Done {
				w.Close()
				return nil, fmt.Errorf("setup message %s: %+v", im.Key, res)
			}
			w.Users[0].Conn.NoteRemote(spec)
		}
	}
	for i := 0; i < p.NSess; i++ {
		s, err := w.Connect()
		if err != nil {
			w.Close()
			return nil, err
		}
		if res := w.Login(s, 0); !res.OK() {
			w.Close()
			return nil, fmt.Errorf("login: %v", res.Lines())
		}
		ss := &sess{s: s}
		r.sess = append(r.sess, ss)
		sel := "INBOX"
		if i < len(p.Sel) {
			sel = p.Sel[i]
		}
		if sel != "" {
			res := s.C.Cmd("SELECT " + quote(sel))
			if !res.OK() {
				w.Close()
				return nil, fmt.Errorf("select: %v", res.Lines())
			}
			r.afterCommand(i, "SELECT", res, nil)
		}
	}
	return r, nil
}

func quote(s string) string { return `"` + strings.ReplaceAll(s, `"`, `\"`) + `"` }

func (r *run) Close() { r.w.Close() }

func (r *run) mboxRemote(name string) (string, error) {
	v, err := ReadDB(r.w, 0)
	if err != nil {
		return "", err
	}
	mb := v.Mbox(name)
	if mb == nil {
		return "", fmt.Errorf("no mailbox %q", name)
	}
	return mb.Remote, nil
}

// ---------------------------------------------------------------------------------------------------------------
// Enabledness

var selectedCmds = map[string]bool{"FETCH": true, "STORE": true, "SEARCH": true, "COPY": true, "MOVE": true, "EXPUNGE": true, "CHECK": true, "CLOSE": true, "UNSELECT": true, "UID": true}

func cmdKind(text string) string {
	f := strings.Fields(strings.ToUpper(text))
	if len(f) == 0 {
		return ""
	}
	if f[0] == "UID" && len(f) > 1 {
		return "UID " + f[1]
	}
	return f[0]
}

func (r *run) selected(i int) bool {
	d, ok := r.w.DumpOf(r.sess[i].s)
	return ok && d.Selected
}

func (r *run) Enabled() []explore.Event {
	var out []explore.Event
	for _, ev := range r.p.Alphabet {
		if r.enabled(ev) {
			out = append(out, ev)
		}
	}
	return out
}

func (r *run) enabled(ev explore.Event) bool {
	switch ev.K {
	case "cmd", "append", "probe", "idle":
		if ev.S >= len(r.sess) {
			return false
		}
		s := r.sess[ev.S]
		if s.s.Dead || s.s.Idle {
			return false
		}
		if ev.K == "probe" || ev.K == "idle" {
			return r.selected(ev.S)
		}
		if ev.K == "cmd" {
			k := strings.Fields(strings.ToUpper(ev.A))[0]
			if selectedCmds[k] && !r.selected(ev.S) {
				return false
			}
		}
		return true
	case "done":
		return ev.S < len(r.sess) && r.sess[ev.S].s.Idle && !r.sess[ev.S].s.Dead
	case "deliver":
		return ev.S < len(r.sess) && r.w.Held(r.sess[ev.S].s) > 0
	case "echo":
		return len(r.w.Users[0].Conn.Echoes) > 0
	case "conn":
		_, ok := r.resolveConn(ev)
		return ok
	case "logout", "drop":
		return ev.S < len(r.sess) && !r.sess[ev.S].s.Dead && !r.sess[ev.S].s.Idle
	}
	return true
}

// resolveConn turns a conn op (see the alphabet description in DESIGN.md) into a concrete update spec.
func (r *run) resolveConn(ev explore.Event) (vconn.Spec, bool) {
	parts := strings.Split(ev.A, ":")
	v, err := ReadDB(r.w, 0)
	if err != nil {
		return vconn.Spec{}, false
	}
	pick := func(mbox, sel string) (*DBMbox, *DBMsg) {
		mb := v.Mbox(mbox)
		if mb == nil || len(mb.Msgs) == 0 {
			return mb, nil
		}
		if sel == "first" {
			return mb, &mb.Msgs[0]
		}
		return mb, &mb.Msgs[len(mb.Msgs)-1]
	}
	curMboxes := func(internal string) []string {
		var out []string
		for _, mb := range v.Mboxes {
			for _, m := range mb.Msgs {
				if m.Internal == internal {
					out = append(out, mb.Remote)
				}
			}
		}
		sort.Strings(out)
		return out
	}
	// message flags as stored (without the per-mailbox \deleted)
	msgFlags := func(m *DBMsg) []string {
		var out []string
		for _, f := range m.Flags {
			if f != `\deleted` {
				out = append(out, canonFlag(f))
			}
		}
		return out
	}
	switch parts[0] {
	case "create":
		mb := v.Mbox(parts[1])
		if mb == nil {
			return vconn.Spec{}, false
		}
		key := fmt.Sprintf("k%d", r.keyN+1)
		var fl []string
		if ev.B != "" {
			fl = strings.Fields(ev.B)
		}
		return vconn.Spec{Kind: "MessagesCreated", Msg: "c-" + key, Key: key, Mboxes: []string{mb.Remote}, Flags: fl}, true
	case "flags": // flags:<mbox>:<sel>:<flag,flag>
		_, m := pick(parts[1], parts[2])
		if m == nil {
			return vconn.Spec{}, false
		}
		fl := []string{}
		if len(parts) > 3 && parts[3] != "" {
			fl = strings.Split(parts[3], ",")
		}
		return vconn.Spec{Kind: "MessageFlagsUpdated", Msg: m.Remote, Flags: fl}, true
	case "addflag", "remflag": // addflag:<mbox>:<sel>:<flag>
		_, m := pick(parts[1], parts[2])
		if m == nil {
			return vconn.Spec{}, false
		}
		cur := msgFlags(m)
		has := false
		var out []string
		for _, f := range cur {
			if strings.EqualFold(f, parts[3]) {
				has = true
				if parts[0] == "remflag" {
					continue
				}
			}
			out = append(out, f)
		}
		if parts[0] == "addflag" {
			if has {
				return vconn.Spec{}, false
			}
			out = append(out, parts[3])
		} else if !has {
			return vconn.Spec{}, false
		}
		if out == nil {
			out = []string{}
		}
		return vconn.Spec{Kind: "MessageFlagsUpdated", Msg: m.Remote, Flags: out}, true
	case "remove": // remove:<mbox>:<sel>
		mb, m := pick(parts[1], parts[2])
		if m == nil {
			return vconn.Spec{}, false
		}
		var mbs []string
		for _, x := range curMboxes(m.Internal) {
			if x != mb.Remote {
				mbs = append(mbs, x)
			}
		}
		if mbs == nil {
			mbs = []string{}
		}
		return vconn.Spec{Kind: "MessageMailboxesUpdated", Msg: m.Remote, Mboxes: mbs, Flags: msgFlags(m)}, true
	case "add": // add:<from mbox>:<sel>:<to mbox>
		_, m := pick(parts[1], parts[2])
		to := v.Mbox(parts[3])
		if m == nil || to == nil {
			return vconn.Spec{}, false
		}
		mbs := curMboxes(m.Internal)
		for _, x := range mbs {
			if x == to.Remote {
				return vconn.Spec{}, false
			}
		}
		mbs = append(mbs, to.Remote)
		sort.Strings(mbs)
		return vconn.Spec{Kind: "MessageMailboxesUpdated", Msg: m.Remote, Mboxes: mbs, Flags: msgFlags(m)}, true
	case "addfl", "movefl": // addfl:<from>:<sel>:<to>:<flag> — add to <to> (movefl: and remove from <from>) AND add a flag, in one update
		from, m := pick(parts[1], parts[2])
		to := v.Mbox(parts[3])
		if m == nil || to == nil {
			return vconn.Spec{}, false
		}
		var mbs []string
		for _, x := range curMboxes(m.Internal) {
			if x == to.Remote {
				return vconn.Spec{}, false
			}
			if parts[0] == "movefl" && x == from.Remote {
				continue
			}
			mbs = append(mbs, x)
		}
		mbs = append(mbs, to.Remote)
		sort.Strings(mbs)
		fl := msgFlags(m)
		for _, f := range fl {
			if strings.EqualFold(f, parts[4]) {
				return vconn.Spec{}, false
			}
		}
		fl = append(fl, parts[4])
		return vconn.Spec{Kind: "MessageMailboxesUpdated", Msg: m.Remote, Mboxes: mbs, Flags: fl}, true
	case "readd": // readd:<mbox> — put the most recently removed message back
		mb := v.Mbox(parts[1])
		if mb == nil || r.lastRemoved == "" || r.lastRemMbox != parts[1] {
			return vconn.Spec{}, false
		}
		rm, ok := r.w.Users[0].Conn.Messages[imapMsgID(r.lastRemoved)]
		if !ok {
			return vconn.Spec{}, false
		}
		mbs := []string{mb.Remote}
		for x := range rm.Mboxes {
			if string(x) != mb.Remote {
				mbs = append(mbs, string(x))
			}
		}
		sort.Strings(mbs)
		fl := rm.Flags.ToSlice()
		sort.Strings(fl)
		if fl == nil {
			fl = []string{}
		}
		for _, m := range mb.Msgs {
			if m.Remote == r.lastRemoved {
				return vconn.Spec{}, false
			}
		}
		return vconn.Spec{Kind: "MessageMailboxesUpdated", Msg: r.lastRemoved, Mboxes: mbs, Flags: fl}, true
	case "delete":
		_, m := pick(parts[1], parts[2])
		if m == nil {
			return vconn.Spec{}, false
		}
		return vconn.Spec{Kind: "MessageDeleted", Msg: m.Remote}, true
	case "bump":
		return vconn.Spec{Kind: "UIDValidityBumped"}, true
	}
	return vconn.Spec{}, false
}

func canonFlag(l string) string {
	switch l {
	case `\seen`:
		return `\Seen`
	case `\flagged`:
		return `\Flagged`
	case `\answered`:
		return `\Answered`
	case `\draft`:
		return `\Draft`
	case `\deleted`:
		return `\Deleted`
	}
	return l
}

// ---------------------------------------------------------------------------------------------------------------
// Step

func (r *run) viol(prop, clause, sig, msg string) explore.Violation {
	return explore.Violation{Prop: prop, Clause: clause, Sig: sig, Msg: msg}
}

const probeCmd = "UID FETCH 1:* (FLAGS RFC822.SIZE)"

func (r *run) Step(ev explore.Event) []explore.Violation {
	var out []explore.Violation
	switch ev.K {
	case "cmd":
		s := r.sess[ev.S]
		r.noteStaleAction(ev.S, ev.A)
		res := s.s.C.Cmd(ev.A)
		out = append(out, r.afterCommand(ev.S, cmdKind(ev.A), res, &ev)...)
	case "append":
		s := r.sess[ev.S]
		r.keyN++
		key := fmt.Sprintf("k%d", r.keyN)
		prefix := "APPEND " + quote(ev.A)
		if ev.B != "" {
			prefix += " (" + ev.B + ")"
		}
		res := s.s.C.CmdLit(prefix, vconn.MakeLiteral(key), "")
		out = append(out, r.afterCommand(ev.S, "APPEND", res, &ev)...)
	case "probe":
		out = append(out, r.probe(ev.S)...)
	case "deliver":
		s := r.sess[ev.S]
		lines, ok, err := r.w.Deliver(s.s)
		if err != nil {
			r.broken = "deliver: " + err.Error()
		}
		if ok {
			for _, l := range lines {
				if msg := s.mir.Apply(imapc.ParseUntagged(l)); msg != "" {
					out = append(out, r.viol("C01", "mirror", "idle-push", fmt.Sprintf("session %d during IDLE: %s (line %q)", ev.S, msg, l.Text)))
				}
			}
		}
	case "idle":
		s := r.sess[ev.S]
		lines, refused, err := r.w.IdleStart(s.s)
		if err != nil {
			r.broken = "idle: " + err.Error()
		}
		_ = refused
		for _, l := range lines {
			if msg := s.mir.Apply(imapc.ParseUntagged(l)); msg != "" {
				out = append(out, r.viol("C01", "mirror", "idle-enter", fmt.Sprintf("session %d entering IDLE: %s (line %q)", ev.S, msg, l.Text)))
			}
		}
		out = append(out, r.afterPermitting(ev.S, "IDLE")...)
	case "done":
		s := r.sess[ev.S]
		lines, _, err := r.w.IdleDone(s.s)
		if err != nil {
			r.broken = "done: " + err.Error()
		}
		for _, l := range lines {
			if msg := s.mir.Apply(imapc.ParseUntagged(l)); msg != "" {
				out = append(out, r.viol("C01", "mirror", "idle-done", fmt.Sprintf("session %d leaving IDLE: %s (line %q)", ev.S, msg, l.Text)))
			}
		}
	case "conn":
		spec, ok := r.resolveConn(ev)
		if !ok {
			break
		}
		if spec.Kind == "MessagesCreated" && strings.HasPrefix(ev.A, "create") {
			r.keyN++
		}
		res := r.w.Inject(0, spec)
		if res.TimedOut {
			out = append(out, r.viol("C06", "ack", "timeout/"+spec.Kind, "connector update never acknowledged: "+spec.String()))
		}
		if res.Err == "" {
			r.w.Users[0].Conn.NoteRemote(spec)
			if strings.HasPrefix(ev.A, "remove:") {
				r.lastRemoved = spec.Msg
				r.lastRemMbox = strings.Split(ev.A, ":")[1]
			}
			if strings.HasPrefix(ev.A, "readd:") {
				r.lastRemoved = ""
			}
		}
	case "echo":
		spec, ok := r.w.Users[0].Conn.PopEcho(0)
		if ok {
			r.w.Inject(0, spec)
		}
	case "logout":
		r.w.Logout(r.sess[ev.S].s)
		r.sess[ev.S].mir.Invalidate()
	case "drop":
		r.w.Drop(r.sess[ev.S].s)
		r.sess[ev.S].mir.Invalidate()
	default:
		r.broken = "unknown event kind " + ev.K
	}
	// Every live session goroutine is back in its select loop before the state is looked at.
	for _, s := range r.sess {
		if err := r.w.Barrier(s.s); err != nil {
			r.broken = "barrier: " + err.Error()
		}
	}
	r.noteOutOfOrder()
	out = append(out, r.invariants()...)
	out = r.relabel(out)
	if r.broken != "" {
		out = append(out, r.viol("ENGINE", "engine", "broken", r.broken))
	}
	return out
}

var mutatingNoExpunge = map[string]bool{"FETCH": true, "STORE": true, "SEARCH": true, "UID FETCH": true, "UID STORE": true, "UID SEARCH": true}
var permitting = map[string]bool{"NOOP": true, "CHECK": true, "EXPUNGE": true, "MOVE": true, "UID MOVE": true, "UID EXPUNGE": true}

// afterCommand feeds the responses of one command of session i through the monitors.
func (r *run) afterCommand(i int, kind string, res imapc.Result, ev *explore.Event) []explore.Violation {
	var out []explore.Violation
	s := r.sess[i]
	if res.Err != nil {
		if s.s.C.Closed {
			s.s.Dead = true
			s.mir.Invalidate()
			return out
		}
		r.broken = fmt.Sprintf("session %d: %v", i, res.Err)
		return out
	}
	switch kind {
	case "SELECT", "EXAMINE":
		if res.OK() {
			n := 0
			for _, u := range res.Untagged {
				if p := imapc.ParseUntagged(u); p.Kind == "EXISTS" {
					n = p.N
				}
			}
			s.mir.Reset(n)
			if n > 0 {
				// like a real client, the mirror learns UIDs and flags of what is there right after selecting: flag
				// changes that are later applied to the view without being announced become visible to the probe
				res2 := s.s.C.Cmd("UID FETCH 1:* (FLAGS)")
				out = append(out, r.afterCommand(i, "UID FETCH", res2, nil)...)
			}
		} else if !r.selected(i) {
			s.mir.Invalidate()
		}
		return out
	case "CLOSE", "UNSELECT":
		if res.OK() {
			s.mir.Invalidate()
		}
		return out
	}
	if !s.mir.Valid {
		return out
	}
	countBefore := len(s.mir.Cells)
	for _, u := range res.Untagged {
		p := imapc.ParseUntagged(u)
		if p.Kind == "EXPUNGE" && mutatingNoExpunge[kind] {
			out = append(out, r.viol("C05", "expunge-during", kind, fmt.Sprintf("session %d got %q while answering %s", i, u.Text, kind)))
		}
		if msg := s.mir.Apply(p); msg != "" {
			out = append(out, r.viol("C01", "mirror", "cmd/"+kind, fmt.Sprintf("session %d, %s: %s (line %q)", i, kind, msg, u.Text)))
		}
	}
	if (kind == "STORE" || kind == "UID STORE") && ev != nil && strings.Contains(strings.ToUpper(ev.A), ".SILENT") {
		f := strings.Fields(ev.A)
		if kind == "UID STORE" && len(f) > 2 {
			s.mir.ForgetFlagsOf(f[2], true, countBefore)
		} else if kind == "STORE" && len(f) > 1 {
			s.mir.ForgetFlagsOf(f[1], false, countBefore)
		} else {
			s.mir.ForgetFlags()
		}
	}
	if mutatingNoExpunge[kind] && res.OK() && r.orc["c05"] {
		if d, ok := r.w.DumpOf(s.s); ok && pendingExpunges(d) > 0 {
			if !strings.Contains(res.Tagged.Text, "EXPUNGEISSUED") {
				out = append(out, r.viol("C05", "expungeissued", kind, fmt.Sprintf("session %d: %s held back %d removal(s) but the reply %q has no [EXPUNGEISSUED]", i, kind, pendingExpunges(d), res.Tagged.Text)))
			}
		}
	}
	if permitting[kind] && res.OK() {
		out = append(out, r.afterPermitting(i, kind)...)
	}
	if kind == "APPEND" && res.OK() && ev != nil {
		if d, ok := r.w.DumpOf(s.s); ok && d.Selected {
			if v, err := ReadDB(r.w, 0); err == nil {
				if mb := v.MboxByID(d.MboxID); mb != nil && strings.EqualFold(mb.Name, ev.A) {
					out = append(out, r.afterPermitting(i, "APPEND")...)
				}
			}
		}
	}
	return out
}

var expRe = regexp.MustCompile(`^Expunge: message = ([0-9a-f-]+)`)

// pendingExpunges counts queued expunge responders that refer to a message of the snapshot.
func pendingExpunges(d world.StateDump) int {
	in := map[string]bool{}
	for _, m := range d.Msgs {
		in[shortID(m.Internal)] = true
	}
	n := 0
	for _, rs := range d.Responders {
		if m := expRe.FindStringSubmatch(rs); m != nil && in[m[1]] {
			n++
		}
	}
	return n
}

func shortID(id string) string {
	if len(id) < 36 {
		return id
	}
	return id[:36]
}

// afterPermitting: after a command that permits EXPUNGE responses no delivered removal may remain unannounced.
func (r *run) afterPermitting(i int, kind string) []explore.Violation {
	if !r.orc["c05"] {
		return nil
	}
	d, ok := r.w.DumpOf(r.sess[i].s)
	if !ok || !d.Selected {
		return nil
	}
	if n := pendingExpunges(d); n > 0 {
		return []explore.Violation{r.viol("C05", "announce", kind, fmt.Sprintf("session %d: %d delivered removal(s) still unannounced after %s", i, n, kind))}
	}
	return nil
}

// invariants on the snapshot of every session (white-box cross-check through the dump hook).
func (r *run) invariants() []explore.Violation {
	var out []explore.Violation
	for i, s := range r.sess {
		d, ok := r.w.DumpOf(s.s)
		if !ok || !d.Selected {
			continue
		}
		seen := map[string]bool{}
		var last uint32
		for _, m := range d.Msgs {
			if seen[m.Internal] {
				out = append(out, r.viol("C05", "duplicate", "snapshot", fmt.Sprintf("session %d: message %s twice in the view", i, m.Remote)))
			}
			seen[m.Internal] = true
			if m.UID <= last {
				out = append(out, r.viol("C01", "uid-order", "snapshot", fmt.Sprintf("session %d: UID %d after %d in the view", i, m.UID, last)))
			}
			last = m.UID
		}
		if s.mir.Valid && !s.s.Idle && len(d.Msgs) != len(s.mir.Cells) {
			out = append(out, r.viol("C01", "count", "snapshot", fmt.Sprintf("session %d: server view holds %d messages, client was told %d", i, len(d.Msgs), len(s.mir.Cells))))
		}
	}
	return out
}

func sortRows(rows []*imapc.FetchRow) {
	sort.SliceStable(rows, func(a, b int) bool { return rows[a].Seq < rows[b].Seq })
}

// probe asks the server for its view and compares it with the mirror.
func (r *run) probe(i int) []explore.Violation {
	var out []explore.Violation
	s := r.sess[i]
	res := s.s.C.Cmd(probeCmd)
	if res.Err != nil {
		r.broken = fmt.Sprintf("probe session %d: %v", i, res.Err)
		return out
	}
	if !res.OK() {
		out = append(out, r.viol("C01", "probe", "refused", fmt.Sprintf("session %d: probe answered %q", i, res.Tagged.Text)))
		return out
	}
	var rows []*imapc.FetchRow
	var trailing []imapc.Untagged
	sawOther := false
	for _, u := range res.Untagged {
		p := imapc.ParseUntagged(u)
		if p.Kind == "FETCH" && strings.Contains(u.Text, "RFC822.SIZE") {
			if sawOther {
				out = append(out, r.viol("C01", "probe", "order", fmt.Sprintf("session %d: data row after an unsolicited response", i)))
			}
			rows = append(rows, p.Row)
			continue
		}
		sawOther = true
		trailing = append(trailing, p)
		if p.Kind == "EXPUNGE" {
			out = append(out, r.viol("C05", "expunge-during", "UID FETCH", fmt.Sprintf("session %d got %q while answering the probe", i, u.Text)))
		}
	}
	sortRows(rows)
	if s.mir.Valid {
		if clause, msg := s.mir.CheckRows(rows); clause != "" {
			out = append(out, r.viol("C01", clause, "probe", fmt.Sprintf("session %d: %s", i, msg)))
		}
		s.mir.Learn(rows)
		for _, p := range trailing {
			if msg := s.mir.Apply(p); msg != "" {
				out = append(out, r.viol("C01", "mirror", "probe-trailing", fmt.Sprintf("session %d: %s", i, msg)))
			}
		}
	}
	if r.orc["c05"] {
		if d, ok := r.w.DumpOf(s.s); ok && pendingExpunges(d) > 0 && !strings.Contains(res.Tagged.Text, "EXPUNGEISSUED") {
			out = append(out, r.viol("C05", "expungeissued", "UID FETCH", fmt.Sprintf("session %d: probe held back removals but the reply %q has no [EXPUNGEISSUED]", i, res.Tagged.Text)))
		}
	}
	return out
}

// ---------------------------------------------------------------------------------------------------------------
// Stale-own-action bookkeeping (used to tell the known ordering defect from other convergence failures).

var uuid36 = regexp.MustCompile(`[0-9a-f]{8}-[0-9a-f]{4}-[0-9a-f]{4}-[0-9a-f]{4}-[0-9a-f]{12}`)

func resolveSet(set string, n int, uids []uint32, byUID bool) []int {
	var out []int
	num := func(x string) (uint64, bool) {
		if x == "*" {
			if byUID {
				if n == 0 {
					return 0, false
				}
				return uint64(uids[n-1]), true
			}
			return uint64(n), true
		}
		var v uint64
		if _, err := fmt.Sscanf(x, "%d", &v); err != nil {
			return 0, false
		}
		return v, true
	}
	for _, part := range strings.Split(set, ",") {
		lohi := strings.SplitN(part, ":", 2)
		lo, ok := num(lohi[0])
		if !ok {
			continue
		}
		hi := lo
		if len(lohi) == 2 {
			if hi, ok = num(lohi[1]); !ok {
				continue
			}
		}
		if lo > hi {
			lo, hi = hi, lo
		}
		for i := 0; i < n; i++ {
			v := uint64(i + 1)
			if byUID {
				v = uint64(uids[i])
			}
			if v >= lo && v <= hi {
				out = append(out, i)
			}
		}
	}
	return out
}

func (r *run) noteStaleAction(i int, text string) {
	f := strings.Fields(text)
	if len(f) == 0 {
		return
	}
	kind := cmdKind(text)
	byUID := strings.HasPrefix(kind, "UID ")
	base := strings.TrimPrefix(kind, "UID ")
	argi := 1
	if byUID {
		argi = 2
	}
	d, ok := r.w.DumpOf(r.sess[i].s)
	if !ok || !d.Selected {
		return
	}
	uids := make([]uint32, len(d.Msgs))
	for k, m := range d.Msgs {
		uids[k] = m.UID
	}
	var idx []int
	switch base {
	case "STORE", "COPY", "MOVE":
		if len(f) > argi {
			idx = resolveSet(f[argi], len(d.Msgs), uids, byUID)
		}
	case "FETCH":
		up := strings.ToUpper(text)
		if len(f) > argi && (strings.Contains(up, "BODY[") || strings.Contains(up, "RFC822")) && !strings.Contains(up, "RFC822.SIZE") && !strings.Contains(up, "RFC822.HEADER") {
			idx = resolveSet(f[argi], len(d.Msgs), uids, byUID)
		}
	case "EXPUNGE", "CLOSE":
		for k := range d.Msgs {
			idx = append(idx, k)
		}
	default:
		return
	}
	if len(idx) == 0 {
		return
	}
	pending := map[string]bool{}
	for _, x := range append(append([]string{}, d.Held...), d.Responders...) {
		for _, u := range uuid36.FindAllString(x, -1) {
			pending[u] = true
		}
	}
	for _, k := range idx {
		if pending[d.Msgs[k].Internal] {
			r.tainted[d.Msgs[k].Remote] = true
		}
	}
}

func (r *run) taintCanon() string {
	var t []string
	for k := range r.tainted {
		t = append(t, k)
	}
	sort.Strings(t)
	return strings.Join(t, ",")
}

var texRe = regexp.MustCompile(`TargetedExists: message = \S+ uid = (\d+)`)
var sessRe = regexp.MustCompile(`^session (\d+)`)

// noteOutOfOrder records sessions whose view received (or is about to receive) a message below its highest UID.
func (r *run) noteOutOfOrder() {
	for i, s := range r.sess {
		d, ok := r.w.DumpOf(s.s)
		if !ok || !d.Selected {
			delete(r.prevSnap, i)
			continue
		}
		var max uint32
		for _, m := range d.Msgs {
			if m.UID > max {
				max = m.UID
			}
		}
		for _, rs := range d.Responders {
			if m := texRe.FindStringSubmatch(rs); m != nil {
				var uid uint32
				fmt.Sscanf(m[1], "%d", &uid)
				if uid < max {
					r.ooo[i] = true
				}
				if uid > max {
					max = uid // a later queued EXISTS below this one arrives out of order as well
				}
			}
		}
		prev := map[string]bool{}
		for _, k := range r.prevSnap[i] {
			prev[k] = true
		}
		cur := make([]string, len(d.Msgs))
		seenOld := false
		for k := len(d.Msgs) - 1; k >= 0; k-- {
			key := fmt.Sprintf("%s/%d", d.Msgs[k].Internal, d.Msgs[k].UID)
			cur[k] = key
			if prev[key] {
				seenOld = true
			} else if seenOld && len(r.prevSnap[i]) > 0 {
				r.ooo[i] = true // a new message sits before one that was already in the view
			}
		}
		r.prevSnap[i] = cur
	}
}

// relabel appends the witness of the known ordering defect to violations of sessions it applies to.
func (r *run) relabel(vs []explore.Violation) []explore.Violation {
	for k := range vs {
		if strings.Contains(vs[k].Sig, "+") {
			continue
		}
		if m := sessRe.FindStringSubmatch(vs[k].Msg); m != nil {
			var i int
			fmt.Sscanf(m[1], "%d", &i)
			if r.ooo[i] && (vs[k].Prop == "C01" || vs[k].Prop == "C02" || vs[k].Prop == "C05") {
				vs[k].Msg = fmt.Sprintf("[%s/%s] %s [a message had reached this session's view below its highest UID]", vs[k].Clause, vs[k].Sig, vs[k].Msg)
				vs[k].Clause, vs[k].Sig = "ordering-defect", "+out-of-order-arrival"
			}
		}
	}
	return vs
}

func (r *run) oooCanon() string {
	var t []string
	for k := range r.ooo {
		t = append(t, fmt.Sprint(k))
	}
	sort.Strings(t)
	return strings.Join(t, ",")
}
