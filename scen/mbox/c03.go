package mbox

import (
	"bytes"
	"encoding/json"
	"fmt"
	"regexp"
	"sort"
	"strings"

	"verif/engine/explore"
	"verif/engine/imapc"
	"verif/engine/vconn"
	"verif/engine/world"
)

// ---------------------------------------------------------------------------------------------------------------
// Reference model of the message commands (C03).

type mEntry struct {
	Key     string
	Deleted bool
}

type Model struct {
	Flags map[string]map[string]bool // message key -> shared flags (lower-case), without \deleted
	Boxes map[string][]mEntry
}

func newModel() *Model {
	return &Model{Flags: map[string]map[string]bool{}, Boxes: map[string][]mEntry{}}
}

func (m *Model) has(box, key string) int {
	for i, e := range m.Boxes[box] {
		if e.Key == key {
			return i
		}
	}
	return -1
}

func (m *Model) remove(box, key string) {
	if i := m.has(box, key); i >= 0 {
		m.Boxes[box] = append(append([]mEntry{}, m.Boxes[box][:i]...), m.Boxes[box][i+1:]...)
	}
}

// add puts the message at the end of the mailbox; if it is already there it is removed and re-added (gluon's
// documented behaviour for copying a message onto a mailbox that holds it). \Deleted does not travel.
func (m *Model) add(box, key string) {
	m.remove(box, key)
	m.Boxes[box] = append(m.Boxes[box], mEntry{Key: key})
}

func (m *Model) exists(key string) bool {
	for _, b := range m.Boxes {
		for _, e := range b {
			if e.Key == key {
				return true
			}
		}
	}
	return false
}

func (m *Model) store(box string, keys []string, op string, flags []string) {
	for _, key := range keys {
		if !m.exists(key) {
			continue
		}
		fs := m.Flags[key]
		if fs == nil {
			fs = map[string]bool{}
			m.Flags[key] = fs
		}
		i := m.has(box, key)
		wantDel := false
		for _, f := range flags {
			if f == `\deleted` {
				wantDel = true
			}
		}
		switch op {
		case "+":
			for _, f := range flags {
				if f != `\deleted` {
					fs[f] = true
				}
			}
			if wantDel && i >= 0 {
				m.Boxes[box][i].Deleted = true
			}
		case "-":
			for _, f := range flags {
				if f != `\deleted` {
					delete(fs, f)
				}
			}
			if wantDel && i >= 0 {
				m.Boxes[box][i].Deleted = false
			}
		case "=":
			for f := range fs {
				delete(fs, f)
			}
			for _, f := range flags {
				if f != `\deleted` {
					fs[f] = true
				}
			}
			if i >= 0 {
				m.Boxes[box][i].Deleted = wantDel
			}
		}
	}
}

func (m *Model) expunge(box string, only map[string]bool) {
	var out []mEntry
	for _, e := range m.Boxes[box] {
		if e.Deleted && (only == nil || only[e.Key]) {
			continue
		}
		out = append(out, e)
	}
	m.Boxes[box] = out
}

func (m *Model) rows(box string) []string {
	var out []string
	for _, e := range m.Boxes[box] {
		var fl []string
		for f := range m.Flags[e.Key] {
			fl = append(fl, f)
		}
		if e.Deleted {
			fl = append(fl, `\deleted`)
		}
		sort.Strings(fl)
		out = append(out, fmt.Sprintf("%s %v", e.Key, fl))
	}
	return out
}

func (m *Model) canon() string {
	var names []string
	for n := range m.Boxes {
		names = append(names, n)
	}
	sort.Strings(names)
	var b strings.Builder
	for _, n := range names {
		fmt.Fprintf(&b, "[%s: %s]", n, strings.Join(m.rows(n), "; "))
	}
	return b.String()
}

// ---------------------------------------------------------------------------------------------------------------

type C03Params struct {
	Sel       []string             `json:"sel"`
	Mailboxes []string             `json:"mailboxes"`
	Init      map[string][]InitMsg `json:"init"`
	Alphabet  []explore.Event      `json:"alphabet"`
}

type c03run struct {
	p      C03Params
	w      *world.World
	sess   []*world.Sess
	model  *Model
	keyN   int
	broken string
}

func init() { explore.Register("c03", NewC03) }

func NewC03(raw json.RawMessage) (explore.Run, error) {
	var p C03Params
	if err := json.Unmarshal(raw, &p); err != nil {
		return nil, err
	}
	w, err := world.New(world.Config{Hold: false})
	if err != nil {
		return nil, err
	}
	r := &c03run{p: p, w: w, model: newModel()}
	r.model.Boxes["INBOX"] = nil
	for _, name := range p.Mailboxes {
		spec := vconn.Spec{Kind: "MailboxCreated", Mbox: "mb-" + name, Name: strings.Split(name, "/")}
		if res := w.Inject(0, spec); res.Err != "" || !res.Done {
			w.Close()
			return nil, fmt.Errorf("setup mailbox: %+v", res)
		}
		w.Users[0].Conn.NoteRemote(spec)
		r.model.Boxes[name] = nil
	}
	var names []string
	for n := range p.Init {
		names = append(names, n)
	}
	sort.Strings(names)
	for _, name := range names {
		remote := "mb-" + name
		if name == "INBOX" {
			remote = "0"
		}
		for _, im := range p.Init[name] {
			spec := vconn.Spec{Kind: "MessagesCreated", Msg: "c-" + im.Key, Key: im.Key, Mboxes: []string{remote}, Flags: im.Flags}
			if res := w.Inject(0, spec); res.Err != "" || !res.Done {
				w.Close()
				return nil, fmt.Errorf("setup message: %+v", res)
			}
			w.Users[0].Conn.NoteRemote(spec)
			r.model.add(name, im.Key)
			fs := map[string]bool{}
			for _, f := range im.Flags {
				fs[strings.ToLower(f)] = true
			}
			r.model.Flags[im.Key] = fs
		}
	}
	for _, sel := range p.Sel {
		s, err := w.Connect()
		if err != nil {
			w.Close()
			return nil, err
		}
		if res := w.Login(s, 0); !res.OK() {
			w.Close()
			return nil, fmt.Errorf("login failed")
		}
		if res := s.C.Cmd("SELECT " + quote(sel)); !res.OK() {
			w.Close()
			return nil, fmt.Errorf("select failed: %v", res.Lines())
		}
		s.Selected = sel
		r.sess = append(r.sess, s)
	}
	return r, nil
}

func (r *c03run) Close() { r.w.Close() }

func (r *c03run) Enabled() []explore.Event { return r.p.Alphabet }

var keyHdrRe = regexp.MustCompile(`(?m)^X-Verif-Key: (\S+)\r?$`)

// viewKeys returns the message keys of the session's snapshot in sequence order, and their UIDs.
func (r *c03run) viewKeys(s *world.Sess) ([]string, []uint32) {
	d, ok := r.w.DumpOf(s)
	if !ok {
		return nil, nil
	}
	keys := make([]string, len(d.Msgs))
	uids := make([]uint32, len(d.Msgs))
	for i, m := range d.Msgs {
		keys[i] = r.keyOfRemote(m.Remote)
		uids[i] = m.UID
	}
	return keys, uids
}

func (r *c03run) keyOfRemote(remote string) string {
	if strings.HasPrefix(remote, "c-") {
		return strings.TrimPrefix(remote, "c-")
	}
	if rm, ok := r.w.Users[0].Conn.Messages[imapMsgID(remote)]; ok {
		if m := keyHdrRe.FindSubmatch(rm.Literal); m != nil {
			return string(m[1])
		}
	}
	return "?" + remote
}

func (r *c03run) barrier() {
	for _, s := range r.sess {
		if err := r.w.Barrier(s); err != nil {
			r.broken = err.Error()
		}
	}
}

var storeRe = regexp.MustCompile(`(?i)^(UID )?STORE (\S+) ([+-]?)FLAGS(\.SILENT)? \(([^)]*)\)$`)
var copyRe = regexp.MustCompile(`(?i)^(UID )?(COPY|MOVE) (\S+) (\S+)$`)
var uidExpRe = regexp.MustCompile(`(?i)^UID EXPUNGE (\S+)$`)

func (r *c03run) Step(ev explore.Event) []explore.Violation {
	var out []explore.Violation
	s := r.sess[ev.S]
	// bring the session's view up to date: C03 is about command semantics, not about stale views
	r.barrier()
	s.C.Cmd("NOOP")
	r.barrier()
	box := s.Selected
	keys, uids := r.viewKeys(s)
	pick := func(set string, byUID bool) []string {
		var ks []string
		for _, i := range resolveSet(set, len(keys), uids, byUID) {
			ks = append(ks, keys[i])
		}
		return ks
	}
	switch ev.K {
	case "append":
		r.keyN++
		key := fmt.Sprintf("k%d", r.keyN)
		prefix := "APPEND " + quote(ev.A)
		var fl []string
		if ev.B != "" {
			prefix += " (" + ev.B + ")"
			fl = strings.Fields(strings.ToLower(ev.B))
		}
		res := s.C.CmdLit(prefix, vconn.MakeLiteral(key), "")
		if res.OK() {
			r.model.add(ev.A, key)
			fs := map[string]bool{}
			for _, f := range fl {
				if f == `\deleted` {
					i := r.model.has(ev.A, key)
					r.model.Boxes[ev.A][i].Deleted = true
					continue
				}
				fs[f] = true
			}
			r.model.Flags[key] = fs
		}
	case "reselect":
		res := s.C.Cmd("CLOSE")
		if res.OK() {
			r.model.expunge(box, nil)
		}
		if res2 := s.C.Cmd("SELECT " + quote(box)); !res2.OK() {
			r.broken = fmt.Sprintf("reselect failed: %v", res2.Lines())
		}
	case "cmd":
		res := s.C.Cmd(ev.A)
		if res.Err != nil {
			r.broken = res.Err.Error()
			break
		}
		if !res.OK() {
			break // NO / BAD: the model is unchanged, which is exactly what is checked below
		}
		up := strings.ToUpper(ev.A)
		switch {
		case storeRe.MatchString(ev.A):
			m := storeRe.FindStringSubmatch(ev.A)
			op := m[3]
			if op == "" {
				op = "="
			}
			r.model.store(box, pick(m[2], m[1] != ""), op, strings.Fields(strings.ToLower(m[5])))
		case copyRe.MatchString(ev.A):
			m := copyRe.FindStringSubmatch(ev.A)
			dst := strings.Trim(m[4], `"`)
			ks := pick(m[3], m[1] != "")
			for _, k := range ks {
				if strings.EqualFold(m[2], "MOVE") && dst != box {
					r.model.remove(box, k)
				}
				r.model.add(dst, k)
			}
		case up == "EXPUNGE":
			r.model.expunge(box, nil)
		case uidExpRe.MatchString(ev.A):
			only := map[string]bool{}
			for _, k := range pick(uidExpRe.FindStringSubmatch(ev.A)[1], true) {
				only[k] = true
			}
			r.model.expunge(box, only)
		default:
			r.broken = "c03: unmodelled command " + ev.A
		}
	}
	r.barrier()
	out = append(out, r.compare(ev)...)
	if r.broken != "" {
		out = append(out, explore.Violation{Prop: "ENGINE", Clause: "engine", Sig: "broken", Msg: r.broken})
	}
	return out
}

type freshMsg struct {
	Key   string
	Flags []string
	Body  []byte
	UID   uint32
}

// FreshBox reads a mailbox through a new EXAMINE session.
func FreshBox(w *world.World, box string, withBody bool) ([]freshMsg, error) {
	s, err := w.Connect()
	if err != nil {
		return nil, err
	}
	defer w.Logout(s)
	if res := w.Login(s, 0); !res.OK() {
		return nil, fmt.Errorf("fresh login failed")
	}
	if res := s.C.Cmd("EXAMINE " + quote(box)); !res.OK() {
		return nil, fmt.Errorf("fresh examine %s: %v", box, res.Lines())
	}
	items := "(FLAGS BODY.PEEK[HEADER.FIELDS (X-Verif-Key)])"
	if withBody {
		items = "(FLAGS BODY.PEEK[])"
	}
	res := s.C.Cmd("UID FETCH 1:* " + items)
	if !res.OK() {
		return nil, fmt.Errorf("fresh fetch %s: %v", box, res.Lines())
	}
	var rows []*imapc.FetchRow
	lits := map[int][]byte{}
	for _, u := range res.Untagged {
		if p := imapc.ParseUntagged(u); p.Kind == "FETCH" {
			rows = append(rows, p.Row)
			if len(u.Lits) > 0 {
				lits[p.Row.Seq] = u.Lits[0]
			}
		}
	}
	sortRows(rows)
	var out []freshMsg
	for _, row := range rows {
		fm := freshMsg{Flags: stripRecent(row.Flags), Body: lits[row.Seq], UID: row.UID}
		if m := keyHdrRe.FindSubmatch(fm.Body); m != nil {
			fm.Key = string(m[1])
		}
		out = append(out, fm)
	}
	return out, nil
}

var gluonIDRe = regexp.MustCompile(`(?m)^X-Pm-Gluon-Id: [^\r\n]*\r?\n`)

func (r *c03run) compare(ev explore.Event) []explore.Violation {
	var out []explore.Violation
	var names []string
	for n := range r.model.Boxes {
		names = append(names, n)
	}
	sort.Strings(names)
	kind := ev.K
	if ev.K == "cmd" {
		kind = cmdKind(ev.A)
		if m := copyRe.FindStringSubmatch(ev.A); m != nil && strings.Trim(m[4], `"`) == r.sess[ev.S].Selected {
			kind += "-same-mailbox"
		}
	}
	if ev.K == "append" && strings.Contains(strings.ToLower(ev.B), `\deleted`) {
		kind += `-with-\Deleted`
	}
	for _, n := range names {
		fresh, err := FreshBox(r.w, n, true)
		if err != nil {
			r.broken = err.Error()
			return out
		}
		var got []string
		for _, f := range fresh {
			got = append(got, fmt.Sprintf("%s %v", f.Key, f.Flags))
			want := vconn.MakeLiteral(f.Key)
			body := gluonIDRe.ReplaceAll(f.Body, nil)
			if !bytes.Equal(body, want) {
				out = append(out, explore.Violation{Prop: "C03", Clause: "bytes", Sig: kind, Msg: fmt.Sprintf("mailbox %s message %s: bytes differ from what was stored", n, f.Key)})
			}
		}
		want := r.model.rows(n)
		if strings.Join(got, ";") != strings.Join(want, ";") {
			clause := "content"
			gs, ws := append([]string{}, got...), append([]string{}, want...)
			sort.Strings(gs)
			sort.Strings(ws)
			if strings.Join(gs, ";") == strings.Join(ws, ";") {
				clause = "order"
			} else {
				gk, wk := keysOf(got), keysOf(want)
				if gk == wk {
					clause = "flags"
				}
			}
			out = append(out, explore.Violation{Prop: "C03", Clause: clause, Sig: kind, Msg: fmt.Sprintf("after %s: mailbox %s is [%s], reference model says [%s]", ev, n, strings.Join(got, "; "), strings.Join(want, "; "))})
		}
	}
	return out
}

func keysOf(rows []string) string {
	var ks []string
	for _, r := range rows {
		ks = append(ks, strings.Fields(r)[0])
	}
	return strings.Join(ks, ",")
}

func (r *c03run) Canon() string {
	v, err := ReadDB(r.w, 0)
	if err != nil {
		return "DBERR"
	}
	var b strings.Builder
	b.WriteString(v.Canon() + "\n" + r.model.canon() + "\n")
	for i, s := range r.sess {
		d, _ := r.w.DumpOf(s)
		fmt.Fprintf(&b, "S%d sel=%s n=%d res=%d;", i, s.Selected, len(d.Msgs), len(d.Responders))
		for _, m := range d.Msgs {
			fmt.Fprintf(&b, "(%d %s %v)", m.UID, m.Remote, m.Flags)
		}
	}
	fmt.Fprintf(&b, " keyN=%d", r.keyN)
	return b.String()
}

func (r *c03run) Extensions() []explore.Violation { return nil }
