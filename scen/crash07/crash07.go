// Package crash07 is the crash / failing-step enumeration of C07: an operation is run on a real server whose
// message store and database interface are wrapped so that every call and every commit is a numbered step; for
// every step the process is killed or the step fails, then the server is restarted on the same directories in
// another process and compared with the state before / after the operation.
package crash07

import (
	"bytes"
	"context"
	"encoding/json"
	"fmt"
	"regexp"
	"sort"
	"strings"

	"github.com/ProtonMail/gluon"
	"github.com/ProtonMail/gluon/db"
	"github.com/ProtonMail/gluon/imap"
	"github.com/ProtonMail/gluon/store"

	"verif/engine/crash"
	"verif/engine/explore"
	"verif/engine/imapc"
	"verif/engine/vconn"
	"verif/engine/world"
)

type RunParams struct {
	Dir  string `json:"dir"`
	Op   string `json:"op"`
	Mode string `json:"mode"` // count | kill | error
	At   int    `json:"at"`
}

type State struct {
	Boxes   map[string]string `json:"boxes"` // mailbox name -> "v=<uidvalidity> sub=<bool> [(uid key flags)...]"
	Keys    []string          `json:"keys"`  // all message keys present anywhere
	Problem []string          `json:"problem,omitempty"`
}

type RunResult struct {
	Status string   `json:"status"` // tagged status / update ack ("OK","NO","BAD","ACK","NACK")
	N      int      `json:"n"`
	Names  []string `json:"names"`
	Before State    `json:"before"`
	After  State    `json:"after"` // live state after the operation (same process)
	Alive  bool     `json:"alive"` // the server still answers after the operation
	Fired  bool     `json:"fired"`
}

func init() {
	explore.RegisterCall("c07run", runCall)
	explore.RegisterCall("c07check", checkCall)
}

var Ops = []string{
	"APPEND", "COPY", "MOVE", "EXPUNGE", "CREATE", "DELETE", "RENAME", "RENAME-INBOX", "SUBSCRIBE", "UNSUBSCRIBE",
	"CONN-CREATE2", "CONN-CREATE-KNOWN", "CONN-UPDATE", "CONN-DELETE", "CONN-MOVE", "LOGOUT-PURGE", "STORE", "FETCH-REDOWNLOAD",
}

func bigLiteral(key string) string {
	var b strings.Builder
	b.WriteString("From: big@example.org\r\nSubject: big\r\nX-Verif-Key: " + key + "\r\n\r\n")
	x := uint64(88172645463325252)
	const alpha = "ABCDEFGHIJKLMNOPQRSTUVWXYZabcdefghijklmnopqrstuvwxyz0123456789+/"
	for i := 0; i < 400*1024; i++ {
		x ^= x << 13
		x ^= x >> 7
		x ^= x << 17
		if i%76 == 75 {
			b.WriteString("\r\n")
		} else {
			b.WriteByte(alpha[x%64])
		}
	}
	b.WriteString("\r\n")
	return b.String()
}

func literalOf(key string) []byte {
	if key == "big" {
		return []byte(bigLiteral(key))
	}
	return vconn.MakeLiteral(key)
}

func newWorld(dir string, h *crash.Hook) (*world.World, error) {
	return world.New(world.Config{
		Hold: false, Dir: dir, UIDVStart: 0,
		StoreBuilder: crash.StoreBuilder{Inner: &store.OnDiskStoreBuilder{}, H: h},
		DBCI:         crash.CI{Inner: gluon.VerifSQLiteClientInterface(), H: h},
	})
}

func inject(w *world.World, sp vconn.Spec) error {
	if res := w.Inject(0, sp); res.Err != "" || !res.Done {
		return fmt.Errorf("inject %s: %+v", sp.String(), res)
	}
	w.Users[0].Conn.NoteRemote(sp)
	return nil
}

func runCall(raw json.RawMessage) (any, error) {
	var p RunParams
	if err := json.Unmarshal(raw, &p); err != nil {
		return nil, err
	}
	h := &crash.Hook{}
	w, err := newWorld(p.Dir, h)
	if err != nil {
		return nil, err
	}
	defer w.Shutdown()
	// fixed pre-state
	for _, sp := range []vconn.Spec{
		{Kind: "MailboxCreated", Mbox: "mb-m2", Name: []string{"m2"}},
		{Kind: "MessagesCreated", Msg: "c-a", Key: "a", Mboxes: []string{"0"}, Flags: []string{`\Seen`}},
		{Kind: "MessagesCreated", Msg: "c-b", Key: "b", Mboxes: []string{"0"}},
		{Kind: "MessagesCreated", Msg: "c-big", Lit: bigLiteral("big"), Mboxes: []string{"0"}},
		{Kind: "MessagesCreated", Msg: "c-c", Key: "c", Mboxes: []string{"mb-m2"}, Flags: []string{`\Flagged`}},
	} {
		if err := inject(w, sp); err != nil {
			return nil, err
		}
	}
	o, err := w.Connect()
	if err != nil {
		return nil, err
	}
	w.Login(o, 0)
	if r := o.C.Cmd("SELECT INBOX"); !r.OK() {
		return nil, fmt.Errorf("select: %v", r.Lines())
	}
	var o2 *world.Sess
	// operation-specific preparation (not counted)
	switch p.Op {
	case "EXPUNGE":
		o.C.Cmd(`STORE 2 +FLAGS.SILENT (\Deleted)`)
	case "UNSUBSCRIBE":
	case "SUBSCRIBE":
		o.C.Cmd("UNSUBSCRIBE m2")
	case "LOGOUT-PURGE":
		o2, err = w.Connect()
		if err != nil {
			return nil, err
		}
		w.Login(o2, 0)
		o2.C.Cmd("SELECT INBOX")
		o.C.Cmd(`STORE 2 +FLAGS.SILENT (\Deleted)`)
		o.C.Cmd(`EXPUNGE`)
		_ = w.Barrier(o2)
	}
	res := &RunResult{}
	res.Before, err = readState(w, nil)
	if err != nil {
		return nil, err
	}
	// From here on the remote side does not offer message literals any more: a cache file that goes missing must
	// show up as a message that can not be fetched, not be healed silently by a re-download.
	if p.Op != "FETCH-REDOWNLOAD" {
		w.Users[0].Conn.ForgetLiterals()
	}
	h.Arm(p.Mode, p.At)
	switch p.Op {
	case "APPEND":
		r := o.C.CmdLit(`APPEND INBOX (\Flagged)`, vconn.MakeLiteral("k1"), "")
		res.Status = r.Status
	case "COPY":
		res.Status = o.C.Cmd("COPY 1:2 m2").Status
	case "MOVE":
		res.Status = o.C.Cmd("MOVE 1,3 m2").Status
	case "EXPUNGE":
		res.Status = o.C.Cmd("EXPUNGE").Status
	case "STORE":
		res.Status = o.C.Cmd(`STORE 1:2 +FLAGS (\Flagged \Deleted)`).Status
	case "CREATE":
		res.Status = o.C.Cmd("CREATE x/y").Status
	case "DELETE":
		res.Status = o.C.Cmd("DELETE m2").Status
	case "RENAME":
		res.Status = o.C.Cmd("RENAME m2 p/q").Status
	case "RENAME-INBOX":
		res.Status = o.C.Cmd("RENAME INBOX arch").Status
	case "SUBSCRIBE":
		res.Status = o.C.Cmd("SUBSCRIBE m2").Status
	case "UNSUBSCRIBE":
		res.Status = o.C.Cmd("UNSUBSCRIBE m2").Status
	case "CONN-CREATE2":
		sp := vconn.Spec{Kind: "MessagesCreated", Msgs: []string{"c-n1", "c-n2"}, Keys: []string{"n1", "n2"}, Mboxes: []string{"0", "mb-m2"}}
		res.Status = ack(w.Inject(0, sp))
	case "CONN-CREATE-KNOWN":
		// a batch that names a message the server already has (as every echo of an APPEND and every re-sync does)
		// together with a new one
		sp := vconn.Spec{Kind: "MessagesCreated", Msgs: []string{"c-a", "c-n1"}, Keys: []string{"a", "n1"}, Mboxes: []string{"mb-m2"}}
		res.Status = ack(w.Inject(0, sp))
	case "CONN-UPDATE":
		sp := vconn.Spec{Kind: "MessageUpdated", Msg: "c-a", Key: "a2", Mboxes: []string{"0"}, Flags: []string{`\Seen`}}
		res.Status = ack(w.Inject(0, sp))
	case "CONN-DELETE":
		res.Status = ack(w.Inject(0, vconn.Spec{Kind: "MessageDeleted", Msg: "c-a"}))
	case "CONN-MOVE":
		res.Status = ack(w.Inject(0, vconn.Spec{Kind: "MessageMailboxesUpdated", Msg: "c-b", Mboxes: []string{"mb-m2"}, Flags: []string{}}))
	case "LOGOUT-PURGE":
		r := w.Logout(o2)
		res.Status = r.Status
	case "FETCH-REDOWNLOAD":
		// reading a message: a cache read that fails is healed by downloading the literal from the connector again and
		// writing it back (this is the one operation during which the remote side still offers literals)
		res.Status = o.C.Cmd("FETCH 1 (BODY.PEEK[])").Status
		w.Users[0].Conn.ForgetLiterals()
	default:
		return nil, fmt.Errorf("unknown op %q", p.Op)
	}
	res.N, res.Names = h.Disarm()
	res.Fired = h.Fired
	// liveness + live state
	for _, s := range w.Sess {
		if !s.Dead {
			_ = w.Barrier(s)
		}
	}
	if r := o.C.Cmd("NOOP"); r.OK() {
		res.Alive = true
	}
	res.After, err = readState(w, nil)
	if err != nil {
		res.After.Problem = append(res.After.Problem, "live read-back failed: "+err.Error())
	}
	return res, nil
}

func ack(r vconn.InjectResult) string {
	switch {
	case !r.Done:
		return "NEVER"
	case r.Err != "":
		return "NACK"
	}
	return "ACK"
}

var keyRe = regexp.MustCompile(`(?m)^X-Verif-Key: (\S+)\r?$`)
var sizeRe = regexp.MustCompile(`RFC822\.SIZE (\d+)`)
var idRe = regexp.MustCompile(`(?m)^X-Pm-Gluon-Id: [^\r\n]*\r?\n`)

// readState reads every mailbox through a new session (and checks message bytes).
func readState(w *world.World, problems *[]string) (State, error) {
	st := State{Boxes: map[string]string{}}
	s, err := w.Connect()
	if err != nil {
		return st, err
	}
	defer w.Logout(s)
	if r := w.Login(s, 0); !r.OK() {
		return st, fmt.Errorf("login: %v", r.Lines())
	}
	var dbv []*db.MailboxWithAttr
	if err := w.DB(0).Read(context.Background(), func(ctx context.Context, r db.ReadOnly) error {
		var err error
		dbv, err = r.GetAllMailboxesWithAttr(ctx)
		return err
	}); err != nil {
		return st, err
	}
	keys := map[string]bool{}
	for _, mb := range dbv {
		if mb.Name == "Recovered Messages" {
			continue
		}
		r := s.C.Cmd("EXAMINE " + `"` + mb.Name + `"`)
		if !r.OK() {
			st.Problem = append(st.Problem, fmt.Sprintf("EXAMINE %s: %s", mb.Name, r.Tagged.Text))
			continue
		}
		validity, _ := r.Code("UIDVALIDITY")
		f := s.C.Cmd("UID FETCH 1:* (FLAGS RFC822.SIZE BODY.PEEK[])")
		if !f.OK() {
			st.Problem = append(st.Problem, fmt.Sprintf("FETCH in %s: %s", mb.Name, f.Tagged.Text))
			continue
		}
		var rows []string
		type row struct {
			uid uint32
			s   string
		}
		var rs []row
		for _, u := range f.Untagged {
			p := imapc.ParseUntagged(u)
			if p.Kind != "FETCH" {
				continue
			}
			key := "?"
			var body []byte
			if len(u.Lits) > 0 {
				body = u.Lits[0]
				if m := keyRe.FindSubmatch(body); m != nil {
					key = string(m[1])
				}
			}
			// the stored message is the literal with exactly one internal-id line in front of it
			loc := idRe.FindIndex(body)
			if loc == nil || loc[0] != 0 || !bytes.Equal(body[loc[1]:], literalOf(key)) {
				st.Problem = append(st.Problem, fmt.Sprintf("message %s (UID %d in %s) does not have its exact bytes (%d bytes returned, id line at %v)", key, p.Row.UID, mb.Name, len(body), loc))
			}
			if m := sizeRe.FindStringSubmatch(u.Text); m == nil || m[1] != fmt.Sprint(len(body)) {
				st.Problem = append(st.Problem, fmt.Sprintf("message %s (UID %d in %s): RFC822.SIZE %v but BODY[] has %d bytes", key, p.Row.UID, mb.Name, m, len(body)))
			}
			keys[key] = true
			var fl []string
			for _, x := range p.Row.Flags {
				if x != `\recent` {
					fl = append(fl, x)
				}
			}
			rs = append(rs, row{p.Row.UID, fmt.Sprintf("(%d %s %v)", p.Row.UID, key, fl)})
		}
		sort.Slice(rs, func(i, j int) bool { return rs[i].uid < rs[j].uid })
		for _, x := range rs {
			rows = append(rows, x.s)
		}
		st.Boxes[mb.Name] = fmt.Sprintf("v=%s sub=%v %s", validity, mb.Subscribed, strings.Join(rows, ""))
		s.C.Cmd("UNSELECT")
	}
	for k := range keys {
		st.Keys = append(st.Keys, k)
	}
	sort.Strings(st.Keys)
	return st, nil
}

type CheckParams struct {
	Dir string `json:"dir"`
}

// checkCall restarts the server on the directories of a (possibly killed) run and reads the state back.
func checkCall(raw json.RawMessage) (any, error) {
	var p CheckParams
	if err := json.Unmarshal(raw, &p); err != nil {
		return nil, err
	}
	h := &crash.Hook{}
	w, err := world.New(world.Config{
		Hold: false, Dir: p.Dir, UIDVStart: 1000,
		StoreBuilder: crash.StoreBuilder{Inner: &store.OnDiskStoreBuilder{}, H: h},
		DBCI:         crash.CI{Inner: gluon.VerifSQLiteClientInterface(), H: h},
	})
	if err != nil {
		return &State{Problem: []string{"server does not start on the directories: " + err.Error()}}, nil
	}
	defer w.Shutdown()
	// The restarted server's connector knows no message literals: a cache file that went missing can not be healed
	// silently by a re-download, it shows up as a message that can not be fetched.
	st, err := readState(w, nil)
	if err != nil {
		st.Problem = append(st.Problem, "read-back after restart failed: "+err.Error())
	}
	// left-overs: store ids must be a subset of the database ids; nothing is marked deleted
	ids, lerr := w.Srv.VerifStore(w.Users[0].ID).List()
	var dbIDs map[imap.InternalMessageID]struct{}
	var marked []imap.InternalMessageID
	derr := w.DB(0).Read(context.Background(), func(ctx context.Context, r db.ReadOnly) error {
		var err error
		if dbIDs, err = r.GetAllMessagesIDsAsMap(ctx); err != nil {
			return err
		}
		marked, err = r.GetMessageIDsMarkedAsDelete(ctx)
		return err
	})
	if lerr != nil || derr != nil {
		st.Problem = append(st.Problem, fmt.Sprintf("left-over inspection failed: %v %v", lerr, derr))
	} else {
		for _, id := range ids {
			if _, ok := dbIDs[id]; !ok {
				st.Problem = append(st.Problem, "unreferenced cache file left after start-up")
				break
			}
		}
		if len(marked) > 0 {
			st.Problem = append(st.Problem, fmt.Sprintf("%d message(s) still marked for deletion after start-up", len(marked)))
		}
	}
	return &st, nil
}
