package store09

import (
	"bytes"
	crand "crypto/rand"
	"encoding/json"
	"fmt"
	"os"
	"path/filepath"
	"sort"
	"sync"

	"verif/engine/enumt"
	"verif/engine/explore"
)

// CorruptCase is one case of the corruption part ("c09c"): a cache file written by the real Set, altered on
// disk, then read by the real Get.
type CorruptCase struct {
	File string `json:"file"`          // base file: empty | small | small-text | blocks3 | aligned3
	Op   string `json:"op"`            // trunc | xor | set | pass | blocks
	Pos  int    `json:"pos,omitempty"` // trunc: new length; xor/set: byte offset
	Val  int    `json:"val,omitempty"` // xor: mask (1<<k flips bit k); set: the value (0x00 / 0xFF)
	Arg  string `json:"arg,omitempty"` // pass: the other passphrase; blocks: the block operation
}

func init() { explore.RegisterCall("c09c", c09cCall) }

// Region is a part of the file format.
type Region struct {
	Name  string // header-magic | header-version | nonce | block<i>-ct | block<i>-tag
	Kind  string // header | nonce | ciphertext | tag
	Start int
	End   int // exclusive
}

// Base is a cache file written by the real store.
type Base struct {
	Name    string
	Plain   []byte
	Raw     []byte
	Regions []Region
	NBlocks int
}

func (b *Base) blockBounds(i int) (int, int) {
	start := HeaderLen + NonceLen + i*EncBlock
	end := start + EncBlock
	if end > len(b.Raw) {
		end = len(b.Raw)
	}
	return start, end
}

func (b *Base) regionOf(pos int) Region {
	for _, r := range b.Regions {
		if pos >= r.Start && pos < r.End {
			return r
		}
	}
	return Region{Name: "end", Kind: "end", Start: len(b.Raw), End: len(b.Raw)}
}

// detRand replaces crypto/rand.Reader while a base file is written, so that the nonce - and with it every byte
// of the base file - is the same in every process and run (replays are byte-exact).
type detRand struct{ x uint64 }

func (d *detRand) Read(p []byte) (int, error) {
	for i := range p {
		d.x += 0x9E3779B97F4A7C15
		z := d.x
		z = (z ^ (z >> 30)) * 0xBF58476D1CE4E5B9
		z = (z ^ (z >> 27)) * 0x94D049BB133111EB
		p[i] = byte(z ^ (z >> 31))
	}
	return len(p), nil
}

var (
	baseMu    sync.Mutex
	baseCache = map[string]*Base{}
)

func basePlain(name string) ([]byte, error) {
	switch name {
	case "empty":
		return []byte{}, nil
	case "small":
		return Gen("rnd", 242, 21), nil // 15 header + 12 nonce + (7+4+242+4) lz4 + 16 tag = 300 bytes
	case "small-text":
		return Gen("text", 900, 22), nil
	case "blocks3":
		return Gen("rnd", 2*BlockSize+1000, 23), nil
	case "aligned3":
		return alignedPlain()
	}
	return nil, fmt.Errorf("unknown base file %q", name)
}

// GetBase writes (once per process) the named base file with the real store and verifies the layout model.
func GetBase(name string) (*Base, error) {
	baseMu.Lock()
	defer baseMu.Unlock()
	if b, ok := baseCache[name]; ok {
		return b, nil
	}
	plain, err := basePlain(name)
	if err != nil {
		return nil, err
	}
	dir, err := newDir()
	if err != nil {
		return nil, err
	}
	defer os.RemoveAll(dir)
	st, err := openStore(dir, basePass)
	if err != nil {
		return nil, err
	}
	saved := crand.Reader
	crand.Reader = &detRand{x: 0xC09}
	err = st.Set(MsgID(1), bytes.NewReader(plain))
	crand.Reader = saved
	if err != nil {
		return nil, fmt.Errorf("base %s: Set: %w", name, err)
	}
	raw, err := os.ReadFile(idPath(dir, MsgID(1)))
	if err != nil {
		return nil, err
	}
	b := &Base{Name: name, Plain: plain, Raw: raw}
	if err := b.verifyLayout(); err != nil {
		return nil, fmt.Errorf("base %s: the file written by Set does not match the layout model of this check: %w", name, err)
	}
	got, err := st.Get(MsgID(1))
	if err != nil || !bytes.Equal(got, plain) {
		return nil, fmt.Errorf("base %s: unaltered file does not read back (err=%v)", name, err)
	}
	baseCache[name] = b
	return b, nil
}

func (b *Base) verifyLayout() error {
	comp, n, err := decryptFile(b.Raw, basePass)
	if err != nil {
		return err
	}
	// the decrypted blocks must be exactly one well-formed LZ4 frame: header, data blocks, end mark, nothing after
	if _, err := lz4Boundaries(comp); err != nil {
		return fmt.Errorf("decrypted blocks are not one LZ4 frame: %v", err)
	}
	if want := (len(comp) + BlockSize - 1) / BlockSize; want != n {
		return fmt.Errorf("%d compressed bytes in %d blocks, model says %d", len(comp), n, want)
	}
	b.NBlocks = n
	b.Regions = []Region{{"header-magic", "header", 0, 11}, {"header-version", "header", 11, HeaderLen}, {"nonce", "nonce", HeaderLen, HeaderLen + NonceLen}}
	for i := 0; i < n; i++ {
		s, e := b.blockBounds(i)
		b.Regions = append(b.Regions, Region{fmt.Sprintf("block%d-ct", i), "ciphertext", s, e - TagLen}, Region{fmt.Sprintf("block%d-tag", i), "tag", e - TagLen, e})
	}
	return nil
}

// ---- content whose LZ4 block boundaries coincide with the AEAD block boundaries ------------------------------

var (
	alignedOnce sync.Once
	alignedVal  []byte
	alignedErr  error
)

// lz4DataLen returns the number of data bytes of the first LZ4 block the real Set produces for the chunk. (It is
// measured on the block list: for content of exactly k*64 KiB the writer appends an extra zero-length block.)
func lz4DataLen(c *compressor, chunk []byte) (int, error) {
	comp, err := c.compress(chunk)
	if err != nil {
		return 0, err
	}
	b, err := lz4Boundaries(comp)
	if err != nil || len(b) < 2 {
		return 0, fmt.Errorf("lz4DataLen: %v", err)
	}
	return b[1] - b[0] - 4, nil
}

// tunedChunk returns a 64 KiB chunk (R incompressible bytes, zeros, G incompressible bytes) whose single LZ4
// block has exactly target data bytes.
func tunedChunk(c *compressor, target int, variant uint64) ([]byte, error) {
	rnd := Gen("rnd", LZ4Chunk, variant)
	tail := Gen("rnd", 256, variant+100)
	mk := func(r, g int) []byte {
		c := make([]byte, LZ4Chunk)
		copy(c, rnd[:r])
		copy(c[LZ4Chunk-g:], tail[:g])
		return c
	}
	for g := 0; g <= 128; g++ {
		lo, hi := 0, LZ4Chunk-g-64
		for lo < hi { // smallest r with dataLen >= target (dataLen grows with r)
			mid := (lo + hi) / 2
			n, err := lz4DataLen(c, mk(mid, g))
			if err != nil {
				return nil, err
			}
			if n >= target {
				hi = mid
			} else {
				lo = mid + 1
			}
		}
		for r := lo - 3; r <= lo+3; r++ {
			if r < 0 || r > LZ4Chunk-g-64 {
				continue
			}
			ch := mk(r, g)
			if n, err := lz4DataLen(c, ch); err == nil && n == target {
				return ch, nil
			}
		}
	}
	return nil, fmt.Errorf("no 64 KiB chunk with an LZ4 block of exactly %d bytes found", target)
}

// alignedPlain builds content whose compressed stream has LZ4 block boundaries exactly at offsets BlockSize and
// 2*BlockSize, i.e. every AEAD block of the file ends on an LZ4 block boundary.
func alignedPlain() ([]byte, error) {
	alignedOnce.Do(func() {
		c, err := newCompressor()
		if err != nil {
			alignedErr = err
			return
		}
		defer c.close()
		rawBlock := 4 + LZ4Chunk // an incompressible chunk is stored raw
		a, err := tunedChunk(c, BlockSize-lz4HdrLen-3*rawBlock-4, 31)
		if err != nil {
			alignedErr = err
			return
		}
		b, err := tunedChunk(c, BlockSize-3*rawBlock-4, 32)
		if err != nil {
			alignedErr = err
			return
		}
		var p []byte
		p = append(p, Gen("rnd", 3*LZ4Chunk, 33)...)
		p = append(p, a...)
		p = append(p, Gen("rnd", 3*LZ4Chunk, 34)...)
		p = append(p, b...)
		p = append(p, Gen("rnd", 1000, 35)...)
		comp, err := c.compress(p)
		if err != nil {
			alignedErr = err
			return
		}
		bounds, err := lz4Boundaries(comp)
		if err != nil {
			alignedErr = err
			return
		}
		has := map[int]bool{}
		for _, o := range bounds {
			has[o] = true
		}
		if !has[BlockSize] || !has[2*BlockSize] {
			alignedErr = fmt.Errorf("aligned content: LZ4 block boundaries %v do not include %d and %d", bounds, BlockSize, 2*BlockSize)
			return
		}
		alignedVal = p
	})
	return alignedVal, alignedErr
}

// ---- alterations ------------------------------------------------------------------------------------------------

var BlockOps = []string{"swap01", "swap12", "dup0over1", "drop0", "drop1", "appendlast", "append1", "append16"}

func (b *Base) block(i int) []byte { s, e := b.blockBounds(i); return b.Raw[s:e] }

func applyCase(b *Base, cs CorruptCase) ([]byte, error) {
	raw := b.Raw
	switch cs.Op {
	case "trunc":
		if cs.Pos < 0 || cs.Pos > len(raw) {
			return nil, fmt.Errorf("truncation length %d out of range", cs.Pos)
		}
		return append([]byte{}, raw[:cs.Pos]...), nil
	case "xor", "set":
		if cs.Pos < 0 || cs.Pos >= len(raw) {
			return nil, fmt.Errorf("offset %d out of range", cs.Pos)
		}
		out := append([]byte{}, raw...)
		if cs.Op == "xor" {
			out[cs.Pos] ^= byte(cs.Val)
		} else {
			out[cs.Pos] = byte(cs.Val)
		}
		return out, nil
	case "blocks":
		if b.NBlocks < 3 {
			return nil, fmt.Errorf("block operation on a file with %d blocks", b.NBlocks)
		}
		head := raw[:HeaderLen+NonceLen]
		var order [][]byte
		b0, b1, b2 := b.block(0), b.block(1), b.block(2)
		switch cs.Arg {
		case "swap01":
			order = [][]byte{b1, b0, b2}
		case "swap12":
			order = [][]byte{b0, b2, b1}
		case "dup0over1":
			order = [][]byte{b0, b0, b2}
		case "drop0":
			order = [][]byte{b1, b2}
		case "drop1":
			order = [][]byte{b0, b2}
		case "appendlast":
			order = [][]byte{b0, b1, b2, b2}
		case "append1":
			order = [][]byte{b0, b1, b2, {0x00}}
		case "append16":
			order = [][]byte{b0, b1, b2, make([]byte, 16)}
		default:
			return nil, fmt.Errorf("unknown block operation %q", cs.Arg)
		}
		out := append([]byte{}, head...)
		for _, blk := range order {
			out = append(out, blk...)
		}
		return out, nil
	}
	return nil, fmt.Errorf("unknown operation %q", cs.Op)
}

func c09cCall(raw json.RawMessage) (any, error) {
	chunk, err := enumt.ParseChunk(raw)
	if err != nil {
		return nil, err
	}
	// a worker whose base files differ from the coordinator's refuses to run instead of judging wrong positions
	common := useCommon(chunk.Common)
	dir, err := newDir()
	if err != nil {
		return nil, err
	}
	defer os.RemoveAll(dir)
	st, err := openStore(dir, basePass)
	if err != nil {
		return nil, err
	}
	defer st.Close()
	id := MsgID(1)
	path := idPath(dir, id)
	if err := os.MkdirAll(filepath.Dir(path), 0o700); err != nil {
		return nil, err
	}
	res := &enumt.Result{Counters: map[string]int{}}
	outcomes := map[string]bool{}
	for _, rc := range chunk.Cases {
		var cs CorruptCase
		if err := json.Unmarshal(rc, &cs); err != nil {
			return nil, err
		}
		b, err := GetBase(cs.File)
		if err != nil {
			return nil, err
		}
		if want, ok := common.FileLen[cs.File]; ok && want != len(b.Raw) {
			return nil, fmt.Errorf("base file %s has %d bytes here but %d bytes in the coordinator", cs.File, len(b.Raw), want)
		}
		where := ""
		opClass := ""
		switch cs.Op {
		case "pass":
			// the file is WRITTEN by a real store opened with another passphrase on the same directory
			other, err := openStore(dir, []byte(cs.Arg))
			if err != nil {
				return nil, err
			}
			if err := other.Set(id, bytes.NewReader(b.Plain)); err != nil {
				return nil, fmt.Errorf("Set with the other passphrase: %w", err)
			}
			_ = other.Close()
			where, opClass = "file", "passphrase"
		default:
			altered, err := applyCase(b, cs)
			if err != nil {
				return nil, err
			}
			if err := os.WriteFile(path, altered, 0o600); err != nil {
				return nil, err
			}
			switch cs.Op {
			case "trunc":
				opClass = "truncate"
				r := b.regionOf(cs.Pos)
				switch {
				case cs.Pos == len(b.Raw):
					where = "full-length"
				case cs.Pos == r.Start:
					where = "before-" + r.Name
				default:
					where = "inside-" + r.Name
				}
			case "blocks":
				opClass, where = "blocks", cs.Arg
			default:
				opClass = "alter"
				where = b.regionOf(cs.Pos).Name
				if bytes.Equal(altered, b.Raw) {
					where += "(no-op)"
				}
			}
		}
		stop := watchdog(func() string { return fmt.Sprintf("c09c %+v", cs) })
		got, gerr := st.Get(id)
		stop()
		res.Evaluations++
		result, sig := "", ""
		switch {
		case gerr != nil:
			result = "error:" + errClass(gerr)
			res.Counters["c09c/error"]++
		case bytes.Equal(got, b.Plain):
			result = "original"
			res.Counters["c09c/original"]++
		case len(got) == 0:
			result, sig = "EMPTY-WITHOUT-ERROR", opClass+"/empty-without-error"
		case bytes.HasPrefix(b.Plain, got):
			result, sig = "PREFIX-WITHOUT-ERROR", opClass+"/prefix-without-error"
		default:
			result, sig = "DIFFERENT-BYTES", opClass+"/different-bytes"
			if opClass == "alter" {
				sig = "alter/" + b.regionOf(cs.Pos).Kind + "/different-bytes"
			}
		}
		outcomes[fmt.Sprintf("c09c/%s/%s/%s/%s", cs.File, cs.Op, where, result)] = true
		if sig != "" {
			// The witness class names the file shape and the place of the damage, so that a known weakness of
			// one place (e.g. truncation exactly at an aligned block boundary) does not mask the same symptom
			// elsewhere.
			sig += "@" + cs.File + ":" + where
			res.Counters["c09c/violation"]++
			if nv := len(res.Viol); nv < 40 { // the exact witnesses of each class (bounded)
				w := fmt.Sprintf("witness/%s/%s/%s", sig, cs.File, cs.Op)
				switch cs.Op {
				case "trunc":
					w += fmt.Sprintf("=%d", cs.Pos)
				case "xor", "set":
					w += fmt.Sprintf("@%d:%#02x", cs.Pos, cs.Val)
				default:
					w += "=" + cs.Arg
				}
				res.Counters[w]++
			}
			flen := -1
			if fi, err := os.Stat(path); err == nil {
				flen = int(fi.Size())
			}
			res.Viol = append(res.Viol, enumt.Viol{Clause: "CORRUPT", Sig: sig,
				Msg:   fmt.Sprintf("base file %s (%d bytes, %d AEAD blocks, content %d bytes), %s -> file of %d bytes: Get returned no error and %s", cs.File, len(b.Raw), b.NBlocks, len(b.Plain), describeCase(b, cs), flen, describeGot(got, b.Plain)),
				Input: cs})
		}
		if len(res.Samples) < 1 {
			res.Samples = append(res.Samples, map[string]any{"case": cs, "where": where, "result": result})
		}
	}
	for k := range outcomes {
		res.Outcomes = append(res.Outcomes, k)
	}
	sort.Strings(res.Outcomes)
	return res, nil
}

func describeCase(b *Base, cs CorruptCase) string {
	switch cs.Op {
	case "trunc":
		return fmt.Sprintf("truncated to %d bytes (%d header + %d nonce + %d)", cs.Pos, HeaderLen, NonceLen, cs.Pos-HeaderLen-NonceLen)
	case "xor":
		return fmt.Sprintf("byte %d (%s) xor 0x%02x", cs.Pos, b.regionOf(cs.Pos).Name, cs.Val)
	case "set":
		return fmt.Sprintf("byte %d (%s) set to 0x%02x", cs.Pos, b.regionOf(cs.Pos).Name, cs.Val)
	case "pass":
		return fmt.Sprintf("written with passphrase %q, read with %q", cs.Arg, basePass)
	case "blocks":
		return "block operation " + cs.Arg
	}
	return cs.Op
}

func describeGot(got, want []byte) string {
	switch {
	case len(got) == 0:
		return "EMPTY content"
	case bytes.HasPrefix(want, got):
		return fmt.Sprintf("only the first %d of %d bytes", len(got), len(want))
	}
	return "different bytes: " + diffDesc(got, want)
}
