package store09

import (
	"bytes"
	"encoding/json"
	"fmt"
	"os"
	"sort"

	"github.com/ProtonMail/gluon/imap"
	"github.com/ProtonMail/gluon/store"

	"verif/engine/enumt"
	"verif/engine/explore"
)

// SizeCase is one case of the sizes x contents x scenario part ("c09s").
type SizeCase struct {
	Size    int    `json:"size"`
	Content string `json:"content"` // zeros | text | rnd
	Scen    string `json:"scen"`    // fresh | overwrite | neighbour | delete | list | failset
}

var Scenarios = []string{"fresh", "overwrite", "neighbour", "delete", "list", "failset"}
var Contents = []string{"zeros", "text", "rnd"}

func init() { explore.RegisterCall("c09s", c09sCall) }

type fail struct{ what, msg string }

type sizeRun struct {
	cs    SizeCase
	dir   string
	st    store.Store
	fails []fail
	// shape of the file written for the case's own content (for the outcome key)
	fileLen int
}

func (r *sizeRun) failf(what, format string, a ...any) {
	r.fails = append(r.fails, fail{what, fmt.Sprintf(format, a...)})
}

func (r *sizeRun) set(id imap.InternalMessageID, data []byte, step string) bool {
	if err := r.st.Set(id, bytes.NewReader(data)); err != nil {
		r.failf("set-error", "%s: Set of %d bytes failed: %v", step, len(data), err)
		return false
	}
	return true
}

// expect checks that Get(id) returns exactly want.
func (r *sizeRun) expect(id imap.InternalMessageID, want []byte, step, what string) {
	got, err := r.st.Get(id)
	if err != nil {
		r.failf(what+"-get-error", "%s: Get failed for %d stored bytes: %v", step, len(want), err)
		return
	}
	if !bytes.Equal(got, want) {
		r.failf(what+"-get-mismatch", "%s: %s", step, diffDesc(got, want))
	}
}

func (r *sizeRun) expectGone(id imap.InternalMessageID, step string) {
	got, err := r.st.Get(id)
	if err == nil {
		r.failf("deleted-id-readable", "%s: Get of a deleted id returned %d bytes and no error", step, len(got))
	}
	if _, serr := os.Stat(idPath(r.dir, id)); serr == nil {
		r.failf("deleted-id-file-exists", "%s: file of the deleted id still exists", step)
	}
}

func (r *sizeRun) expectList(want []imap.InternalMessageID, step string) {
	got, err := r.st.List()
	if err != nil {
		r.failf("list-error", "%s: List failed: %v", step, err)
		return
	}
	g := idStrings(got)
	w := idStrings(want)
	if fmt.Sprint(g) != fmt.Sprint(w) {
		r.failf("list-mismatch", "%s: List = %v, stored ids = %v", step, g, w)
	}
}

func idStrings(ids []imap.InternalMessageID) []string {
	out := []string{}
	for _, id := range ids {
		out = append(out, id.String())
	}
	sort.Strings(out)
	return out
}

func smallerSizes(s int) []int {
	if s == 0 {
		return []int{0}
	}
	seen := map[int]bool{}
	var out []int
	for _, v := range []int{0, 1, s / 2, s - 1} {
		if v < s && !seen[v] {
			seen[v] = true
			out = append(out, v)
		}
	}
	return out
}

func (r *sizeRun) run() {
	cs := r.cs
	data := Gen(cs.Content, cs.Size, 1)
	id1, id2, id3 := MsgID(1), MsgID(2), MsgID(3)
	noteShape := func() {
		if fi, err := os.Stat(idPath(r.dir, id1)); err == nil {
			r.fileLen = int(fi.Size())
		}
	}
	switch cs.Scen {
	case "fresh":
		if !r.set(id1, data, "Set(fresh id)") {
			return
		}
		noteShape()
		r.expect(id1, data, "Get after Set", "fresh")
		r.expect(id1, data, "second Get", "fresh")
		// a store object opened later on the same directory with the same passphrase
		st2, err := openStore(r.dir, basePass)
		if err != nil {
			r.failf("open-error", "reopen: %v", err)
			return
		}
		old := r.st
		r.st = st2
		r.expect(id1, data, "Get through a re-opened store", "fresh")
		r.st = old
		_ = st2.Close()
	case "overwrite":
		if !r.set(id1, data, "Set(larger)") {
			return
		}
		noteShape()
		r.expect(id1, data, "Get(larger)", "overwrite")
		for _, sm := range smallerSizes(cs.Size) {
			small := Gen(cs.Content, sm, 2)
			if !r.set(id1, small, fmt.Sprintf("overwrite with %d bytes", sm)) {
				return
			}
			r.expect(id1, small, fmt.Sprintf("Get after overwriting %d bytes with %d bytes", cs.Size, sm), "overwrite")
			if !r.set(id1, data, "overwrite back with the larger content") {
				return
			}
			r.expect(id1, data, fmt.Sprintf("Get after overwriting %d bytes back with %d bytes", sm, cs.Size), "overwrite")
		}
		// same length, other bytes
		other := Gen(cs.Content, cs.Size, 3)
		if r.set(id1, other, "overwrite with same-length content") {
			r.expect(id1, other, "Get after same-length overwrite", "overwrite")
		}
	case "neighbour":
		n2 := Gen("rnd", cs.Size, 7)
		n3 := Gen("text", 1000, 8)
		if !r.set(id2, n2, "Set(neighbour 2)") || !r.set(id3, n3, "Set(neighbour 3)") {
			return
		}
		raw3, _ := os.ReadFile(idPath(r.dir, id3))
		if !r.set(id1, data, "Set(id1)") {
			return
		}
		noteShape()
		r.expect(id1, data, "Get(id1)", "neighbour")
		r.set(id1, Gen(cs.Content, cs.Size/2, 2), "overwrite id1 smaller")
		r.set(id1, data, "overwrite id1 back")
		r.expect(id2, n2, "Get(neighbour 2) after Set/overwrite of id1", "neighbour")
		r.expect(id3, n3, "Get(neighbour 3) after Set/overwrite of id1", "neighbour")
		// an id written AFTER id1 must not disturb id1 either
		n2b := Gen("rnd", cs.Size, 9)
		r.set(id2, n2b, "overwrite neighbour 2")
		r.expect(id1, data, "Get(id1) after overwriting neighbour 2", "neighbour")
		r.set(id2, n2, "restore neighbour 2")
		if err := r.st.Delete(id1); err != nil {
			r.failf("delete-error", "Delete(id1): %v", err)
		}
		r.expect(id2, n2, "Get(neighbour 2) after Delete(id1)", "neighbour")
		r.expect(id3, n3, "Get(neighbour 3) after Delete(id1)", "neighbour")
		if now3, _ := os.ReadFile(idPath(r.dir, id3)); !bytes.Equal(now3, raw3) {
			r.failf("neighbour-file-touched", "the file of neighbour 3 changed although only id1 and id2 were written/deleted")
		}
	case "delete":
		if !r.set(id1, data, "Set(id1)") || !r.set(id2, data, "Set(id2)") || !r.set(id3, data, "Set(id3)") {
			return
		}
		noteShape()
		r.expect(id1, data, "Get before Delete", "delete")
		if err := r.st.Delete(id1); err != nil {
			r.failf("delete-error", "Delete of a stored id: %v", err)
		}
		r.expectGone(id1, "Delete(id1)")
		r.expectList([]imap.InternalMessageID{id2, id3}, "List after Delete(id1)")
		// storing again under the deleted id
		if r.set(id1, data, "Set after Delete") {
			r.expect(id1, data, "Get after Delete+Set", "delete")
		}
		// several ids in one call
		if err := r.st.Delete(id1, id2); err != nil {
			r.failf("delete-error", "Delete(id1,id2): %v", err)
		}
		r.expectGone(id1, "Delete(id1,id2)")
		r.expectGone(id2, "Delete(id1,id2)")
		r.expect(id3, data, "Get(id3) after deleting the others", "delete")
		// a call that names an id that is not stored (first / in the middle): it may fail, but when it reports success
		// every id it named must be gone
		for _, order := range [][]imap.InternalMessageID{{id1, id2, id3}, {id2, id1, id3}} {
			if !r.set(order[1], data, "Set before a Delete with a missing id") || !r.set(id3, data, "Set(id3)") {
				return
			}
			_ = r.st.Delete(order[0]) // make sure the first one named is missing
			if err := r.st.Delete(order...); err == nil {
				for _, id := range order {
					r.expectGone(id, "a Delete over several ids, one of them not stored, that reported success")
				}
			}
			_ = r.st.Delete(id1)
			_ = r.st.Delete(id2)
			_ = r.st.Delete(id3)
		}
	case "list":
		r.expectList(nil, "List of the empty store")
		if !r.set(id1, data, "Set(id1)") {
			return
		}
		noteShape()
		r.expectList([]imap.InternalMessageID{id1}, "List after one Set")
		r.set(id2, Gen(cs.Content, cs.Size/2, 2), "Set(id2)")
		r.set(id3, nil, "Set(id3, empty)")
		all := []imap.InternalMessageID{id1, id2, id3}
		r.expectList(all, "List after three Sets")
		r.set(id1, Gen(cs.Content, cs.Size, 3), "overwrite id1")
		r.expectList(all, "List after overwriting id1")
		if err := r.st.Delete(id2); err != nil {
			r.failf("delete-error", "Delete(id2): %v", err)
		}
		r.expectList([]imap.InternalMessageID{id1, id3}, "List after Delete(id2)")
		if err := r.st.Delete(id1, id3); err != nil {
			r.failf("delete-error", "Delete(id1,id3): %v", err)
		}
		r.expectList(nil, "List after deleting everything")
	case "failset":
		// A Set whose reader fails must not make Get return bytes that were never stored: afterwards Get must
		// give the previously stored bytes, the complete new bytes, or an error.
		old := Gen("text", 1000, 5)
		cuts := map[int]bool{0: true, cs.Size / 2: true, cs.Size: true}
		if cs.Size > 0 {
			cuts[cs.Size-1] = true
		}
		var ks []int
		for k := range cuts {
			ks = append(ks, k)
		}
		sort.Ints(ks)
		for _, k := range ks {
			if !r.set(id1, old, "Set(old content)") {
				return
			}
			err := r.st.Set(id1, &failReader{data: data, n: k})
			step := fmt.Sprintf("Set over 1000 stored bytes with a reader that fails after %d of %d bytes", k, cs.Size)
			if err == nil {
				r.failf("failset-set-reports-success", "%s returned nil", step)
				continue
			}
			flen := -1
			if fi, serr := os.Stat(idPath(r.dir, id1)); serr == nil {
				flen = int(fi.Size())
			}
			r.fileLen = flen
			got, gerr := r.st.Get(id1)
			switch {
			case gerr != nil, bytes.Equal(got, old), bytes.Equal(got, data):
			case len(got) == 0:
				r.failf("EMPTY", "%s (Set returned %q, file left with %d bytes): the following Get returns EMPTY content and no error", step, err, flen)
			case bytes.HasPrefix(data, got):
				r.failf("PREFIX", "%s (Set returned %q, file left with %d bytes): the following Get returns the first %d bytes and no error", step, err, flen, len(got))
			default:
				r.failf("failset-different-bytes", "%s: the following Get returns neither the old nor the new bytes: %s", step, diffDesc(got, data))
			}
		}
	default:
		r.failf("bad-case", "unknown scenario %q", cs.Scen)
	}
}

func tailClass(compLen int) string {
	switch m := compLen % BlockSize; {
	case compLen == 0:
		return "none"
	case m == 0:
		return "full"
	case m == 1:
		return "1"
	case m == BlockSize-1:
		return "bs-1"
	case m <= TagLen:
		return "<=16"
	case m >= BlockSize-TagLen:
		return ">=bs-16"
	}
	return "mid"
}

func c09sCall(raw json.RawMessage) (any, error) {
	chunk, err := enumt.ParseChunk(raw)
	if err != nil {
		return nil, err
	}
	useCommon(chunk.Common)
	res := &enumt.Result{Counters: map[string]int{}}
	outcomes := map[string]bool{}
	for _, rc := range chunk.Cases {
		var cs SizeCase
		if err := json.Unmarshal(rc, &cs); err != nil {
			return nil, err
		}
		dir, err := newDir()
		if err != nil {
			return nil, err
		}
		st, err := openStore(dir, basePass)
		if err != nil {
			_ = os.RemoveAll(dir)
			return nil, err
		}
		r := &sizeRun{cs: cs, dir: dir, st: st}
		stop := watchdog(func() string { return fmt.Sprintf("c09s %+v", cs) })
		r.run()
		stop()
		_ = st.Close()
		_ = os.RemoveAll(dir)
		res.Evaluations++
		res.Counters["c09s/"+cs.Scen]++
		nblocks, tail := -1, "?"
		if r.fileLen >= HeaderLen+NonceLen {
			body := r.fileLen - HeaderLen - NonceLen
			nblocks = (body + EncBlock - 1) / EncBlock
			tail = tailClass(body - nblocks*TagLen)
		}
		status := "ok"
		if len(r.fails) > 0 {
			status = "VIOLATION:" + r.fails[0].what
		}
		outcomes[fmt.Sprintf("c09s/%s/%s/blocks=%d/tail=%s/%s", cs.Scen, cs.Content, nblocks, tail, status)] = true
		seen := map[string]bool{}
		for _, f := range r.fails {
			sig := cs.Scen + "/" + f.what
			clause := "ROUNDTRIP"
			switch f.what {
			case "EMPTY":
				// the file left by the failed Set is the header+nonce stub: same defect as the truncation to 27 bytes
				sig, clause = "truncate/empty-without-error", "CORRUPT"
			case "PREFIX":
				sig, clause = "truncate/prefix-without-error", "CORRUPT"
			}
			if seen[sig] {
				continue
			}
			seen[sig] = true
			res.Viol = append(res.Viol, enumt.Viol{Clause: clause, Sig: sig, Msg: fmt.Sprintf("size %d, content %s, scenario %s: %s", cs.Size, cs.Content, cs.Scen, f.msg), Input: cs})
		}
		if len(res.Samples) < 1 {
			res.Samples = append(res.Samples, map[string]any{"case": cs, "file_bytes": r.fileLen, "aead_blocks": nblocks, "status": status})
		}
	}
	for k := range outcomes {
		res.Outcomes = append(res.Outcomes, k)
	}
	sort.Strings(res.Outcomes)
	return res, nil
}
