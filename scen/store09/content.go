// Package store09 holds the batch functions of check C09 (message store: exactly the stored bytes or an error).
// They run inside worker child processes against the REAL github.com/ProtonMail/gluon/store on-disk store, on
// directories below /dev/shm that are removed afterwards.
package store09

import (
	"bytes"
	"encoding/binary"
	"encoding/json"
	"fmt"
	"io"
	"os"
	"path/filepath"
	"regexp"
	"strings"
	"time"

	"github.com/ProtonMail/gluon/imap"
	"github.com/ProtonMail/gluon/store"
)

// Mirror of the on-disk format constants of /repo/store/disk.go (unexported there). GetBase verifies them
// against files written by the real Set, so a drift shows as an engine error, not as a wrong verdict.
const (
	BlockSize = 64 * 4096 // disk.go: blockSize (bytes of COMPRESSED stream per AEAD block)
	HeaderLen = 11 + 4    // "GLUON-CACHE" + uint32 version
	NonceLen  = 12        // AES-GCM nonce
	TagLen    = 16        // AES-GCM overhead
	EncBlock  = BlockSize + TagLen
	LZ4Chunk  = 64 * 1024 // lz4.Block64Kb: bytes of plain text per lz4 block
	lz4HdrLen = 7         // magic + FLG + BD + HC (no content size)
)

// Gen produces the deterministic content of the given kind and size. variant selects an independent stream
// (for "zeros" every variant is the same bytes).
func Gen(kind string, size int, variant uint64) []byte {
	out := make([]byte, size)
	switch kind {
	case "zeros":
	case "text":
		var b bytes.Buffer
		b.Grow(size + 128)
		fmt.Fprintf(&b, "From: sender%d@example.org\r\nTo: rcpt@example.org\r\nSubject: variant %d\r\nMIME-Version: 1.0\r\nContent-Type: text/plain; charset=utf-8\r\n\r\n", variant, variant)
		for i := 0; b.Len() < size; i++ {
			fmt.Fprintf(&b, "Line %07d/%d: The quick brown fox jumps over the lazy dog; pack my box with five dozen liquor jugs.\r\n", i, variant)
		}
		copy(out, b.Bytes())
	case "rnd":
		// splitmix64 from a constant seed: incompressible, identical in every process and run
		x := uint64(0x9E3779B97F4A7C15) ^ (variant * 0xD1342543DE82EF95)
		var w [8]byte
		for i := 0; i < size; i += 8 {
			x += 0x9E3779B97F4A7C15
			z := x
			z = (z ^ (z >> 30)) * 0xBF58476D1CE4E5B9
			z = (z ^ (z >> 27)) * 0x94D049BB133111EB
			z ^= z >> 31
			binary.LittleEndian.PutUint64(w[:], z)
			copy(out[i:], w[:])
		}
	case "mixed":
		// alternating 512-byte pieces of the incompressible stream and of zeros: LZ4 blocks that are really compressed
		// (literals + matches) yet large enough to reach the AEAD block boundaries
		r := Gen("rnd", size, variant+1000)
		for i := 0; i < size; i += 1024 {
			copy(out[i:], r[i:min(i+512, size)])
		}
	default:
		panic("store09: unknown content kind " + kind)
	}
	return out
}

// decryptFile splits a cache file according to the layout model (header, nonce, AEAD blocks of EncBlock bytes,
// the last one shorter) and returns the concatenated plain text of the blocks, i.e. the LZ4 stream.
func decryptFile(raw, pass []byte) (comp []byte, nblocks int, err error) {
	want := append([]byte("GLUON-CACHE"), 1, 0, 0, 0)
	if len(raw) < HeaderLen+NonceLen || !bytes.Equal(raw[:HeaderLen], want) {
		return nil, 0, fmt.Errorf("header mismatch")
	}
	gcm, err := store.NewCipher(pass)
	if err != nil {
		return nil, 0, err
	}
	if gcm.NonceSize() != NonceLen || gcm.Overhead() != TagLen {
		return nil, 0, fmt.Errorf("cipher parameters differ")
	}
	nonce := raw[HeaderLen : HeaderLen+NonceLen]
	for s := HeaderLen + NonceLen; s < len(raw); s += EncBlock {
		e := min(s+EncBlock, len(raw))
		pt, err := gcm.Open(nil, nonce, raw[s:e], nil)
		if err != nil {
			return nil, 0, fmt.Errorf("block %d [%d,%d) does not authenticate: %v", nblocks, s, e, err)
		}
		comp = append(comp, pt...)
		nblocks++
	}
	return comp, nblocks, nil
}

// compressor obtains the LZ4 stream the REAL Set produces for a content (by storing it and decrypting the file).
type compressor struct {
	dir string
	st  store.Store
}

func newCompressor() (*compressor, error) {
	dir, err := newDir()
	if err != nil {
		return nil, err
	}
	st, err := openStore(dir, basePass)
	if err != nil {
		_ = os.RemoveAll(dir)
		return nil, err
	}
	return &compressor{dir: dir, st: st}, nil
}

func (c *compressor) close() { _ = c.st.Close(); _ = os.RemoveAll(c.dir) }

func (c *compressor) compress(plain []byte) ([]byte, error) {
	if err := c.st.Set(MsgID(9), bytes.NewReader(plain)); err != nil {
		return nil, err
	}
	raw, err := os.ReadFile(idPath(c.dir, MsgID(9)))
	if err != nil {
		return nil, err
	}
	comp, _, err := decryptFile(raw, basePass)
	return comp, err
}

// lz4Boundaries returns the offsets in the compressed stream at which an lz4 data block (or the end mark) starts.
func lz4Boundaries(comp []byte) ([]int, error) {
	if len(comp) < lz4HdrLen+4 {
		return nil, fmt.Errorf("compressed stream too short")
	}
	var out []int
	off := lz4HdrLen
	for {
		if off+4 > len(comp) {
			return nil, fmt.Errorf("lz4 walk ran off the stream at %d", off)
		}
		out = append(out, off)
		x := binary.LittleEndian.Uint32(comp[off:])
		if x == 0 {
			if off+4 != len(comp) {
				return nil, fmt.Errorf("end mark at %d but stream has %d bytes", off, len(comp))
			}
			return out, nil
		}
		off += 4 + int(x&0x7fffffff)
	}
}

// MsgID returns the n-th fixed message id.
func MsgID(n int) imap.InternalMessageID {
	id, err := imap.InternalMessageIDFromString(fmt.Sprintf("00000000-0000-4000-8000-%012d", n))
	if err != nil {
		panic(err)
	}
	return id
}

const userID = "user"

var basePass = []byte("c09-passphrase")

func openStore(dir string, pass []byte) (store.Store, error) {
	// as gluon uses it: the on-disk store behind the write-controlled wrapper
	st, err := (&store.OnDiskStoreBuilder{}).New(dir, userID, pass)
	if err != nil {
		return nil, err
	}
	return store.NewWriteControlledStore(st), nil
}

func idPath(dir string, id imap.InternalMessageID) string {
	return filepath.Join(dir, userID, id.String())
}

var dirSeq int

// runTag names the directories of one run of the check: the coordinator's tag is handed to the workers in the
// common parameters, so that Cleanup removes exactly the directories of this run.
var runTag = fmt.Sprintf("r%d", os.Getpid())

// RunTag returns the tag of this process' run.
func RunTag() string { return runTag }

// Common is the common parameter block of both batch functions.
type Common struct {
	Run     string         `json:"run"`
	FileLen map[string]int `json:"file_len,omitempty"` // corruption part: the base file lengths the cases were enumerated against
}

func useCommon(raw json.RawMessage) Common {
	var c Common
	if len(raw) > 0 {
		_ = json.Unmarshal(raw, &c)
	}
	if c.Run != "" && !strings.ContainsAny(c.Run, "/*?[") {
		runTag = c.Run
	}
	return c
}

func newDir() (string, error) {
	dirSeq++
	return os.MkdirTemp("/dev/shm", fmt.Sprintf("verif-c09-%s-%d-%d-", runTag, os.Getpid(), dirSeq))
}

// Cleanup removes every directory of this run that is still there (e.g. of a worker that died).
func Cleanup() {
	m, _ := filepath.Glob("/dev/shm/verif-c09-" + runTag + "-*")
	for _, p := range m {
		_ = os.RemoveAll(p)
	}
}

// watchdog kills the process when one case does not finish within a very generous bound (normal: milliseconds
// to a few seconds), so that a hang is reported as a CRASH of exactly that case.
func watchdog(what func() string) (stop func()) {
	done := make(chan struct{})
	go func() {
		select {
		case <-done:
		case <-time.After(10 * time.Minute):
			fmt.Fprintf(os.Stderr, "panic: watchdog: store operation hung: %s\n", what())
			os.Exit(3)
		}
	}()
	return func() { close(done) }
}

var digits = regexp.MustCompile(`[0-9]+`)

// errClass normalises an error text to a class (numbers and paths removed).
func errClass(err error) string {
	s := err.Error()
	if i := strings.Index(s, "/dev/shm/"); i >= 0 {
		j := strings.IndexAny(s[i:], ": ")
		if j < 0 {
			j = len(s) - i
		}
		s = s[:i] + "<path>" + s[i+j:]
	}
	s = digits.ReplaceAllString(s, "N")
	if len(s) > 70 {
		s = s[:70]
	}
	return s
}

// diffDesc describes how got differs from want.
func diffDesc(got, want []byte) string {
	n := len(got)
	if len(want) < n {
		n = len(want)
	}
	first := -1
	for i := 0; i < n; i++ {
		if got[i] != want[i] {
			first = i
			break
		}
	}
	switch {
	case first >= 0:
		return fmt.Sprintf("got %d bytes, want %d bytes, first difference at offset %d", len(got), len(want), first)
	case len(got) < len(want):
		return fmt.Sprintf("got only the first %d of %d bytes", len(got), len(want))
	default:
		return fmt.Sprintf("got %d bytes, want %d bytes (the wanted bytes are a prefix)", len(got), len(want))
	}
}

// failReader delivers the first n bytes of data and then fails with errInjected.
type failReader struct {
	data []byte
	n    int
	off  int
}

var errInjected = fmt.Errorf("c09: injected read failure")

func (f *failReader) Read(p []byte) (int, error) {
	if f.off >= f.n {
		return 0, errInjected
	}
	k := copy(p, f.data[f.off:f.n])
	f.off += k
	return k, nil
}

var _ io.Reader = (*failReader)(nil)
