package robust11

import (
	"errors"
	"io"
	"net"
	"runtime"
	"sync"
	"time"
)

// An instrumented in-memory connection: writes never block, the client can see when the server's reader waits for
// input on an empty pipe (the server has consumed everything that was sent), can half-close, and the server side
// counts reads at the end of the stream. A server goroutine that keeps reading after the end of the stream more than
// SpinReads times is stopped with runtime.Goexit (its deferred functions run, so the session is torn down in the
// normal way) and the connection is marked as spun.

type pconn struct {
	mu   sync.Mutex
	cond *sync.Cond

	c2s       []byte // client -> server bytes not yet read by the server
	c2sClosed bool   // the client has closed its writing side
	s2c       []byte // server -> client bytes not yet read by the client
	s2cTotal  int    // bytes ever written by the server
	srvClosed bool   // the server called Close
	cliGone   bool   // the client has closed both directions: server writes fail
	waiting   bool   // the server's reader is blocked on an empty pipe
	eofReads  int
	spun      bool
	spinSite  string // parse function that kept reading at the end of the stream
	waitSite  string // parse function the server's reader is in while it waits for input
	outLimit  int    // cap on buffered server output (guards the harness against an output flood)
	flooded   bool
}

func newPconn() *pconn {
	p := &pconn{outLimit: 1 << 30}
	p.cond = sync.NewCond(&p.mu)
	return p
}

type addr string

func (a addr) Network() string { return "c11mem" }
func (a addr) String() string  { return string(a) }

// srvEnd is the net.Conn handed to the server.
type srvEnd struct{ p *pconn }

var errClosed = errors.New("c11 pipe: use of closed connection")

func (s srvEnd) Read(b []byte) (int, error) {
	p := s.p
	p.mu.Lock()
	for {
		if len(p.c2s) > 0 && !p.srvClosed {
			n := copy(b, p.c2s)
			p.c2s = p.c2s[n:]
			if len(p.c2s) == 0 {
				p.c2s = nil
			}
			p.mu.Unlock()
			return n, nil
		}
		if p.c2sClosed || p.srvClosed {
			p.eofReads++
			if p.eofReads > SpinReads {
				p.spun = true
				p.spinSite = parseSite()
				p.srvClosed = true
				p.cond.Broadcast()
				p.mu.Unlock()
				runtime.Goexit()
			}
			closed := p.srvClosed
			p.mu.Unlock()
			if closed {
				return 0, errClosed
			}
			return 0, io.EOF
		}
		p.waiting = true
		p.waitSite = parseSite()
		p.cond.Broadcast()
		p.cond.Wait()
		p.waiting = false
	}
}

func (s srvEnd) Write(b []byte) (int, error) {
	p := s.p
	p.mu.Lock()
	defer p.mu.Unlock()
	if p.srvClosed {
		return 0, errClosed
	}
	if p.cliGone {
		return 0, io.ErrClosedPipe
	}
	if len(p.s2c)+len(b) > p.outLimit {
		p.flooded = true
		return 0, io.ErrShortWrite
	}
	p.s2c = append(p.s2c, b...)
	p.s2cTotal += len(b)
	p.cond.Broadcast()
	return len(b), nil
}

func (s srvEnd) Close() error {
	p := s.p
	p.mu.Lock()
	defer p.mu.Unlock()
	p.srvClosed = true
	p.cond.Broadcast()
	return nil
}

func (s srvEnd) LocalAddr() net.Addr                { return addr("c11-server") }
func (s srvEnd) RemoteAddr() net.Addr               { return addr("c11-client") }
func (s srvEnd) SetDeadline(t time.Time) error      { return nil }
func (s srvEnd) SetReadDeadline(t time.Time) error  { return nil }
func (s srvEnd) SetWriteDeadline(t time.Time) error { return nil }

// ---- client side ----

func (p *pconn) Send(b []byte) {
	p.mu.Lock()
	defer p.mu.Unlock()
	p.c2s = append(p.c2s, b...)
	p.cond.Broadcast()
}

// WaitQuiet blocks until the server has consumed everything sent so far and its reader waits for more, or the server
// has closed the connection (or was stopped for spinning). It reports whether the connection is still open.
func (p *pconn) WaitQuiet() bool {
	p.mu.Lock()
	defer p.mu.Unlock()
	for !(p.srvClosed || p.spun || (p.waiting && len(p.c2s) == 0)) {
		p.cond.Wait()
	}
	return !(p.srvClosed || p.spun)
}

// WaitClosed blocks until the server has closed the connection (or was stopped for spinning).
func (p *pconn) WaitClosed() {
	p.mu.Lock()
	defer p.mu.Unlock()
	for !(p.srvClosed || p.spun) {
		p.cond.Wait()
	}
}

// WaitOutput blocks until at least n bytes have ever been written by the server or the server closed.
func (p *pconn) WaitOutput(n int) {
	p.mu.Lock()
	defer p.mu.Unlock()
	for !(p.srvClosed || p.spun || p.s2cTotal >= n) {
		p.cond.Wait()
	}
}

// Take returns (and removes) everything the server has written so far, and the number of bytes ever written.
func (p *pconn) Take() ([]byte, int) {
	p.mu.Lock()
	defer p.mu.Unlock()
	out := p.s2c
	p.s2c = nil
	return out, p.s2cTotal
}

// WaitMore blocks until the server has written more than seen bytes or has closed; it reports whether the
// connection is still open.
func (p *pconn) WaitMore(seen int) bool {
	p.mu.Lock()
	defer p.mu.Unlock()
	for !(p.srvClosed || p.spun || p.s2cTotal > seen) {
		p.cond.Wait()
	}
	return !(p.srvClosed || p.spun)
}

func (p *pconn) CloseWrite() {
	p.mu.Lock()
	defer p.mu.Unlock()
	p.c2sClosed = true
	p.cond.Broadcast()
}

// Abort closes both directions at once (abrupt disconnect).
func (p *pconn) Abort() {
	p.mu.Lock()
	defer p.mu.Unlock()
	p.c2sClosed = true
	p.cliGone = true
	p.cond.Broadcast()
}

func (p *pconn) Closed() bool {
	p.mu.Lock()
	defer p.mu.Unlock()
	return p.srvClosed || p.spun
}

// Sites returns the parse functions recorded for a spin and for the current wait.
func (p *pconn) Sites() (spin, wait string) {
	p.mu.Lock()
	defer p.mu.Unlock()
	return p.spinSite, p.waitSite
}

func (p *pconn) Spun() bool {
	p.mu.Lock()
	defer p.mu.Unlock()
	return p.spun
}

func (p *pconn) EOFReads() int {
	p.mu.Lock()
	defer p.mu.Unlock()
	return p.eofReads
}

// plistener hands server ends to Accept.
type plistener struct {
	ch     chan net.Conn
	once   sync.Once
	closed chan struct{}
}

func newPlistener() *plistener {
	return &plistener{ch: make(chan net.Conn), closed: make(chan struct{})}
}

func (l *plistener) Accept() (net.Conn, error) {
	select {
	case c := <-l.ch:
		return c, nil
	case <-l.closed:
		return nil, net.ErrClosed
	}
}

func (l *plistener) Close() error {
	l.once.Do(func() { close(l.closed) })
	return nil
}

func (l *plistener) Addr() net.Addr { return addr("c11-listener") }

func (l *plistener) Dial() (*pconn, error) {
	p := newPconn()
	select {
	case l.ch <- srvEnd{p}:
		return p, nil
	case <-l.closed:
		return nil, net.ErrClosed
	}
}
