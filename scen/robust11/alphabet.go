// Package robust11 holds the bounded-exhaustive robustness checks of property C11 (arbitrary client bytes never
// crash, hang or bloat the server): "c11p" drives the real command parser the way the session's command reader does,
// "c11w" talks to a real server over an instrumented in-memory connection.
//
// Both levels share the token alphabet, the stems (tag + command text that places the parser at one grammar
// position), the way an input is cut into delivery units and the classification of what was observed.
package robust11

import (
	"bytes"
	"regexp"
	"runtime"
	"strconv"
	"strings"
)

// Tokens is the structural alphabet. Index = token id used in cases.
var Tokens = []string{
	"a", " ", "(", ")", `"`, `\`, "{1}\r\n", "{0}\r\n", "{99999999999}\r\n", "\r\n", "\n",
	"*", ":", ",", "1", "99999999999999999999", "[", "]", "<", "\x00", "\xff",
}

// TokenNames are printable names of the tokens (used in samples and messages).
var TokenNames = []string{
	"a", "SP", "(", ")", "DQ", "BSL", "{1}CRLF", "{0}CRLF", "{99999999999}CRLF", "CRLF", "LF",
	"*", ":", ",", "1", "9x20", "[", "]", "<", "NUL", "xFF",
}

// Small is the reduced alphabet (token ids) used for the deepest level of the thorough tier.
var Small = []int{0, 1, 2, 3, 4, 5, 6, 7, 9, 10, 11, 12}

// Stems: command text that follows "<tag> " and places the parser at one grammar position. The empty stem is "no
// keyword"; "-" means nothing at all after the tag (not even the space); "~" means no tag either (raw tokens).
var Stems = []string{
	"~", "-", "",
	"CAPABILITY", "NOOP", "LOGOUT", "STARTTLS", "CHECK", "CLOSE", "EXPUNGE", "UNSELECT", "IDLE", "DONE", "XYZZY",
	"LOGIN", "LOGIN ", "LOGIN a ", "LOGIN \"a\" ",
	"SELECT", "SELECT ", "EXAMINE ", "CREATE ", "DELETE ", "SUBSCRIBE ", "UNSUBSCRIBE ",
	"RENAME ", "RENAME a ",
	"LIST", "LIST ", "LIST a ", "LIST \"\" ", "LSUB ", "LSUB a ",
	"STATUS ", "STATUS a ", "STATUS a (", "STATUS a (MESSAGES",
	"APPEND ", "APPEND a ", "APPEND a (", "APPEND a (\\Seen", "APPEND a (\\Seen) ", "APPEND a \"", "APPEND a \"01-Jan-2020 00:00:00 +0000\" ",
	"SEARCH", "SEARCH ", "SEARCH CHARSET ", "SEARCH CHARSET a ", "SEARCH ALL ", "SEARCH NOT ", "SEARCH OR ", "SEARCH OR ALL ",
	"SEARCH (", "SEARCH (ALL", "SEARCH BODY ", "SEARCH HEADER ", "SEARCH HEADER a ", "SEARCH BEFORE ", "SEARCH BEFORE \"",
	"SEARCH KEYWORD ", "SEARCH LARGER ", "SEARCH UID ", "SEARCH 1", "SEARCH CC ",
	"FETCH", "FETCH ", "FETCH 1", "FETCH 1 ", "FETCH 1 (", "FETCH 1 (FLAGS", "FETCH 1 BODY", "FETCH 1 BODY[", "FETCH 1 BODY[1",
	"FETCH 1 BODY[HEADER.FIELDS ", "FETCH 1 BODY[HEADER.FIELDS (", "FETCH 1 BODY[HEADER.FIELDS (a", "FETCH 1 BODY[]", "FETCH 1 BODY[]<", "FETCH 1 BODY[]<1.",
	"FETCH 1 BODY.PEEK[", "FETCH 1 RFC822", "FETCH 1 RFC822.",
	"STORE ", "STORE 1 ", "STORE 1 +FLAGS", "STORE 1 +FLAGS ", "STORE 1 FLAGS (", "STORE 1 FLAGS (\\Seen", "STORE 1 -FLAGS.SILENT ",
	"COPY ", "COPY 1 ", "MOVE ", "MOVE 1 ",
	"UID", "UID ", "UID FETCH ", "UID FETCH 1 ", "UID FETCH 1 (", "UID STORE 1 ", "UID SEARCH ", "UID COPY 1 ", "UID MOVE 1 ", "UID EXPUNGE ", "UID XYZZY ",
	"ID", "ID ", "ID (", "ID (\"a\"", "ID (\"a\" ", "ID (\"a\" \"b\"", "ID NIL",
}

// Tag used for generated lines and tags of the marker commands.
const Tag = "t7"

// Head returns the bytes of "<tag> <stem>" for a stem.
func Head(stem string) string {
	switch stem {
	case "~":
		return ""
	case "-":
		return Tag
	}
	return Tag + " " + stem
}

// Build concatenates the head and the tokens.
func Build(stem string, toks []int) []byte {
	var b bytes.Buffer
	b.WriteString(Head(stem))
	for _, t := range toks {
		b.WriteString(Tokens[t])
	}
	return b.Bytes()
}

// Show renders an input for messages.
func Show(b []byte) string {
	if len(b) > 160 {
		return strconv.Quote(string(b[:80])) + "...(" + strconv.Itoa(len(b)) + " bytes)..." + strconv.Quote(string(b[len(b)-40:]))
	}
	return strconv.Quote(string(b))
}

// ShowToks renders a token list.
func ShowToks(toks []int) string {
	var s []string
	for _, t := range toks {
		s = append(s, TokenNames[t])
	}
	return strings.Join(s, " ")
}

// ForEach enumerates all token strings first+suffix where suffix has exactly n tokens over alpha.
func ForEach(first []int, n int, alpha []int, fn func(toks []int)) {
	cur := append([]int{}, first...)
	var rec func(k int)
	rec = func(k int) {
		if k == 0 {
			fn(cur)
			return
		}
		for _, t := range alpha {
			cur = append(cur, t)
			rec(k - 1)
			cur = cur[:len(cur)-1]
		}
	}
	rec(n)
}

// AllTokens returns the ids of the whole alphabet.
func AllTokens() []int {
	out := make([]int, len(Tokens))
	for i := range out {
		out[i] = i
	}
	return out
}

// ---------------------------------------------------------------------------------------------------------------
// Delivery units. An input is handed to the parser / server in units: a unit extends to the next CRLF (after any
// literal bytes the receiver has asked for). Asking for more input before having answered a unit that ends in CRLF is
// only legitimate after a continuation request.

const LiteralCap = 30 * 1024 * 1024

var litEndRe = regexp.MustCompile(`\{([0-9]{1,18})\}\r\n$`)

// litSpec returns the literal size announced at the end of a unit ("{n}CRLF"), or -1.
func litSpec(unit []byte) int64 {
	tail := unit
	if len(tail) > 32 {
		tail = tail[len(tail)-32:]
	}
	m := litEndRe.FindSubmatch(tail)
	if m == nil {
		return -1
	}
	n, err := strconv.ParseInt(string(m[1]), 10, 64)
	if err != nil {
		return -1
	}
	return n
}

// nextUnit cuts the next unit from rest: skip literal bytes, then up to and including the next CRLF. complete tells
// whether the unit ends with a CRLF that is not literal data.
func nextUnit(rest []byte, literal int64) (unit []byte, complete bool) {
	skip := 0
	if literal > 0 {
		if literal > int64(len(rest)) {
			skip = len(rest)
		} else {
			skip = int(literal)
		}
	}
	i := bytes.Index(rest[skip:], []byte("\r\n"))
	if i < 0 {
		return rest, false
	}
	return rest[:skip+i+2], true
}

var tagRe = regexp.MustCompile(`^([A-Za-z0-9.\-_]+) `)

// lineTag returns the tag of a line "<tag> SP ..." (only tags made of characters every IMAP server accepts).
func lineTag(line []byte) string {
	head := line
	if len(head) > 64 {
		head = head[:64]
	}
	m := tagRe.FindSubmatch(head)
	if m == nil {
		return ""
	}
	return string(m[1])
}

// quoteOpen reports whether the text ends inside a quoted string (lexically: unescaped double quotes are unbalanced).
func quoteOpen(b []byte) bool {
	open := false
	for i := 0; i < len(b); i++ {
		switch b[i] {
		case '\\':
			if open {
				i++
			}
		case '"':
			open = !open
		}
	}
	return open
}

var knownKeywords = map[string]bool{}

func init() {
	for _, k := range strings.Fields("CAPABILITY NOOP LOGOUT STARTTLS CHECK CLOSE EXPUNGE UNSELECT IDLE DONE LOGIN SELECT EXAMINE CREATE DELETE SUBSCRIBE UNSUBSCRIBE RENAME LIST LSUB STATUS APPEND SEARCH FETCH STORE COPY MOVE UID ID XYZZY") {
		knownKeywords[k] = true
	}
}

// keyword returns the upper-cased command word after the tag when it is one of the command names used by the stems,
// else "other" (signatures stay a small set).
func keyword(line []byte) string {
	head := line
	if len(head) > 80 {
		head = head[:80]
	}
	f := strings.Fields(string(head))
	if len(f) < 2 {
		return "other"
	}
	if k := strings.ToUpper(f[1]); knownKeywords[k] {
		return k
	}
	return "other"
}

var parseFnRe = regexp.MustCompile(`gluon/rfcparser\.\(\*Parser\)\.(Parse[A-Z][A-Za-z0-9]*)$`)
var cmdFnRe = regexp.MustCompile(`gluon/imap/command\.(.*)$`)

// parseSite names the parse function the calling goroutine is in: the innermost rfcparser Parse* function on the
// stack, else the innermost imap/command function. It is used to class a parse that does not stop reading.
func parseSite() string {
	pcs := make([]uintptr, 96)
	n := runtime.Callers(2, pcs)
	frames := runtime.CallersFrames(pcs[:n])
	cmd := ""
	for {
		fr, more := frames.Next()
		if m := parseFnRe.FindStringSubmatch(fr.Function); m != nil {
			return m[1]
		}
		if cmd == "" && !strings.Contains(fr.Function, "InputCollector") {
			if m := cmdFnRe.FindStringSubmatch(fr.Function); m != nil {
				cmd = strings.NewReplacer("(", "", ")", "", "*", "").Replace(m[1])
			}
		}
		if !more {
			break
		}
	}
	if cmd != "" {
		return cmd
	}
	return "reader"
}
