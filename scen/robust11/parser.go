package robust11

import (
	"bufio"
	"encoding/json"
	"errors"
	"fmt"
	"io"
	"runtime"
	"strings"

	"github.com/ProtonMail/gluon/imap/command"
	"github.com/ProtonMail/gluon/rfcparser"

	"verif/engine/enumt"
	"verif/engine/explore"
)

func init() {
	explore.RegisterCall("c11p", parserCall)
}

// PCase is a block of parser-level inputs: head(Stem) + First + every token string of exactly N tokens over the
// alphabet (Small selects the reduced alphabet), each with both endings (stream ends there / CRLF + marker NOOP).
type PCase struct {
	Stem  string `json:"stem"`
	First []int  `json:"first,omitempty"`
	N     int    `json:"n"`
	Small bool   `json:"small,omitempty"`
	// Single: evaluate exactly this input (replay form, also produced for witnesses).
	Single *PInput `json:"single,omitempty"`
}

// PInput is one concrete parser-level input.
type PInput struct {
	Stem string `json:"stem"`
	Toks []int  `json:"toks"`
	End  string `json:"end"` // "eof" | "line"
	Text string `json:"text,omitempty"`
}

const (
	SpinReads   = 10000   // reads at end of stream after which a parse is declared to spin
	BloatBase   = 4 << 20 // allowed allocation per input: BloatBase + BloatFactor*len(input)
	BloatFactor = 256
	Marker      = "z9 NOOP\r\n"
)

type spinAbort struct{ site string }

// src hands the input to the parser unit by unit and watches how the parser asks for more.
type src struct {
	input     []byte
	pos       int
	unitEnd   int   // end of the unit being delivered
	literal   int64 // literal bytes announced by the last delivered unit
	cbSince   bool  // continuation requested since the last unit was started
	delivered int   // units started in the current window
	lastCRLF  bool  // the last delivered unit is complete and ends in CRLF
	unitCRLF  bool  // the unit being delivered ends in a CRLF that is not literal data
	lastLit   int64 // litSpec of the last completed unit
	eofReads  int
	overrun   bool
	overSite  string
	markerIn  int // how the marker unit was delivered: 0 not yet, 1 first unit of a window, 2 as literal data, 3 overrun
	total     int
}

func (s *src) beginWindow() { s.delivered = 0; s.overrun = false; s.cbSince = false }

func (s *src) continuation() error { s.cbSince = true; return nil }

func (s *src) Read(p []byte) (int, error) {
	if s.pos >= len(s.input) {
		s.eofReads++
		if s.eofReads > SpinReads {
			panic(spinAbort{site: parseSite()})
		}
		return 0, io.EOF
	}
	if s.pos >= s.unitEnd {
		// a new unit starts
		lit := int64(0)
		over := false
		if s.delivered > 0 && s.lastCRLF {
			if s.cbSince {
				lit = s.lastLit
			} else {
				over = true
				s.overrun = true
				s.overSite = parseSite()
			}
		}
		unit, complete := nextUnit(s.input[s.pos:], lit)
		s.unitEnd = s.pos + len(unit)
		s.unitCRLF = complete
		if s.markerIn == 0 && s.unitEnd == len(s.input) && strings.HasSuffix(string(s.input), Marker) && len(unit) >= len(Marker) {
			switch {
			case over:
				s.markerIn = 3
			case s.delivered == 0 && len(unit) == len(Marker):
				s.markerIn = 1
			default:
				s.markerIn = 2
			}
		}
		s.delivered++
		s.cbSince = false
	}
	n := copy(p, s.input[s.pos:s.unitEnd])
	s.pos += n
	s.total += n
	if s.pos == s.unitEnd {
		u := s.input[:s.unitEnd]
		s.lastCRLF = s.unitCRLF
		s.lastLit = litSpec(u)
		if s.lastLit < 0 {
			s.lastLit = 0
		}
	} else {
		s.lastCRLF = false
	}
	return n, nil
}

// pObs is what one input showed.
type pObs struct {
	viol    map[string]string // "CLAUSE/sig" -> message (first)
	outcome string
	windows int
}

func (o *pObs) add(clause, sig, msg string) {
	k := clause + "/" + sig
	if _, ok := o.viol[k]; !ok {
		o.viol[k] = msg
	}
}

func errClass(err error) string {
	if err == nil {
		return "ok"
	}
	var pe *rfcparser.Error
	if errors.As(err, &pe) {
		m := pe.Message
		if i := strings.IndexAny(m, "'0123456789"); i > 0 {
			m = m[:i]
		}
		if len(m) > 40 {
			m = m[:40]
		}
		return strings.TrimSpace(m)
	}
	return "nonparser:" + err.Error()
}

// runParser drives the real parser over the input exactly like internal/session.startCommandReader does.
func runParser(input []byte) (obs pObs) {
	obs.viol = map[string]string{}
	s := &src{input: input}
	ic := command.NewInputCollector(bufio.NewReader(s))
	scanner := rfcparser.NewScannerWithReader(ic)
	parser := command.NewParserWithLiteralContinuationCb(scanner, s.continuation)
	var classes []string
	defer func() {
		if r := recover(); r != nil {
			sa, ok := r.(spinAbort)
			if !ok {
				panic(r)
			}
			obs.add("SPIN", "eof:"+sa.site, fmt.Sprintf("the parser (in %s) asked for input more than %d times after the end of the stream without returning; input %s", sa.site, SpinReads, Show(input)))
			if s.overrun {
				obs.add("OVERRUN", s.overSite, fmt.Sprintf("a complete line was not answered: the parser (in %s) asked for more input without a continuation request; input %s", s.overSite, Show(input)))
			}
			obs.outcome = strings.Join(append(classes, "SPIN"), ">")
		}
	}()
	for {
		obs.windows++
		if obs.windows > len(input)+8 {
			obs.add("SPIN", "no-progress", "more parse rounds than input bytes: "+Show(input))
			break
		}
		s.beginWindow()
		ic.Reset()
		cmd, err := parser.Parse()
		closing := false
		replied := true
		var pe *rfcparser.Error
		nonParser := false
		eofTyped := false
		if err != nil {
			switch {
			case !errors.As(err, &pe):
				nonParser, closing, replied = true, true, false
			case pe.IsEOF():
				eofTyped, closing, replied = true, true, false
			default:
				if e := parser.ConsumeInvalidInput(); e != nil {
					closing, replied = true, false
				}
			}
		}
		consumed := append([]byte(nil), ic.Bytes()...)
		atEOF := s.eofReads > 0
		tag := lineTag(consumed)
		kw := keyword(consumed)
		cls := errClass(err)
		if closing {
			cls += "!close"
		}
		classes = append(classes, cls)
		if s.overrun {
			obs.add("OVERRUN", s.overSite, fmt.Sprintf("a complete line was not answered: the parser (in %s) asked for more input without a continuation request; consumed %s of input %s", s.overSite, Show(consumed), Show(input)))
		}
		if !atEOF {
			switch {
			case nonParser:
				lit := litSpec(append(append([]byte{}, firstLitLine(consumed)...), '\r', '\n'))
				switch {
				case lit >= LiteralCap:
					// the literal cap: closing the connection is the given behaviour
					classes[len(classes)-1] = "cap-close"
				case lit == 0:
					obs.add("DROP", "literal-zero", fmt.Sprintf("parse error %q is not a parser error: the command reader ends and the connection is closed without any reply; input %s", err.Error(), Show(input)))
				default:
					obs.add("DROP", "non-parser-error:"+kw, fmt.Sprintf("parse error %q is not a parser error: connection closed without reply; input %s", err.Error(), Show(input)))
				}
			case eofTyped:
				sig := "first-token-error-taken-for-eof"
				if obs.windows > 1 {
					sig = "error-taken-for-eof:" + kw
				}
				obs.add("DROP", sig, fmt.Sprintf("parse error %q carries the end-of-stream token although the stream has not ended: the command reader ends and the connection is closed without any reply; consumed %s of input %s", err.Error(), Show(consumed), Show(input)))
			}
		}
		if replied && tag != "" && cmd.Tag != tag {
			sig := "lost:" + cls
			if pe != nil && (pe.Message == "expected CR" || pe.Message == "expected LF after CR") {
				sig = "lost-at-line-end"
			}
			obs.add("TAG", sig, fmt.Sprintf("line %s is answered with tag %q (error %v)", Show(consumed), cmd.Tag, err))
		}
		if string(consumed) == Marker && s.markerIn == 1 {
			if _, isNoop := cmd.Payload.(*command.Noop); err != nil || !isNoop || cmd.Tag != "z9" {
				obs.add("MARKER", "noop-refused", fmt.Sprintf("a well-formed NOOP after the input is not parsed: %v; input %s", err, Show(input)))
			}
			s.markerIn = 4
		}
		if closing {
			break
		}
	}
	obs.outcome = strings.Join(classes, ">")
	return obs
}

func firstLine(b []byte) []byte {
	if i := strings.Index(string(b), "\r\n"); i >= 0 {
		return b[:i]
	}
	return b
}

// firstLitLine returns the consumed text up to and including the closing brace of a trailing literal announcement.
func firstLitLine(b []byte) []byte {
	if i := strings.LastIndexByte(string(b), '}'); i >= 0 {
		return b[:i+1]
	}
	return b
}

func parserCall(raw json.RawMessage) (any, error) {
	chunk, err := enumt.ParseChunk(raw)
	if err != nil {
		return nil, err
	}
	res := &enumt.Result{Counters: map[string]int{}}
	outcomes := map[string]bool{}
	seen := map[string]bool{}
	var ms runtime.MemStats
	runtime.ReadMemStats(&ms)
	lastAlloc := ms.TotalAlloc
	one := func(in PInput) {
		input := Build(in.Stem, in.Toks)
		if in.End == "line" {
			input = append(input, "\r\n"+Marker...)
		}
		obs := runParser(input)
		res.Evaluations++
		runtime.ReadMemStats(&ms)
		used := ms.TotalAlloc - lastAlloc
		lastAlloc = ms.TotalAlloc
		if limit := uint64(BloatBase + BloatFactor*len(input)); used > limit {
			obs.add("BLOAT", "alloc:"+keyword(input), fmt.Sprintf("parsing %d input bytes allocated %d bytes (limit %d): %s", len(input), used, limit, Show(input)))
		}
		if strings.Trim(obs.outcome, "ok>") != "" {
			outcomes[in.Stem+"|"+obs.outcome] = true
		}
		for k, msg := range obs.viol {
			res.Counters["viol:"+k]++
			if seen[k] {
				continue
			}
			seen[k] = true
			i := strings.Index(k, "/")
			in.Text = Show(input)
			res.Viol = append(res.Viol, enumt.Viol{Clause: k[:i], Sig: k[i+1:], Msg: msg, Input: PCase{Single: &PInput{Stem: in.Stem, Toks: append([]int{}, in.Toks...), End: in.End, Text: in.Text}}})
		}
		if len(obs.viol) == 0 {
			res.Counters["clean"]++
		}
		if len(res.Samples) < 2 && obs.outcome != "" && res.Evaluations%97 == 3 {
			res.Samples = append(res.Samples, map[string]any{"input": string(input), "outcome": obs.outcome})
		}
	}
	for _, rc := range chunk.Cases {
		var c PCase
		if err := json.Unmarshal(rc, &c); err != nil {
			return nil, err
		}
		if c.Single != nil {
			one(*c.Single)
			continue
		}
		alpha := AllTokens()
		if c.Small {
			alpha = Small
		}
		ForEach(c.First, c.N, alpha, func(toks []int) {
			one(PInput{Stem: c.Stem, Toks: toks, End: "eof"})
			one(PInput{Stem: c.Stem, Toks: toks, End: "line"})
		})
	}
	for k := range outcomes {
		res.Outcomes = append(res.Outcomes, k)
	}
	return res, nil
}

// anyCommandParses reports whether the real parser accepts at least one command of the input (driven like the
// session's command reader). Inputs of which no line parses are answered by the session loop without looking at the
// session state.
func anyCommandParses(input []byte) (ok bool) {
	s := &src{input: input}
	ic := command.NewInputCollector(bufio.NewReader(s))
	parser := command.NewParserWithLiteralContinuationCb(rfcparser.NewScannerWithReader(ic), s.continuation)
	defer func() {
		if r := recover(); r != nil {
			if _, is := r.(spinAbort); !is {
				panic(r)
			}
			ok = false
		}
	}()
	for i := 0; i < len(input)+8; i++ {
		s.beginWindow()
		_, err := parser.Parse()
		if err == nil {
			return true
		}
		var pe *rfcparser.Error
		if !errors.As(err, &pe) || pe.IsEOF() || parser.ConsumeInvalidInput() != nil {
			return false
		}
	}
	return false
}
