package robust11

import (
	"bytes"
	"context"
	"encoding/json"
	"fmt"
	"os"
	"regexp"
	"runtime"
	"strconv"
	"strings"
	"sync"
	"time"

	"verif/engine/enumt"
	"verif/engine/explore"
	"verif/scen/wire"
)

func init() {
	explore.RegisterCall("c11w", wireCall)
}

// WCase is one wire-level case.
type WCase struct {
	Kind  string `json:"kind"`            // "line" | "cut" | "scale" | "raw" (Text is the Go-quoted input)
	State string `json:"state"`           // "pre" | "auth" | "sel"
	Stem  string `json:"stem,omitempty"`  // line
	Toks  []int  `json:"toks,omitempty"`  // line: the tokens (block form: the first tokens)
	More  int    `json:"more,omitempty"`  // line, block form: every string of exactly More further tokens is appended
	Cmd   int    `json:"cmd,omitempty"`   // cut: index into CutCommands
	At    int    `json:"at,omitempty"`    // cut: number of bytes sent before the disconnect
	End   string `json:"end,omitempty"`   // cut: "abort" | "half"
	Shape string `json:"shape,omitempty"` // scale
	N     int    `json:"n,omitempty"`     // scale
	Text  string `json:"text,omitempty"`  // informational: the bytes sent (shortened)
}

// CutCommands are the representative valid commands of the cut axis ("state|bytes"; a literal is sent in one piece with
// its command, the server's continuation request is not awaited).
var CutCommands = []string{
	"pre|c1 CAPABILITY\r\n",
	"pre|c1 LOGIN user pass\r\n",
	"pre|c1 LOGIN \"user\" \"pa\\\\ss\"\r\n",
	"pre|c1 LOGIN {4}\r\nuser {4}\r\npass\r\n",
	"pre|c1 ID (\"name\" \"x\" \"version\" NIL)\r\n",
	"auth|c1 SELECT INBOX\r\n",
	"auth|c1 EXAMINE \"INBOX\"\r\n",
	"auth|c1 CREATE {3}\r\nnew\r\n",
	"auth|c1 RENAME a \"b c\"\r\n",
	"auth|c1 LIST \"\" \"*\"\r\n",
	"auth|c1 LSUB \"\" %\r\n",
	"auth|c1 STATUS INBOX (MESSAGES UIDNEXT UNSEEN)\r\n",
	"auth|c1 APPEND INBOX (\\Seen) \"01-Jan-2020 00:00:00 +0000\" {27}\r\nSubject: x\r\n\r\nhello world\r\n\r\n",
	"auth|c1 APPEND a {16}\r\nTo: a@b\r\n\r\nbody\r\n\r\n",
	"auth|c1 IDLE\r\nDONE\r\n",
	"sel|c1 FETCH 1:* (FLAGS UID RFC822.SIZE)\r\n",
	"sel|c1 FETCH 1 (BODY.PEEK[HEADER.FIELDS (Subject To)] BODY[1]<0.10>)\r\n",
	"sel|c1 UID FETCH 1:* BODY[]\r\n",
	"sel|c1 STORE 1 +FLAGS.SILENT (\\Seen \\Flagged custom)\r\n",
	"sel|c1 UID STORE 1:2 -FLAGS (\\Seen)\r\n",
	"sel|c1 SEARCH CHARSET UTF-8 OR (FROM \"a\" NOT SEEN) HEADER Subject {1}\r\nx BEFORE 1-Jan-2030\r\n",
	"sel|c1 UID SEARCH 1:* LARGER 1 KEYWORD custom\r\n",
	"sel|c1 COPY 1 a\r\n",
	"sel|c1 UID MOVE 1 \"a\"\r\n",
	"sel|c1 UID EXPUNGE 1:3\r\n",
	"sel|c1 EXPUNGE\r\n",
	"sel|c1 CLOSE\r\n",
	"sel|c1 LOGOUT\r\n",
}

// Seeds are inputs outside the quick tier's bounds that the thorough tier found to matter.
var Seeds = []string{
	Tag + " LIST \xff a\r\n",
	Tag + " LSUB \xff a\r\n",
	Tag + " LIST \"\" \xff\r\n",
	Tag + " LIST a \xff*\r\n",
	Tag + " SEARCH ((((((((((((((((((((((((((((((((((((((((((((((((((((((((((((((((((((((((((((((((((((((((((((((((((((ALL))))))))))))))))))))))))))))))))))))))))))))))))))))))))))))))))))))))))))))))))))))))))))))))))))))))\r\n",
}

var gluonFrame = regexp.MustCompile(`github\.com/ProtonMail/gluon/([A-Za-z0-9_/]+)\.((?:\(\*?[A-Za-z0-9_]+\)\.)?[A-Za-z0-9_]+)`)

// NormCrash turns the first panic line of a dead worker into a witness class: the panic text without its arguments
// plus the first gluon function on the stack.
func NormCrash(first, stderr string) string {
	if i := strings.IndexAny(first, "([{\"0123456789"); i > 0 {
		first = strings.TrimSpace(first[:i])
	}
	if i := strings.Index(stderr, "goroutine "); i >= 0 {
		if m := gluonFrame.FindStringSubmatch(stderr[i:]); m != nil {
			return first + " @" + m[1] + "." + m[2]
		}
	}
	return first
}

// CutCommand splits an entry of CutCommands.
func CutCommand(i int) (state string, b []byte) {
	s := CutCommands[i]
	k := strings.Index(s, "|")
	return s[:k], []byte(s[k+1:])
}

// ScaleShapes lists the shapes of the scale axis.
var ScaleShapes = []string{
	"search-nest-closed", "search-nest-open", "search-nest-open-lines", "search-not", "search-or", "list-nest", "fetch-attrs", "status-attrs", "store-flags",
	"append-flags", "id-pairs", "seqset-commas", "seqset-digits", "fetch-section-digits", "partial-digits", "literal-digits", "tag-long", "atom-long", "quoted-long",
	"quoted-escapes", "noop-garbage", "spaces", "errors", "errors-then-noop", "bare-lf-lines", "open-line", "literal-big", "nul-line", "xff-line",
}

// ScaleInput builds the bytes of a scale case.
func ScaleInput(shape string, n int) []byte {
	rep := func(s string, k int) string { return strings.Repeat(s, k) }
	t := Tag + " "
	switch shape {
	case "search-nest-closed":
		return []byte(t + "SEARCH " + rep("(", n) + "ALL" + rep(")", n) + "\r\n")
	case "search-nest-open":
		return []byte(t + "SEARCH " + rep("(", n) + "\r\n")
	case "search-nest-open-lines":
		// n levels of unclosed nesting spread over separate erroneous lines of 60 levels each (state that a failed
		// command leaves behind accumulates over the session)
		return []byte(rep(t+"SEARCH "+rep("(", 60)+"\r\n", (n+59)/60))
	case "search-not":
		return []byte(t + "SEARCH " + rep("NOT ", n) + "ALL\r\n")
	case "search-or":
		return []byte(t + "SEARCH " + rep("OR ALL ", n) + "ALL\r\n")
	case "list-nest":
		return []byte(t + "LIST " + rep("(", n) + "\r\n")
	case "fetch-attrs":
		return []byte(t + "FETCH 1 (" + strings.TrimSpace(rep("FLAGS ", n)) + ")\r\n")
	case "status-attrs":
		return []byte(t + "STATUS INBOX (" + strings.TrimSpace(rep("MESSAGES ", n)) + ")\r\n")
	case "store-flags":
		return []byte(t + "STORE 1 +FLAGS.SILENT (" + strings.TrimSpace(rep("f ", n)) + ")\r\n")
	case "append-flags":
		return []byte(t + "APPEND a (" + strings.TrimSpace(rep("f ", n)) + ") {1}\r\nx\r\n")
	case "id-pairs":
		return []byte(t + "ID (" + strings.TrimSpace(rep("\"a\" \"b\" ", n)) + ")\r\n")
	case "seqset-commas":
		return []byte(t + "FETCH " + rep("1,", n) + "1 FLAGS\r\n")
	case "seqset-digits":
		return []byte(t + "FETCH " + rep("1", n) + " FLAGS\r\n")
	case "fetch-section-digits":
		return []byte(t + "FETCH 1 BODY[" + rep("1", n) + "]\r\n")
	case "partial-digits":
		return []byte(t + "FETCH 1 BODY[]<" + rep("9", n) + "." + rep("9", n) + ">\r\n")
	case "literal-digits":
		return []byte(t + "LOGIN {" + rep("9", n) + "}\r\n")
	case "tag-long":
		return []byte(rep("a", n) + " NOOP\r\n")
	case "atom-long":
		return []byte(t + "LOGIN " + rep("a", n) + " b\r\n")
	case "quoted-long":
		return []byte(t + "LOGIN \"" + rep("a", n) + "\" b\r\n")
	case "quoted-escapes":
		return []byte(t + "LOGIN \"" + rep("\\\"", n) + "\" b\r\n")
	case "noop-garbage":
		return []byte(t + "NOOP " + rep("a", n) + "\r\n")
	case "spaces":
		return []byte(t + rep(" ", n) + "\r\n")
	case "errors":
		return []byte(rep(t+"XYZZY\r\n", n))
	case "errors-then-noop":
		return []byte(rep(t+"XYZZY\r\n", n) + t + "NOOP\r\n" + rep(t+"XYZZY\r\n", n))
	case "bare-lf-lines":
		return []byte(rep(t+"NOOP\n", n) + "\r\n")
	case "open-line":
		return []byte(t + "LOGIN " + rep("a", n))
	case "literal-big":
		return []byte(t + "LOGIN {" + strconv.Itoa(n) + "}\r\n" + rep("u", n) + " p\r\n")
	case "nul-line":
		return []byte(t + "LOGIN " + rep("\x00", n) + " b\r\n")
	case "xff-line":
		return []byte(t + "LOGIN " + rep("\xff", n) + " b\r\n")
	}
	return nil
}

// ---------------------------------------------------------------------------------------------------------------

type wfix struct {
	fix    *wire.Fix
	lis    *plistener
	stop   context.CancelFunc
	base   int // goroutine baseline with no case connection open
	notes  []string
	ncases int
	leaky  bool
}

func newWfix() (*wfix, error) {
	fix, err := wire.NewFix()
	if err != nil {
		return nil, err
	}
	for i := 0; i < 3; i++ {
		if err := fix.Message("INBOX", fmt.Sprintf("c11-%d", i)); err != nil {
			fix.Close()
			return nil, err
		}
	}
	if err := fix.Mailbox("a"); err != nil {
		fix.Close()
		return nil, err
	}
	f := &wfix{fix: fix, lis: newPlistener()}
	ctx, cancel := context.WithCancel(context.Background())
	f.stop = cancel
	if err := fix.W.Srv.Serve(ctx, f.lis); err != nil {
		fix.Close()
		return nil, err
	}
	// warm up: one full connection so that lazily started goroutines exist before the baseline is taken
	if c, err := f.lis.Dial(); err == nil {
		c.WaitQuiet()
		c.Send([]byte("w1 LOGIN user pass\r\nw2 SELECT INBOX\r\nw3 NOOP\r\nw4 LOGOUT\r\n"))
		c.WaitClosed()
		c.Abort()
	}
	if r := fix.S.C.Cmd("NOOP"); !r.OK() {
		fix.Close()
		return nil, fmt.Errorf("control session: %v", r.Lines())
	}
	f.base = settle()
	return f, nil
}

// settle returns the smallest goroutine count seen while it stays unchanged for a few polls.
func settle() int {
	best := runtime.NumGoroutine()
	same := 0
	for i := 0; i < 2000 && same < 20; i++ {
		time.Sleep(100 * time.Microsecond)
		n := runtime.NumGoroutine()
		if n < best {
			best = n
			same = 0
		} else {
			same++
		}
	}
	return best
}

func (f *wfix) close() {
	_ = f.lis.Close()
	f.stop()
	f.fix.Close()
}

// ---- transcript parsing ----

type reply struct {
	tag    string // "*" for untagged
	status string // OK NO BAD BYE or "" (data / continuation)
	cont   bool
	text   string
}

var trailLit = regexp.MustCompile(`\{(\d+)\}$`)

// splitReplies cuts server output into logical lines (literal aware). A trailing partial line is returned as rest.
func splitReplies(b []byte) (out []reply, rest []byte) {
	for len(b) > 0 {
		var text []byte
		cur := b
		complete := false
		for {
			i := bytes.Index(cur, []byte("\r\n"))
			if i < 0 {
				break
			}
			line := cur[:i]
			text = append(text, line...)
			cur = cur[i+2:]
			if m := trailLit.FindSubmatch(line); m != nil && !bytes.HasPrefix(text, []byte("+")) {
				n, _ := strconv.Atoi(string(m[1]))
				if n > len(cur) {
					break
				}
				text = append(text, '~')
				cur = cur[n:]
				continue
			}
			complete = true
			break
		}
		if !complete {
			return out, b
		}
		b = cur
		r := reply{text: string(text)}
		switch {
		case strings.HasPrefix(r.text, "+"):
			r.cont = true
		default:
			if i := strings.IndexByte(r.text, ' '); i >= 0 {
				r.tag = r.text[:i]
				f := r.text[i+1:]
				if j := strings.IndexByte(f, ' '); j >= 0 {
					f = f[:j]
				}
				switch f {
				case "OK", "NO", "BAD", "BYE":
					r.status = f
				default:
					if r.tag != "*" {
						r.tag = ""
					}
				}
			}
		}
		if len(r.text) > 200 {
			r.text = r.text[:120] + "..." + r.text[len(r.text)-60:]
		}
		out = append(out, r)
	}
	return out, nil
}

// completion reports whether the reply ends a command: a tagged OK/NO/BAD (the tag may be empty when the server lost
// it) or an untagged BAD.
func (r reply) completion() bool {
	if r.cont || r.status == "" || r.status == "BYE" {
		return false
	}
	if r.tag == "*" {
		return r.status == "BAD"
	}
	return true
}

// ---- one connection ----

type wsess struct {
	f         *wfix
	c         *pconn
	pending   []byte // partial server line
	seen      int    // server output bytes taken so far
	curMarker string
	notes     []string
	all       []reply
	viol      map[string]string
	errors    int // consecutive error replies on this connection
	lines     int // complete lines answered so far
	seq       int
	first     bool
	classes   []string
	input     []byte
	alive     bool // the last complete line was answered and the connection is open
}

func (s *wsess) add(clause, sig, msg string) {
	k := clause + "/" + sig
	if _, ok := s.viol[k]; !ok {
		s.viol[k] = msg
	}
}

// take collects what the server has written so far.
func (s *wsess) take() []reply {
	data, total := s.c.Take()
	s.seen = total
	b := append(s.pending, data...)
	rs, rest := splitReplies(b)
	s.pending = append([]byte(nil), rest...)
	// replies to the harness's own marker commands of earlier rounds (the second marker's reply may arrive late)
	keep := rs[:0]
	for _, r := range rs {
		if markerRe.MatchString(r.tag) && r.tag != s.curMarker {
			continue
		}
		keep = append(keep, r)
	}
	s.all = append(s.all, keep...)
	return keep
}

var markerRe = regexp.MustCompile(`^(z[ab]|s)[0-9]+$`)

// sync makes sure every reply to what was sent before is on the wire: two NOOPs are sent one after the other; when the
// server waits for input after the second one, the session goroutine has taken it from the command reader, which it
// only does after it has finished with the first. It returns the replies up to (excluding) the first marker's reply,
// and whether that marker was answered.
func (s *wsess) sync() (before []reply, answered bool, open bool) {
	s.seq++
	za, zb := fmt.Sprintf("za%d", s.seq), fmt.Sprintf("zb%d", s.seq)
	var got []reply
	s.curMarker = za
	s.c.Send([]byte(za + " NOOP\r\n"))
	open = s.c.WaitQuiet()
	got = append(got, s.take()...)
	if open {
		s.c.Send([]byte(zb + " NOOP\r\n"))
		open = s.c.WaitQuiet()
		got = append(got, s.take()...)
	}
	for i, r := range got {
		if r.tag == za {
			return got[:i], r.status == "OK", open
		}
	}
	return got, false, open
}

func shortReply(rs []reply) string {
	var s []string
	for _, r := range rs {
		t := r.text
		if len(t) > 70 {
			t = t[:70] + "..."
		}
		s = append(s, t)
	}
	return strconv.Quote(strings.Join(s, " | "))
}

// closeLegit decides whether the server may close the connection now.
func (s *wsess) closeLegit(logical []byte, complete bool, replies []reply) (bool, string) {
	if !complete {
		return true, "incomplete"
	}
	if s.errors >= 20 {
		return true, "20-errors"
	}
	if keyword(logical) == "LOGOUT" {
		for _, r := range replies {
			if r.completion() && r.status == "OK" {
				return true, "logout"
			}
		}
	}
	if n := litSpec(logical); n >= LiteralCap {
		return true, "cap-close"
	}
	if len(logical) > LongLine {
		for _, r := range replies {
			if r.status == "BYE" {
				return true, "long-line-bye"
			}
		}
	}
	return false, ""
}

// judge evaluates the replies to one logical line.
func (s *wsess) judge(logical []byte, complete bool, replies []reply, markerAnswered, open bool) {
	tag := lineTag(logical)
	kw := keyword(logical)
	var comp []reply
	for _, r := range replies {
		if r.completion() {
			comp = append(comp, r)
		}
	}
	cls := "none"
	if len(comp) > 0 {
		cls = comp[0].status
	}
	if !open {
		cls += "!close"
	}
	s.classes = append(s.classes, cls)
	for _, r := range comp {
		if r.status == "OK" {
			s.errors = 0
		} else if r.status == "BAD" {
			s.errors++
		}
	}
	empty := len(bytes.TrimSpace(logical)) == 0
	if !open {
		if ok, why := s.closeLegit(logical, complete, replies); ok {
			s.classes[len(s.classes)-1] = cls + ":" + why
			return
		}
		sig := "closed:" + kw
		switch {
		case s.c.Spun():
			return // reported as SPIN by the caller
		case s.first && tag == "":
			sig = "first-token-error-taken-for-eof"
		case kw == "STARTTLS":
			sig = "starttls-unavailable"
		case litSpec(logical) == 0:
			sig = "literal-zero"
		}
		if len(comp) == 0 {
			s.add("DROP", sig, fmt.Sprintf("the complete line %s is not answered, the server closes the connection (server sent %s)", Show(logical), shortReply(replies)))
		} else {
			s.add("DROP", "after-reply:"+kw, fmt.Sprintf("after answering %s with %s the server closes the connection", Show(logical), shortReply(replies)))
		}
		return
	}
	if !complete {
		return
	}
	defer func() { s.errors = 0 }() // the marker NOOP that follows the line ends a run of consecutive errors
	if !markerAnswered {
		_, sig := s.c.Sites()
		s.add("OVERRUN", sig, fmt.Sprintf("the complete line %s is not answered: the server (its reader is in %s) waits for more input and swallows the following NOOP (server sent %s)", Show(logical), sig, shortReply(replies)))
		return
	}
	lfs := bytes.Count(logical, []byte("\n")) - 1
	switch {
	case len(comp) == 0:
		if !empty {
			s.add("NOREPLY", kw, fmt.Sprintf("the complete line %s gets no completion result (server sent %s)", Show(logical), shortReply(replies)))
		}
	case len(comp) > 1+lfs:
		s.add("MULTI", "replies-per-line", fmt.Sprintf("the line %s gets %d completion results: %s", Show(logical), len(comp), shortReply(comp)))
	}
	if tag != "" && len(comp) > 0 && comp[0].tag != tag {
		sig := "lost:" + kw
		if strings.Contains(comp[0].text, "expected CR") || strings.Contains(comp[0].text, "expected LF after CR") {
			sig = "lost-at-line-end"
		}
		s.add("TAG", sig, fmt.Sprintf("line %s is answered with %s", Show(logical), shortReply(comp[:1])))
	}
}

// isIdle reports whether the unit is a well-formed IDLE command (its continuation request comes from the session
// goroutine, not from the command reader).
var idleRe = regexp.MustCompile(`(?i)^[^ ]+ IDLE\r\n$`)

// feed sends the input unit by unit and judges every logical line.
func (s *wsess) feed(input []byte) {
	rest := input
	var logical []byte
	var carried []reply // replies seen while the logical line was still being continued
	lit := int64(0)
	for len(rest) > 0 {
		unit, complete := nextUnit(rest, lit)
		rest = rest[len(unit):]
		idle := len(logical) == 0 && idleRe.Match(unit)
		logical = append(logical, unit...)
		s.c.Send(unit)
		open := s.c.WaitQuiet()
		rs := append(carried, s.take()...)
		carried = nil
		hasAnswer := func() bool {
			for _, r := range rs {
				if r.cont || r.completion() {
					return true
				}
			}
			return false
		}
		for idle && open && !hasAnswer() {
			// IDLE is answered by the session goroutine: wait for its continuation request or refusal
			open = s.c.WaitMore(s.seen)
			rs = append(rs, s.take()...)
		}
		if !open {
			s.judge(logical, complete, rs, false, false)
			return
		}
		gotCont := false
		for _, r := range rs {
			if r.cont {
				gotCont = true
			}
		}
		if gotCont && complete {
			if n := litSpec(unit); n >= 0 {
				lit = n
				carried = dropCont(rs)
				continue // literal data follows
			}
			// a continuation request that is not for a literal (IDLE): the next line of the input ends it; when the input
			// has no further line, DONE is sent
			if len(rest) > 0 {
				carried = dropCont(rs)
				continue
			}
			s.c.Send([]byte("DONE\r\n"))
			if !s.c.WaitQuiet() {
				s.judge(logical, complete, append(rs, s.take()...), false, false)
				return
			}
			rs = append(rs, s.take()...)
		}
		lit = 0
		if !complete {
			// the stream ends inside a line: nothing to judge before the end of the stream
			s.classes = append(s.classes, "open")
			return
		}
		before, answered, open := s.sync()
		s.judge(logical, complete, append(rs, before...), answered, open)
		s.first = false
		logical = nil
		if !open || !answered {
			return
		}
		s.alive = true
	}
}

// probeSuite decides "the session stays usable for following well-formed commands" beyond the marker NOOP: on a
// session that is still open after the input, a known state is re-established (LOGIN may be refused if the session is
// already authenticated; SELECT must succeed) and one well-formed command per parser path — nested search keys,
// parenthesised fetch attributes with a section and a header list, quoted strings, a synchronising literal, list
// patterns, status attributes — must be answered OK: state that the input left behind in the parser or the session
// (nesting counters, literal mode, a pending continuation) shows up here.
func (s *wsess) probeSuite(state string) {
	type probe struct {
		line string
		lit  string // literal data sent after the continuation request
		must bool
	}
	probes := []probe{
		{line: "LOGIN user pass"},
		{line: "SELECT INBOX", must: true},
		{line: "SEARCH OR (SEEN) (NOT (OR DELETED (FLAGGED)))", must: true},
		{line: "UID FETCH 1:* (FLAGS BODY.PEEK[HEADER.FIELDS (TO SUBJECT)])", must: true},
		{line: `UID SEARCH HEADER TO "x y" NOT SUBJECT "q"`, must: true},
		{line: "SEARCH SUBJECT {3}", lit: "abc", must: true},
		{line: `LIST "" "*"`, must: true},
		{line: "STATUS INBOX (MESSAGES UIDNEXT UNSEEN)", must: true},
	}
	for i, p := range probes {
		tag := fmt.Sprintf("pr%d", 100+i)
		s.c.Send([]byte(tag + " " + p.line + "\r\n"))
		open := s.c.WaitQuiet()
		rs := s.take()
		if p.lit != "" && open {
			cont := false
			for _, r := range rs {
				if r.cont {
					cont = true
				}
			}
			if cont {
				s.c.Send([]byte(p.lit + "\r\n"))
				open = s.c.WaitQuiet()
				rs = append(rs, s.take()...)
			}
		}
		if open {
			// the command is executed by the session goroutine: the marker pair makes its reply observable without timing
			var before []reply
			before, _, open = s.sync()
			rs = append(rs, before...)
		}
		status := "none"
		for _, r := range rs {
			if r.tag == tag {
				status = r.status
			}
		}
		if !p.must {
			if !open {
				s.add("UNUSABLE", "probe:"+strings.Fields(p.line)[0]+":closed", fmt.Sprintf("after the input %s (state %s) the well-formed command %q closes the connection (server sent %s)", Show(s.input), state, p.line, shortReply(rs)))
				return
			}
			continue
		}
		if status != "OK" {
			kw := strings.Fields(p.line)
			k := kw[0]
			if k == "UID" {
				k += " " + kw[1]
			}
			s.add("UNUSABLE", "probe:"+k+":"+status, fmt.Sprintf("after the input %s (state %s) the session is open and answers NOOP, but the well-formed command %q is answered %s (server sent %s)", Show(s.input), state, p.line, status, shortReply(rs)))
			return
		}
	}
	s.classes = append(s.classes, "probed")
}

// dropCont removes continuation requests that have been acted upon.
func dropCont(rs []reply) []reply {
	var out []reply
	for _, r := range rs {
		if !r.cont {
			out = append(out, r)
		}
	}
	return out
}

// bulk sends the whole input at once, closes the writing side and judges the transcript as a whole: every line is
// "<Tag> ...CRLF"; each must get one completion result with the tag, unless the server closed the connection after at
// least 20 consecutive BAD replies.
func (s *wsess) bulk(input []byte) {
	s.c.Send(input)
	s.c.CloseWrite()
	s.c.WaitClosed()
	rs := s.take()
	lines := bytes.Count(input, []byte("\r\n"))
	n, run, maxRun := 0, 0, 0
	for _, r := range rs {
		if !r.completion() {
			continue
		}
		n++
		if r.tag != Tag {
			s.add("TAG", "lost:bulk", fmt.Sprintf("completion result %q in a stream of lines tagged %s", r.text, Tag))
		}
		if r.status == "BAD" {
			run++
		} else {
			run = 0
		}
		if run > maxRun {
			maxRun = run
		}
	}
	s.classes = append(s.classes, fmt.Sprintf("bulk:%d/%d", n, lines))
	switch {
	case n > lines:
		s.add("MULTI", "bulk", fmt.Sprintf("%d lines got %d completion results", lines, n))
	case n < lines && run < 20:
		s.add("DROP", "closed-before-20-errors", fmt.Sprintf("%d lines got %d completion results, the last %d of them consecutive errors: the server stopped answering before 20 consecutive errors; tail of the transcript %s", lines, n, run, shortReply(tail(rs, 3))))
	}
}

func tail(rs []reply, k int) []reply {
	if len(rs) > k {
		return rs[len(rs)-k:]
	}
	return rs
}

var watchdog struct {
	mu   sync.Mutex
	t    *time.Timer
	what string
}

// CaseDeadline is the watchdog of one case (normal cases take milliseconds); ScaleDeadline that of a scale case (the
// largest take about a minute on an idle machine because the server formats nested search keys in quadratic time).
const (
	CaseDeadline  = 4 * time.Minute
	ScaleDeadline = 30 * time.Minute
)

func armWatchdog(what string, d time.Duration) {
	watchdog.mu.Lock()
	defer watchdog.mu.Unlock()
	if watchdog.t != nil {
		watchdog.t.Stop()
	}
	watchdog.what = what
	watchdog.t = time.AfterFunc(d, func() {
		watchdog.mu.Lock()
		w := watchdog.what
		watchdog.mu.Unlock()
		fmt.Fprintf(os.Stderr, "panic: watchdog: c11w case did not finish within %v: %s\n", d, w)
		os.Exit(3)
	})
}

func disarmWatchdog() {
	watchdog.mu.Lock()
	defer watchdog.mu.Unlock()
	if watchdog.t != nil {
		watchdog.t.Stop()
		watchdog.t = nil
	}
}

// CaseInput returns the state and the bytes of a case.
func CaseInput(c WCase) (state string, input []byte, err error) {
	switch c.Kind {
	case "line":
		return c.State, append(Build(c.Stem, c.Toks), '\r', '\n'), nil
	case "cut":
		st, b := CutCommand(c.Cmd)
		if c.At > len(b) {
			return "", nil, fmt.Errorf("cut position %d beyond %d", c.At, len(b))
		}
		return st, b[:c.At], nil
	case "scale":
		b := ScaleInput(c.Shape, c.N)
		if b == nil {
			return "", nil, fmt.Errorf("unknown shape %q", c.Shape)
		}
		return c.State, b, nil
	case "raw":
		t, err := strconv.Unquote(c.Text)
		if err != nil {
			return "", nil, fmt.Errorf("raw input %s: %w", c.Text, err)
		}
		return c.State, []byte(t), nil
	}
	return "", nil, fmt.Errorf("unknown kind %q", c.Kind)
}

// runCase runs one case on a fresh connection and returns the violations and the outcome class.
func (f *wfix) runCase(c WCase) (map[string]string, string, error) {
	state, input, err := CaseInput(c)
	if err != nil {
		return nil, "", err
	}
	wd := CaseDeadline
	if c.Kind == "scale" {
		wd = ScaleDeadline
	}
	armWatchdog(fmt.Sprintf("%s %s %s", c.Kind, state, Show(input)), wd)
	defer disarmWatchdog()
	var ms runtime.MemStats
	runtime.ReadMemStats(&ms)
	alloc0, sys0 := ms.TotalAlloc, ms.Sys
	pc, err := f.lis.Dial()
	if err != nil {
		return nil, "", err
	}
	s := &wsess{f: f, c: pc, viol: map[string]string{}, first: true, input: input}
	if !pc.WaitQuiet() {
		return nil, "", fmt.Errorf("connection closed before the greeting")
	}
	if g := s.take(); len(g) != 1 || !strings.HasPrefix(g[0].text, "* OK") {
		return nil, "", fmt.Errorf("unexpected greeting %s", shortReply(g))
	}
	setup := ""
	switch state {
	case "auth":
		setup = "s1 LOGIN user pass\r\n"
	case "sel":
		setup = "s1 LOGIN user pass\r\ns2 SELECT INBOX\r\n"
	}
	if setup != "" {
		pc.Send([]byte(setup))
		_, answered, open := s.sync()
		if !answered || !open {
			return nil, "", fmt.Errorf("setup %q failed: %s", setup, shortReply(s.all))
		}
		s.first = false
		s.all = nil
	}
	// the input
	switch c.Kind {
	case "cut":
		pc.Send(input)
		if c.End == "abort" {
			pc.Abort()
		} else {
			pc.WaitQuiet()
			pc.CloseWrite()
		}
		s.classes = append(s.classes, "cut")
	case "scale":
		if c.Shape == "errors" || c.Shape == "errors-then-noop" {
			s.bulk(input)
		} else {
			s.feed(input)
			if s.alive {
				s.probeSuite(state)
			}
		}
		pc.CloseWrite()
	default:
		s.feed(input)
		if s.alive {
			s.probeSuite(state)
		}
		pc.CloseWrite()
	}
	pc.WaitClosed()
	s.take()
	if pc.Spun() {
		site, _ := pc.Sites()
		where := "eof:" + site
		s.add("SPIN", where, fmt.Sprintf("after the client closed the connection the server kept reading at the end of the stream more than %d times (its reader goroutine was stopped by the harness); input %s in state %s", SpinReads, Show(input), state))
		s.classes = append(s.classes, "SPIN")
	}
	pc.Abort()
	// the server's goroutines go away
	wait := 60 * time.Second
	if f.leaky {
		wait = 200 * time.Millisecond // a leak has been reported by this worker already: do not wait a minute per case
	}
	deadline := time.Now().Add(wait)
	n := runtime.NumGoroutine()
	for i := 0; n > f.base && time.Now().Before(deadline); i++ {
		if i < 2000 {
			runtime.Gosched()
		} else {
			time.Sleep(100 * time.Microsecond)
		}
		n = runtime.NumGoroutine()
	}
	if n > f.base {
		s.add("LEAK", "goroutines:"+c.Kind, fmt.Sprintf("%d goroutines 60 s after the connection was closed, baseline %d; input %s in state %s", n, f.base, Show(input), state))
		f.base = n // do not report the same leak for every following case
		f.leaky = true
	} else if n < f.base {
		f.base = n
	}
	// another session is unaffected
	if r := f.fix.S.C.Cmd("NOOP"); !r.OK() {
		s.add("OTHER", "second-session:"+c.Kind, fmt.Sprintf("an independent session's NOOP is answered %q (%v) after input %s", r.Tagged.Text, r.Err, Show(input)))
	}
	runtime.ReadMemStats(&ms)
	if grown, limit := int64(ms.Sys)-int64(sys0), int64(WireBloatBase)+int64(WireBloatFactor)*int64(len(input)); grown > limit {
		s.add("BLOAT", "footprint:"+c.Kind+":"+c.Shape, fmt.Sprintf("%d input bytes made the memory obtained from the OS grow by %d bytes (limit %d); input %s", len(input), grown, limit, Show(input)))
	}
	if used := ms.TotalAlloc - alloc0; used > uint64(WireWorkBase)+uint64(WireWorkFactor)*uint64(len(input)) {
		// not a violation of the statement (the work is finite and the memory is released), recorded as an observation
		s.notes = append(s.notes, fmt.Sprintf("superlinear-alloc:%s:%s", c.Kind, c.Shape))
	}
	f.ncases++
	f.notes = append(f.notes, s.notes...)
	return s.viol, strings.Join(s.classes, ">"), nil
}

const (
	LongLine        = 64 << 10 // a server may refuse a line longer than this with BYE and close
	WireBloatBase   = 2 << 30  // allowed growth of runtime.MemStats.Sys per input: WireBloatBase + WireBloatFactor*len
	WireBloatFactor = 1024
	WireWorkBase    = 64 << 20 // cumulative allocation above WireWorkBase + WireWorkFactor*len is counted as an observation
	WireWorkFactor  = 4096
)

func wireCall(raw json.RawMessage) (any, error) {
	chunk, err := enumt.ParseChunk(raw)
	if err != nil {
		return nil, err
	}
	res := &enumt.Result{Counters: map[string]int{}}
	outcomes := map[string]bool{}
	seen := map[string]bool{}
	f, err := newWfix()
	if err != nil {
		return nil, err
	}
	defer f.close()
	var runErr error
	one := func(c WCase) {
		if runErr != nil {
			return
		}
		viol, outcome, err := f.runCase(c)
		if err != nil {
			cj, _ := json.Marshal(c)
			runErr = fmt.Errorf("case %s: %w", cj, err)
			return
		}
		res.Evaluations++
		if o := strings.Trim(outcome, "OK>"); o != "" {
			okey := c.Kind + "|" + c.State + "|" + c.Stem + c.Shape + "|" + outcome
			if c.Kind == "cut" {
				okey = fmt.Sprintf("cut|%d|%s", c.Cmd, c.End)
			}
			outcomes[okey] = true
		}
		res.Counters["out:"+firstClass(outcome)]++
		for k, msg := range viol {
			res.Counters["viol:"+k]++
			if seen[k] {
				continue
			}
			seen[k] = true
			i := strings.Index(k, "/")
			_, in, _ := CaseInput(c)
			c.Text = Show(in)
			c.Toks = append([]int{}, c.Toks...)
			res.Viol = append(res.Viol, enumt.Viol{Clause: k[:i], Sig: k[i+1:], Msg: msg + " [state " + c.State + "]", Input: c})
		}
		if len(viol) == 0 {
			res.Counters["clean"]++
		}
		if len(res.Samples) < 1 && res.Evaluations%53 == 7 {
			_, in, _ := CaseInput(c)
			res.Samples = append(res.Samples, map[string]any{"input": Show(in), "state": c.State, "outcome": outcome})
		}
	}
	for _, rc := range chunk.Cases {
		var c WCase
		if err := json.Unmarshal(rc, &c); err != nil {
			return nil, err
		}
		if c.Kind == "line" && c.More > 0 {
			ForEach(c.Toks, c.More, AllTokens(), func(toks []int) {
				if c.State != "pre" && !anyCommandParses(append(Build(c.Stem, toks), '\r', '\n')) {
					// no line of the input parses: the server's behaviour does not depend on the session state
					res.Counters["skipped-state-independent"]++
					return
				}
				one(WCase{Kind: "line", State: c.State, Stem: c.Stem, Toks: toks})
			})
		} else {
			one(c)
		}
		if runErr != nil {
			return nil, runErr
		}
	}
	for k := range outcomes {
		res.Outcomes = append(res.Outcomes, k)
	}
	for _, n := range f.notes {
		res.Counters["note:"+n]++
	}
	return res, nil
}

func firstClass(o string) string {
	if i := strings.Index(o, ">"); i >= 0 {
		return o[:i]
	}
	return o
}
