package db08

// run.go: the batch function that runs C08 cases inside a worker process against the real SQLite index.

import (
	"context"
	"encoding/json"
	"errors"
	"fmt"
	"io"
	"os"
	"path/filepath"
	"sort"
	"strings"
	"time"

	"github.com/ProtonMail/gluon"
	"github.com/ProtonMail/gluon/db"
	"github.com/ProtonMail/gluon/imap"

	"verif/engine/enumt"
	"verif/engine/explore"
)

func init() { explore.RegisterCall("c08", Call) }

const userID = "u"

type seedT struct {
	dir   string
	model *Model
	h     Handles
	ok    bool
}

type runner struct {
	ctx      context.Context
	ci       db.ClientInterface
	root     string
	seeds    map[string]*seedT
	alphabet []Op
	res      *enumt.Result
	outcomes map[string]bool
	sigSeen  map[string]bool
	broken   map[string]bool // read methods that already disagree on a seed state (reported once, then masked)
	input    any             // the case being run (for violation reports)
	capture  bool            // violations are captured instead of recorded (multi-operation transactions)
	captured *enumt.Viol
	each     bool // read back inside the transaction after EVERY operation
	seeding  bool // seed states are being built
}

func baseDir() string {
	if st, err := os.Stat("/dev/shm"); err == nil && st.IsDir() {
		return "/dev/shm"
	}
	return os.TempDir()
}

// Call is the registered batch function.
func Call(raw json.RawMessage) (any, error) {
	chunk, err := enumt.ParseChunk(raw)
	if err != nil {
		return nil, err
	}
	if err := checkInterface(); err != nil {
		return nil, err
	}
	done := make(chan struct{})
	defer close(done)
	go func() {
		select {
		case <-done:
		case <-time.After(20 * time.Minute):
			fmt.Fprintln(os.Stderr, "panic: watchdog: C08 chunk did not finish within 20 minutes")
			os.Exit(3)
		}
	}()
	r := &runner{ctx: context.Background(), ci: gluon.VerifSQLiteClientInterface(), seeds: map[string]*seedT{}, alphabet: Alphabet(),
		res: &enumt.Result{Counters: map[string]int{}}, outcomes: map[string]bool{}, sigSeen: map[string]bool{}, broken: map[string]bool{}}
	r.root = filepath.Join(baseDir(), fmt.Sprintf("verif-c08-%d", os.Getpid()))
	_ = os.RemoveAll(r.root)
	defer os.RemoveAll(r.root)
	if err := os.MkdirAll(r.root, 0o700); err != nil {
		return nil, err
	}
	var cases []Case
	needBig := false
	for _, rc := range chunk.Cases {
		var c Case
		if err := json.Unmarshal(rc, &c); err != nil {
			return nil, err
		}
		cases = append(cases, c)
		needBig = needBig || c.Seed == "big"
	}
	// all small seeds are always built first, in a fixed order: which read methods are masked as broken must not
	// depend on the composition of the chunk
	for _, name := range SmallSeeds {
		if err := r.buildSeed(name); err != nil {
			return nil, err
		}
	}
	if needBig {
		if err := r.buildSeed("big"); err != nil {
			return nil, err
		}
	}
	for _, c := range cases {
		if err := r.runCase(c); err != nil {
			return nil, err
		}
	}
	for k := range r.outcomes {
		r.res.Outcomes = append(r.res.Outcomes, k)
	}
	sort.Strings(r.res.Outcomes)
	return r.res, nil
}

func (r *runner) violate(clause, sig, msg string) {
	if r.capture {
		if r.captured == nil {
			r.captured = &enumt.Viol{Clause: clause, Sig: sig, Msg: msg, Input: r.input}
		}
		return
	}
	r.res.Counters["violating_evaluations"]++
	key := clause + "/" + sig
	if r.sigSeen[key] {
		return
	}
	r.sigSeen[key] = true
	r.res.Viol = append(r.res.Viol, enumt.Viol{Clause: clause, Sig: sig, Msg: msg, Input: r.input})
}

func (r *runner) open(dir string) (db.Client, error) {
	cl, _, err := r.ci.New(dir, userID)
	if err != nil {
		return nil, err
	}
	if err := cl.Init(r.ctx, imap.NewIncrementalUIDValidityGenerator()); err != nil {
		_ = cl.Close()
		return nil, err
	}
	return cl, nil
}

func copyDB(srcDir, dstDir string) error {
	_ = os.RemoveAll(dstDir)
	if err := os.MkdirAll(dstDir, 0o700); err != nil {
		return err
	}
	in, err := os.Open(filepath.Join(srcDir, userID+".db"))
	if err != nil {
		return err
	}
	defer in.Close()
	out, err := os.Create(filepath.Join(dstDir, userID+".db"))
	if err != nil {
		return err
	}
	if _, err := io.Copy(out, in); err != nil {
		out.Close()
		return err
	}
	return out.Close()
}

func (r *runner) buildSeed(name string) error {
	s := &seedT{dir: filepath.Join(r.root, "seed-"+name), model: NewModel(), h: Handles{}}
	r.seeds[name] = s
	cl, err := r.open(s.dir)
	if err != nil {
		return fmt.Errorf("seed %s: %w", name, err)
	}
	ops := seedOps(name)
	r.seeding = true
	evals := r.res.Evaluations
	defer func() {
		// seed building is compared operation by operation too, but counted separately (every chunk rebuilds the seeds)
		r.res.Counters["seed-building operation executions (compared, not in evaluations)"] += r.res.Evaluations - evals
		r.res.Evaluations = evals
		r.seeding = false
	}()
	r.input = map[string]any{"seed": name, "seed_ops": ops, "phase": "building the seed state (every seed operation is compared like any other)"}
	// first read-back on the freshly initialised database: every disagreement here is a read method's own
	s.ok = true
	if name == "empty" {
		_, diffs, err := r.readback(cl.Read, s.h, []*Model{s.model}, nil)
		if err != nil {
			return err
		}
		r.reportReadDiffs(diffs, "freshly initialised database")
	}
	for _, op := range ops {
		m, v, _, err := r.runTx(cl, Tx{Ops: []Op{op}}, s.model, s.h)
		if err != nil {
			_ = cl.Close()
			return err
		}
		if v {
			s.ok = false
			break
		}
		if op.M == "CreateMailbox" {
			if b := m.byRemote(op.R); b != nil {
				s.h[op.N] = b.ID // seed mailboxes are named after their symbol
			}
		}
		s.model = m
	}
	if s.ok {
		// reads must not change anything: a second read-back gives the same verdict
		if _, diffs, err := r.readback(cl.Read, s.h, []*Model{s.model}, nil); err != nil {
			return err
		} else if len(diffs) > 0 {
			s.ok = false
			r.violate(diffs[0].q.M, "read:unstable", fmt.Sprintf("second read-back of seed %s differs: %s", name, diffs[0]))
		}
	}
	if err := cl.Close(); err != nil {
		return err
	}
	return nil
}

// ---------------------------------------------------------------------------------------------------------
// read-back

type diff struct {
	q    ROp
	got  Res
	want []Alt
}

func (d diff) String() string {
	var w []string
	for _, a := range d.want {
		w = append(w, a.String())
	}
	return fmt.Sprintf("%s: database says %s, model says %s", describeQuery(d.q), d.got, strings.Join(w, " | "))
}

func describeQuery(q ROp) string {
	var parts []string
	if q.Mb != 0 {
		parts = append(parts, fmt.Sprintf("mb=%d", q.Mb))
	}
	if q.R != "" {
		parts = append(parts, "r="+q.R)
	}
	if q.N != "" {
		parts = append(parts, fmt.Sprintf("n=%q", q.N))
	}
	if n := len(q.Msgs); n > 0 && n <= 6 {
		var l []string
		for _, id := range q.Msgs {
			l = append(l, shortMsg(id))
		}
		parts = append(parts, strings.Join(l, ","))
	} else if n > 6 {
		parts = append(parts, fmt.Sprintf("%d messages", n))
	}
	if n := len(q.Pairs); n > 0 {
		parts = append(parts, fmt.Sprintf("%d pairs", n))
	}
	if n := len(q.Rs); n > 0 {
		parts = append(parts, fmt.Sprintf("%d remote ids", n))
	}
	return q.M + "(" + strings.Join(parts, " ") + ")"
}

var staticNames = []string{"A", "B", "C", "C/sub", "Z"}
var staticRemotes = []string{"ra", "rb", "rc", "rz"}
var staticMsgs = []string{"m1", "m2", "m3", "m4", "m5"}
var staticMsgRemotes = []string{"r1", "r2", "r3", "r4", "r5", "r9"}

func addU(set map[string]bool, list *[]string, s string) {
	if !set[s] {
		set[s] = true
		*list = append(*list, s)
	}
}

// queries builds the full read-back: every read method over the tiny domains plus everything any of the given
// models knows about.
func queries(h Handles, models []*Model) []ROp {
	mbSet := map[uint64]bool{missingMb: true}
	for _, id := range h {
		mbSet[id] = true
	}
	rs, ns, ms, mrs := map[string]bool{}, map[string]bool{}, map[string]bool{}, map[string]bool{}
	var remotes, names, msgs, mremotes []string
	for _, s := range staticRemotes {
		addU(rs, &remotes, s)
	}
	for _, s := range staticNames {
		addU(ns, &names, s)
	}
	for _, s := range staticMsgs {
		addU(ms, &msgs, msgID(s))
	}
	for _, s := range staticMsgRemotes {
		addU(mrs, &mremotes, s)
	}
	big := false
	for _, m := range models {
		if m == nil {
			continue
		}
		for id := range m.Ever {
			mbSet[id] = true
		}
		for _, id := range m.mbIDs() {
			mbSet[id] = true
			addU(rs, &remotes, m.Mb[id].Remote)
			addU(ns, &names, m.Mb[id].Name)
		}
		for _, s := range m.Subs {
			addU(ns, &names, s.Name)
			addU(rs, &remotes, s.Remote)
		}
		if len(m.Msg) > 64 {
			big = true
		}
	}
	sample := msgs
	if big {
		// per-message reads on the big states: a sample around every batching boundary of every pool
		for _, base := range []int{0, 2*L + 1, 4*L + 2} {
			for _, n := range Lengths() {
				sym := fmt.Sprintf("p%d", base+n)
				addU(ms, &msgs, msgID(sym))
				addU(mrs, &mremotes, msgRemoteDefault(sym))
			}
		}
		sample = append([]string(nil), msgs...)
	}
	var extra []string
	for _, m := range models {
		if m == nil {
			continue
		}
		var ids []string
		for id := range m.Msg {
			ids = append(ids, id)
		}
		sort.Strings(ids)
		for _, id := range ids {
			if big {
				if !ms[id] {
					ms[id] = true
					extra = append(extra, id)
				}
				continue
			}
			addU(ms, &msgs, id)
			if g := m.Msg[id]; g.Remote != randomRemote {
				addU(mrs, &mremotes, g.Remote)
			}
		}
	}
	if !big {
		sample = msgs
	}
	all := append(append([]string(nil), msgs...), extra...)
	var mbs []uint64
	for id := range mbSet {
		mbs = append(mbs, id)
	}
	sort.Slice(mbs, func(i, j int) bool { return mbs[i] < mbs[j] })
	var samplePairs [][2]string
	for _, id := range sample {
		samplePairs = append(samplePairs, [2]string{id, "x"})
	}

	var q []ROp
	for _, mb := range mbs {
		for _, m := range []string{"MailboxExistsWithID", "GetMailboxName", "GetMailboxMessageIDPairs", "GetMailboxByID", "GetMailboxRecentCount",
			"GetMailboxMessageCount", "GetMailboxFlags", "GetMailboxPermanentFlags", "GetMailboxAttributes", "GetMailboxUID",
			"GetMailboxMessageCountAndUID", "GetMailboxMessageForNewSnapshot"} {
			q = append(q, ROp{M: m, Mb: mb})
		}
		q = append(q, ROp{M: "MailboxFilterContains", Mb: mb}, ROp{M: "MailboxFilterContains", Mb: mb, Pairs: samplePairs})
	}
	for _, r := range remotes {
		for _, m := range []string{"MailboxExistsWithRemoteID", "GetMailboxIDFromRemoteID", "GetMailboxNameWithRemoteID", "GetMailboxByRemoteID", "GetMailboxMessageCountWithRemoteID"} {
			q = append(q, ROp{M: m, R: r})
		}
	}
	for _, n := range names {
		q = append(q, ROp{M: "MailboxExistsWithName", N: n}, ROp{M: "GetMailboxByName", N: n})
	}
	for _, m := range []string{"GetAllMailboxesWithAttr", "GetAllMailboxesAsRemoteIDs", "GetMailboxCount", "GetAllMailboxesNameAndRemoteID",
		"GetTotalMessageCount", "GetMessageIDsMarkedAsDelete", "GetAllMessagesIDsAsMap", "GetDeletedSubscriptionSet", "GetConnectorSettings"} {
		q = append(q, ROp{M: m})
	}
	q = append(q, ROp{M: "MailboxTranslateRemoteIDs"}, ROp{M: "MailboxTranslateRemoteIDs", Rs: append(append([]string(nil), remotes...), remotes[0])})
	q = append(q, ROp{M: "GetMessagesFlags"}, ROp{M: "GetMessagesFlags", Msgs: all})
	for _, id := range sample {
		for _, m := range []string{"MessageExists", "GetMessageNoEdges", "GetMessageRemoteID", "GetImportedMessageData", "GetMessageDateAndSize", "GetMessageDeletedFlag"} {
			q = append(q, ROp{M: m, Msgs: []string{id}})
		}
	}
	for _, id := range all {
		q = append(q, ROp{M: "GetMessageMailboxIDs", Msgs: []string{id}})
	}
	for _, r := range mremotes {
		q = append(q, ROp{M: "MessageExistsWithRemoteID", R: r}, ROp{M: "GetMessageIDFromRemoteID", R: r})
	}
	return q
}

type readFn func(ctx context.Context, op func(context.Context, db.ReadOnly) error) error

func txReader(tx db.Transaction) readFn {
	return func(ctx context.Context, op func(context.Context, db.ReadOnly) error) error { return op(ctx, tx) }
}

// readback runs the full read-back and returns the index of the first candidate model that agrees with the
// database on every query (-1: none) and the disagreements with candidate 0.
func (r *runner) readback(read readFn, h Handles, cands []*Model, extra []*Model) (int, []diff, error) {
	qs := queries(h, append(append([]*Model(nil), cands...), extra...))
	got := make([]Res, len(qs))
	err := read(r.ctx, func(ctx context.Context, rd db.ReadOnly) error {
		for i, q := range qs {
			got[i] = Query(ctx, rd, q)
		}
		return nil
	})
	if err != nil {
		return -1, nil, fmt.Errorf("read-back: Client.Read returned %w", err)
	}
	r.res.Counters["readback_queries"] += len(qs)
	var first []diff
	for ci, c := range cands {
		var diffs []diff
		for i, q := range qs {
			alts := c.Answer(q)
			okay := false
			for _, a := range alts {
				if a.Matches(got[i]) {
					okay = true
					break
				}
			}
			if !okay {
				if r.broken[q.M] {
					continue
				}
				diffs = append(diffs, diff{q, got[i], alts})
			}
		}
		if len(diffs) == 0 {
			return ci, nil, nil
		}
		if ci == 0 {
			first = diffs
		}
	}
	// while the seed states are built (from operations that are each verified on the way): exactly one read method
	// disagrees although other read methods observe the same data => the read method gets the blame (reported once,
	// then masked) and the operation is cleared. Later, inside the cases, disagreements are the operation's.
	if m := soleCulprit(first); m != "" && r.seeding {
		capture := r.capture
		r.capture = false
		r.violate(m, "read:"+mismatchKind(first[0].want, first[0].got), diffText(first))
		r.capture = capture
		r.broken[m] = true
		return 0, nil, nil
	}
	return -1, first, nil
}

func soleCulprit(diffs []diff) string {
	m := ""
	for _, d := range diffs {
		if m != "" && d.q.M != m {
			return ""
		}
		m = d.q.M
	}
	if soleObserver[m] {
		return ""
	}
	return m
}

func mismatchKind(want []Alt, got Res) string {
	w := "ok"
	if len(want) > 0 {
		w = want[0].Class
		for _, a := range want {
			if a.Class == "ok" {
				w = "ok"
			}
		}
	}
	if w == "anyerr" || w == "notfound" {
		w = "error"
	}
	g := got.Class
	if g == "notfound" && w == "ok" {
		g = "err"
	}
	if w == "ok" && g == "ok" {
		return "value"
	}
	if w == "error" && g == "err" {
		return "error-class"
	}
	return w + "→" + g
}

// reportReadDiffs reports disagreements that are a read method's own (seen on a seed state) and masks the method.
func (r *runner) reportReadDiffs(diffs []diff, where string) {
	for _, d := range diffs {
		if r.broken[d.q.M] {
			continue
		}
		r.broken[d.q.M] = true
		r.violate(d.q.M, "read:"+mismatchKind(d.want, d.got), fmt.Sprintf("on the %s: %s", where, d))
	}
}

var componentOf = map[string]string{}
var componentOrder = []string{"messages", "message-flags", "mailboxes", "mailbox-flags", "membership", "uidnext", "subscriptions", "settings"}

func init() {
	set := func(c string, ms ...string) {
		for _, m := range ms {
			componentOf[m] = c
		}
	}
	set("messages", "MessageExists", "MessageExistsWithRemoteID", "GetMessageNoEdges", "GetTotalMessageCount", "GetMessageRemoteID",
		"GetMessageDateAndSize", "GetMessageIDFromRemoteID", "GetAllMessagesIDsAsMap", "GetMessageDeletedFlag", "GetMessageIDsMarkedAsDelete")
	set("message-flags", "GetMessagesFlags", "GetImportedMessageData")
	set("mailboxes", "MailboxExistsWithID", "MailboxExistsWithRemoteID", "MailboxExistsWithName", "GetMailboxIDFromRemoteID", "GetMailboxName",
		"GetMailboxNameWithRemoteID", "GetAllMailboxesWithAttr", "GetAllMailboxesAsRemoteIDs", "GetMailboxByName", "GetMailboxByID",
		"GetMailboxByRemoteID", "GetMailboxCount", "GetAllMailboxesNameAndRemoteID", "MailboxTranslateRemoteIDs")
	set("mailbox-flags", "GetMailboxFlags", "GetMailboxPermanentFlags", "GetMailboxAttributes")
	set("membership", "GetMailboxMessageIDPairs", "GetMailboxRecentCount", "GetMailboxMessageCount", "GetMailboxMessageCountWithRemoteID",
		"GetMailboxMessageForNewSnapshot", "MailboxFilterContains", "GetMessageMailboxIDs")
	set("uidnext", "GetMailboxUID", "GetMailboxMessageCountAndUID")
	set("subscriptions", "GetDeletedSubscriptionSet")
	set("settings", "GetConnectorSettings")
}

// soleObserver: read methods that are the only observer of what they read — a disagreement in one of them alone
// cannot be pinned on the read method.
var soleObserver = map[string]bool{"GetConnectorSettings": true, "GetDeletedSubscriptionSet": true, "GetMailboxFlags": true, "GetMailboxPermanentFlags": true}

// attribute decides who gets the blame for state disagreements after an operation: if exactly one read method
// disagrees although other read methods observe the same data, it is that read method; otherwise the operation.
func attribute(opMethod, kind string, diffs []diff) (clause, sig string) {
	methods := map[string]bool{}
	comp := ""
	rank := len(componentOrder)
	for _, d := range diffs {
		methods[d.q.M] = true
		for i, c := range componentOrder {
			if c == componentOf[d.q.M] && i < rank {
				rank, comp = i, c
			}
		}
	}
	return opMethod, kind + ":" + comp
}

func diffText(diffs []diff) string {
	var l []string
	for i, d := range diffs {
		if i == 4 {
			l = append(l, fmt.Sprintf("… %d more", len(diffs)-4))
			break
		}
		l = append(l, d.String())
	}
	return strings.Join(l, "; ")
}

// ---------------------------------------------------------------------------------------------------------
// transactions

var errAbort = errors.New("c08: transaction aborted on purpose")

type stopErr struct{ error }

func dedupeModels(ms []*Model) []*Model {
	seen := map[string]bool{}
	var out []*Model
	for _, m := range ms {
		if len(ms) == 1 {
			return ms
		}
		h := m.Hash()
		if !seen[h] {
			seen[h] = true
			out = append(out, m)
		}
	}
	return out
}

func describeAlts(alts []Alt) string {
	var l []string
	for _, a := range alts {
		l = append(l, a.String())
	}
	return strings.Join(l, " | ")
}

// runTx executes one transaction against the database and the model. It returns the model after it, whether a
// violation was recorded, and whether the database rolled the transaction back.
func (r *runner) runTx(cl db.Client, t Tx, model *Model, h Handles) (*Model, bool, bool, error) {
	if t.Read {
		return model, r.runReadTx(cl, t, model, h), true, nil
	}
	pre := model
	cands := []*Model{pre}
	violated := false
	var returned error
	var engineErr error
	var last Op
	type pending struct{ method, class string }
	var outcomes []pending
	werr := cl.Write(r.ctx, func(ctx context.Context, tx db.Transaction) error {
		for i, op := range t.Ops {
			last = op
			ro := Resolve(op, h, cands[0])
			if IsRead(op.M) {
				got := Query(ctx, tx, ro)
				r.res.Evaluations++
				if !r.checkRead(ro, got, cands, "inside a write transaction") {
					violated = true
					returned = stopErr{errors.New("c08: stop")}
					return returned
				}
				continue
			}
			got := Exec(ctx, tx, ro)
			r.res.Evaluations++
			var next []*Model
			var tags []string
			for _, c := range cands {
				for _, a := range c.Apply(ro, got.NewMb) {
					if a.Matches(got) {
						next = append(next, a.M)
						if a.Tag != "" {
							tags = append(tags, a.Tag)
						}
					}
				}
			}
			if len(next) == 0 {
				want := cands[0].Apply(ro, got.NewMb)
				violated = true
				r.violate(op.M, "result:"+mismatchKind(want, got), fmt.Sprintf("%s returned %s; the model accepts: %s", op, got, describeAlts(want)))
				returned = stopErr{errors.New("c08: stop")}
				return returned
			}
			for _, tg := range uniq(tags) {
				r.res.Counters["no-contract accepted: "+op.M+": "+tg]++
			}
			outcomes = append(outcomes, pending{method: op.M, class: got.Class})
			if got.Class != "ok" {
				// like every caller: hand the error back, the transaction must be rolled back
				returned = errors.New(got.Err)
				return returned
			}
			cands = dedupeModels(next)
			if r.each && i+1 != t.Abort {
				idx, diffs, err := r.readback(txReader(tx), h, cands, []*Model{pre})
				if err != nil {
					engineErr = err
					returned = stopErr{err}
					return returned
				}
				if idx < 0 {
					violated = true
					clause, sig := attribute(op.M, "state", diffs)
					r.violate(clause, sig, fmt.Sprintf("after %s, read inside the same transaction: %s", op, diffText(diffs)))
					returned = stopErr{errors.New("c08: stop")}
					return returned
				}
				cands = []*Model{cands[idx]}
			}
			if i+1 == t.Abort {
				// read-your-writes: inside the transaction the effect must be visible exactly as the model has it
				idx, diffs, err := r.readback(txReader(tx), h, cands, []*Model{pre})
				if err != nil {
					engineErr = err
				} else if idx < 0 {
					violated = true
					clause, sig := attribute(op.M, "state", diffs)
					r.violate(clause, sig, fmt.Sprintf("after %s, read inside the same transaction: %s", op, diffText(diffs)))
				} else {
					cands = []*Model{cands[idx]}
				}
				for i := range outcomes {
					r.outcomes[outcomes[i].method+"|"+outcomes[i].class+"|in-tx|"+cands[0].Hash()] = true
				}
				returned = errAbort
				return returned
			}
		}
		return nil
	})
	if engineErr != nil {
		return nil, false, false, engineErr
	}
	rolledBack := returned != nil
	if violated {
		return pre, true, rolledBack, nil
	}
	switch {
	case returned != nil && werr == nil:
		r.violate("Write", "error-swallowed", fmt.Sprintf("the callback returned %q after %s but Client.Write returned nil", returned, last))
		return pre, true, rolledBack, nil
	case returned == nil && werr != nil:
		r.violate(last.M, "commit-error", fmt.Sprintf("the callback returned nil after %s but Client.Write returned %q", last, werr))
		return pre, true, rolledBack, nil
	}
	if rolledBack {
		cands = []*Model{pre}
	}
	idx, diffs, err := r.readback(cl.Read, h, cands, []*Model{pre})
	if err != nil {
		return nil, false, false, err
	}
	if idx < 0 {
		kind := "state"
		what := fmt.Sprintf("after committed %s", last)
		if rolledBack {
			kind = "rollback-trace"
			what = fmt.Sprintf("after %s in a transaction that returned an error (nothing may remain)", last)
		}
		clause, sig := attribute(last.M, kind, diffs)
		if rolledBack {
			// whatever the operation: a trace after a failed transaction is Client.Write's rollback at fault
			clause, sig = "Write", "rollback-trace"
		}
		r.violate(clause, sig, what+": "+diffText(diffs))
		return pre, true, rolledBack, nil
	}
	final := cands[idx]
	hash := final.Hash()
	switch {
	case returned == errAbort:
		r.res.Counters["transactions aborted on purpose, no trace"]++
	case rolledBack:
		r.res.Counters["transactions failed by an operation error, no trace"]++
	default:
		r.res.Counters["transactions committed"]++
	}
	if len(r.res.Samples) < 2 && len(t.Ops) > 0 && !r.seeding {
		r.res.Samples = append(r.res.Samples, map[string]any{"case": r.input, "last_operation": last.String(), "rolled_back": rolledBack, "state_after": hash})
	}
	for _, o := range outcomes {
		mode := "commit"
		if rolledBack {
			mode = "rolled-back"
		}
		r.outcomes[o.method+"|"+o.class+"|"+mode+"|"+hash] = true
	}
	return final, false, rolledBack, nil
}

func (r *runner) checkRead(ro ROp, got Res, cands []*Model, where string) bool {
	var want []Alt
	for _, c := range cands {
		alts := c.Answer(ro)
		if want == nil {
			want = alts
		}
		for _, a := range alts {
			if a.Matches(got) {
				r.outcomes[ro.M+"|"+got.Class+"|read|"+fmt.Sprint(len(ro.Msgs)+len(ro.Pairs)+len(ro.Rs))] = true
				return true
			}
		}
	}
	if r.broken[ro.M] {
		return true
	}
	r.violate(ro.M, "read:"+mismatchKind(want, got), fmt.Sprintf("%s %s returned %s; the model says %s", describeQuery(ro), where, got, describeAlts(want)))
	return false
}

func (r *runner) runReadTx(cl db.Client, t Tx, model *Model, h Handles) bool {
	violated := false
	err := cl.Read(r.ctx, func(ctx context.Context, rd db.ReadOnly) error {
		for _, op := range t.Ops {
			ro := Resolve(op, h, model)
			got := Query(ctx, rd, ro)
			r.res.Evaluations++
			if !r.checkRead(ro, got, []*Model{model}, "through Client.Read") {
				violated = true
			}
		}
		return nil
	})
	if err != nil {
		r.violate("Read", "error", "Client.Read returned "+err.Error())
		return true
	}
	return violated
}

// ---------------------------------------------------------------------------------------------------------
// cases

func (r *runner) fanOf(c Case) []Tx {
	fan := append([]Tx(nil), c.Fan...)
	switch c.FanAll {
	case "commit":
		for _, op := range r.alphabet {
			fan = append(fan, Tx{Ops: []Op{op}})
		}
	case "abort1":
		for _, op := range r.alphabet {
			fan = append(fan, Tx{Ops: []Op{op}, Abort: 1})
		}
	}
	if c.FanFirst != nil {
		for _, op := range r.alphabet {
			fan = append(fan, Tx{Ops: []Op{*c.FanFirst, op}, Abort: 2})
		}
	}
	return fan
}

func (r *runner) runCase(c Case) error {
	seed := r.seeds[c.Seed]
	if seed == nil {
		return fmt.Errorf("unknown seed %q", c.Seed)
	}
	if !seed.ok {
		r.res.Counters["cases skipped: seed "+c.Seed+" could not be built in agreement with the model"]++
		return nil
	}
	work := filepath.Join(r.root, "work")
	if err := copyDB(seed.dir, work); err != nil {
		return err
	}
	cl, err := r.open(work)
	if err != nil {
		return err
	}
	model := seed.model
	for i, t := range c.Prefix {
		r.input = map[string]any{"seed": c.Seed, "transactions": c.Prefix[:i+1]}
		r.each = len(t.Ops) > 1 // multi-operation transaction: read back after every operation, so the right one is blamed
		m, v, _, err := r.runTx(cl, t, model, seed.h)
		r.each = false
		if err != nil {
			_ = cl.Close()
			return err
		}
		if v {
			return cl.Close()
		}
		model = m
	}
	if err := cl.Close(); err != nil {
		return err
	}
	fan := r.fanOf(c)
	if len(fan) == 0 {
		return nil
	}
	fanDir := filepath.Join(r.root, "fan")
	var cur db.Client
	defer func() {
		if cur != nil {
			_ = cur.Close()
		}
	}()
	for _, t := range fan {
		if cur == nil {
			if err := copyDB(work, fanDir); err != nil {
				return err
			}
			if cur, err = r.open(fanDir); err != nil {
				return err
			}
		}
		txs := append(append([]Tx(nil), c.Prefix...), t)
		r.input = map[string]any{"seed": c.Seed, "transactions": txs}
		multi := len(t.Ops) > 1
		r.capture, r.captured = multi, nil
		_, v, rolledBack, err := r.runTx(cur, t, model, seed.h)
		r.capture = false
		if err != nil {
			return err
		}
		if v && multi {
			// a disagreement at the end of a multi-operation transaction: run it again on a fresh copy with a
			// read-back after EVERY operation, so that the operation that caused it gets the blame
			first := r.captured
			if err := cur.Close(); err != nil {
				return err
			}
			if err := copyDB(work, fanDir); err != nil {
				return err
			}
			if cur, err = r.open(fanDir); err != nil {
				return err
			}
			evals := r.res.Evaluations
			r.each = true
			_, v2, _, err := r.runTx(cur, t, model, seed.h)
			r.each = false
			r.res.Evaluations = evals
			if err != nil {
				return err
			}
			if !v2 && first != nil {
				r.violate(first.Clause, first.Sig, first.Msg)
			}
		}
		// a transaction that was rolled back and left no trace (verified by the read-back) leaves the state
		// after the prefix intact; everything else gets a fresh copy
		if v || !rolledBack {
			if err := cur.Close(); err != nil {
				return err
			}
			cur = nil
		}
	}
	return nil
}

// ---------------------------------------------------------------------------------------------------------
// helpers for the coordinator (pure model, no database)

// Predict runs the operations on the model alone (taking the first acceptable outcome of each) and returns the
// state digest after every operation and whether the operation is expected to succeed.
func Predict(seed string, ops []Op) (hashes []string, succeeds []bool, model *Model) {
	m, h := SeedModel(seed)
	for _, op := range ops {
		a := m.Apply(Resolve(op, h, m), 0)[0]
		succeeds = append(succeeds, a.Class == "ok")
		m = a.M
		hashes = append(hashes, m.Hash())
	}
	return hashes, succeeds, m
}

// Next is the model state after the operation (first acceptable outcome).
func Next(m *Model, h Handles, op Op) *Model { return m.Apply(Resolve(op, h, m), 0)[0].M }

var seedCache = map[string]struct {
	m *Model
	h Handles
}{}

// SeedModel returns the model state of a seed (pure model run of its operations).
func SeedModel(seed string) (*Model, Handles) {
	if s, ok := seedCache[seed]; ok {
		return s.m, s.h
	}
	m, h := NewModel(), Handles{}
	for _, op := range seedOps(seed) {
		a := m.Apply(Resolve(op, h, m), 0)[0]
		m = a.M
		if op.M == "CreateMailbox" {
			if b := m.byRemote(op.R); b != nil {
				h[op.N] = b.ID
			}
		}
	}
	seedCache[seed] = struct {
		m *Model
		h Handles
	}{m, h}
	return m, h
}
