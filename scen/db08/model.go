// Package db08 holds the C08 scenario: the real SQLite index of gluon (driven only through the public
// github.com/ProtonMail/gluon/db interface) is compared with a plain in-memory relational model after every
// operation of every enumerated operation sequence.
//
// model.go: the reference model. Nothing here touches SQL; it is maps and slices only.
package db08

import (
	"crypto/sha256"
	"encoding/hex"
	"encoding/json"
	"fmt"
	"sort"
	"strings"
)

// MRow is one membership row of a mailbox.
type MRow struct {
	UID     uint32
	Msg     string // internal message id
	Remote  string // the remote id handed in when the row was added
	Deleted bool
	Recent  bool
}

type MMbox struct {
	ID      uint64
	Remote  string
	Name    string
	UIDV    uint32
	Sub     bool
	Flags   map[string]bool // keys are lower case: flags are case-insensitive (imap.FlagSet)
	Perm    map[string]bool
	Attrs   map[string]bool
	Rows    []MRow // ascending UID
	UIDNext uint32 // never goes back
}

type MMsg struct {
	ID      string
	Remote  string
	Flags   map[string]bool
	Deleted bool
	Date    int64
	Size    int
	Body    string
	Struct  string
	Env     string
}

type MSub struct{ Name, Remote string }

type Model struct {
	Mb       map[uint64]*MMbox
	Ever     map[uint64]bool // every internal mailbox id ever handed out (ids are never reused)
	Msg      map[string]*MMsg
	Subs     []MSub // deleted subscriptions; name unique, remote id unique
	Settings *string
}

// randomRemote is what the model stores for a remote id that the implementation chooses at random.
const randomRemote = "DELETED-*"

func NewModel() *Model {
	return &Model{Mb: map[uint64]*MMbox{}, Ever: map[uint64]bool{}, Msg: map[string]*MMsg{}}
}

func cloneSet(s map[string]bool) map[string]bool {
	out := make(map[string]bool, len(s))
	for k := range s {
		out[k] = true
	}
	return out
}

func (m *Model) Clone() *Model {
	c := &Model{Mb: make(map[uint64]*MMbox, len(m.Mb)), Ever: make(map[uint64]bool, len(m.Ever)), Msg: make(map[string]*MMsg, len(m.Msg))}
	for id, b := range m.Mb {
		nb := *b
		nb.Flags, nb.Perm, nb.Attrs = cloneSet(b.Flags), cloneSet(b.Perm), cloneSet(b.Attrs)
		nb.Rows = append([]MRow(nil), b.Rows...)
		c.Mb[id] = &nb
	}
	for id := range m.Ever {
		c.Ever[id] = true
	}
	for id, g := range m.Msg {
		ng := *g
		ng.Flags = cloneSet(g.Flags)
		c.Msg[id] = &ng
	}
	c.Subs = append([]MSub(nil), m.Subs...)
	if m.Settings != nil {
		s := *m.Settings
		c.Settings = &s
	}
	return c
}

// Hash is a canonical digest of the complete model state.
func (m *Model) Hash() string {
	b, _ := json.Marshal(m)
	h := sha256.Sum256(b)
	return hex.EncodeToString(h[:8])
}

func flagKey(f string) string { return strings.ToLower(f) }

func setOf(flags []string) map[string]bool {
	out := map[string]bool{}
	for _, f := range flags {
		out[flagKey(f)] = true
	}
	return out
}

func renderSet(s map[string]bool) string {
	keys := make([]string, 0, len(s))
	for k := range s {
		keys = append(keys, k)
	}
	sort.Strings(keys)
	return strings.Join(keys, " ")
}

func (m *Model) byRemote(r string) *MMbox {
	for _, b := range m.Mb {
		if b.Remote == r {
			return b
		}
	}
	return nil
}

func (m *Model) byName(n string) *MMbox {
	for _, b := range m.Mb {
		if b.Name == n {
			return b
		}
	}
	return nil
}

func (m *Model) msgByRemote(r string) *MMsg {
	if r == randomRemote {
		return nil
	}
	for _, g := range m.Msg {
		if g.Remote == r {
			return g
		}
	}
	return nil
}

func (m *Model) mbIDs() []uint64 {
	ids := make([]uint64, 0, len(m.Mb))
	for id := range m.Mb {
		ids = append(ids, id)
	}
	sort.Slice(ids, func(i, j int) bool { return ids[i] < ids[j] })
	return ids
}

func (b *MMbox) row(msg string) int {
	for i := range b.Rows {
		if b.Rows[i].Msg == msg {
			return i
		}
	}
	return -1
}

func (m *Model) mailboxesOf(msg string) []uint64 {
	var out []uint64
	for _, id := range m.mbIDs() {
		if m.Mb[id].row(msg) >= 0 {
			out = append(out, id)
		}
	}
	return out
}

// ---------------------------------------------------------------------------------------------------------
// Neutral value renderings, used for the answers of the model AND of the real database.

func vMailbox(id uint64, remote, name string, uidv uint32, sub bool) string {
	return fmt.Sprintf("mbox{%d %q %q v%d sub=%v}", id, remote, name, uidv, sub)
}

func vMessage(id, remote string, date int64, size int, body, structure, env string, deleted bool) string {
	return fmt.Sprintf("msg{%s %q d%d s%d %q %q %q del=%v}", shortMsg(id), remote, date, size, body, structure, env, deleted)
}

func vRow(uid uint32, id, remote string, recent, deleted bool, flags string) string {
	return fmt.Sprintf("row{u%d %s %q rec=%v del=%v [%s]}", uid, shortMsg(id), remote, recent, deleted, flags)
}

func vPair(id, remote string) string { return fmt.Sprintf("%s=%q", shortMsg(id), remote) }

// shortMsg abbreviates the fixed-prefix UUIDs used by the harness.
func shortMsg(id string) string {
	if strings.HasPrefix(id, msgPrefix) {
		return "#" + strings.TrimLeft(id[len(msgPrefix):], "0")
	}
	return id
}

func normRemote(r string) string {
	if strings.HasPrefix(r, "DELETED-") {
		return randomRemote
	}
	return r
}

// vList renders a collection; sorted = the order carries no meaning.
func vList(items []string, sorted bool) string {
	if sorted {
		items = append([]string(nil), items...)
		sort.Strings(items)
	}
	if len(items) > 12 {
		// long lists: length, digest and the two ends (keeps diffs readable)
		h := sha256.Sum256([]byte(strings.Join(items, "\n")))
		return fmt.Sprintf("[n=%d #%s %s … %s]", len(items), hex.EncodeToString(h[:6]), items[0], items[len(items)-1])
	}
	return "[" + strings.Join(items, ", ") + "]"
}

func uniq(items []string) []string {
	seen := map[string]bool{}
	var out []string
	for _, s := range items {
		if !seen[s] {
			seen[s] = true
			out = append(out, s)
		}
	}
	return out
}

// ---------------------------------------------------------------------------------------------------------

// Alt is one acceptable outcome of an operation: result class, rendered value and (for writes) the state after it.
// Class: "ok", "notfound", "err" or "anyerr" (any error class). Val "*" = the value is not judged.
type Alt struct {
	Class string
	Val   string
	M     *Model // nil for reads
	Tag   string // non-empty: this alternative exists because the interface gives no contract (counted)
}

func ok(val string, m *Model) Alt { return Alt{Class: "ok", Val: val, M: m} }

func (a Alt) lenient(tag string) Alt { a.Tag = tag; return a }

func (a Alt) Matches(r Res) bool {
	switch a.Class {
	case "anyerr":
		return r.Class == "err" || r.Class == "notfound"
	case "ok":
		return r.Class == "ok" && (a.Val == "*" || a.Val == r.Val)
	default:
		return a.Class == r.Class
	}
}

func (a Alt) String() string {
	if a.Class == "ok" {
		return "ok " + a.Val
	}
	return a.Class
}

// Res is the observed outcome of an operation on the real database.
type Res struct {
	Class string // ok | notfound | err | panic
	Val   string
	Err   string
	NewMb uint64 // internal id of a mailbox returned by a create operation
}

func (r Res) String() string {
	if r.Class == "ok" {
		return "ok " + r.Val
	}
	return r.Class + " (" + r.Err + ")"
}

// ROp is an operation with concrete arguments.
type ROp struct {
	M     string
	Mb    uint64
	R     string
	N     string
	Parts []string
	Delim string
	Msgs  []string
	Pairs [][2]string // (internal id, remote id)
	Reqs  []Req
	F     []string
	F2    []string
	F3    []string
	B     bool
	U     uint32
	Rs    []string
}

type Req struct {
	ID, Remote         string
	Flags              []string
	Date               int64
	Size               int
	Body, Struct, Envl string
}

func (m *Model) newMailbox(o ROp, remote, name string, hint uint64) (*Model, *MMbox) {
	c := m.Clone()
	var max uint64
	for id := range c.Ever {
		if id > max {
			max = id
		}
	}
	id := max + 1
	if hint != 0 && !c.Ever[hint] {
		id = hint // the id is opaque: any never-used id is acceptable
	}
	b := &MMbox{ID: id, Remote: remote, Name: name, UIDV: o.U, Sub: true, Flags: setOf(o.F), Perm: setOf(o.F2), Attrs: setOf(o.F3), UIDNext: 1}
	c.dropSubsNamed(name) // a mailbox of this name exists again: the deleted subscription of that name is superseded
	c.Mb[id] = b
	c.Ever[id] = true
	return c, b
}

func (b *MMbox) render() string { return vMailbox(b.ID, b.Remote, b.Name, b.UIDV, b.Sub) }

func (m *Model) dropSubsNamed(name string) {
	kept := m.Subs[:0:0]
	for _, x := range m.Subs {
		if x.Name != name {
			kept = append(kept, x)
		}
	}
	m.Subs = kept
}

// addSub is the deleted-subscription upsert. conflict = the remote id is already recorded under another name.
func (m *Model) addSub(name, remote string) (conflict bool) {
	for i := range m.Subs {
		if m.Subs[i].Remote == remote && m.Subs[i].Name != name {
			conflict = true
			m.Subs = append(m.Subs[:i], m.Subs[i+1:]...)
			break
		}
	}
	for i := range m.Subs {
		if m.Subs[i].Name == name {
			m.Subs[i].Remote = remote
			return
		}
	}
	m.Subs = append(m.Subs, MSub{name, remote})
	sort.Slice(m.Subs, func(i, j int) bool { return m.Subs[i].Name < m.Subs[j].Name })
	return
}

func (m *Model) addRows(b *MMbox, pairs [][2]string) []string {
	var out []string
	for _, p := range pairs {
		row := MRow{UID: b.UIDNext, Msg: p[0], Remote: p[1], Recent: true}
		b.UIDNext++
		b.Rows = append(b.Rows, row)
		out = append(out, vRow(row.UID, row.Msg, normRemote(row.Remote), true, false, renderSet(m.Msg[p[0]].Flags)))
	}
	return out
}

func (m *Model) createMsg(r Req) {
	m.Msg[r.ID] = &MMsg{ID: r.ID, Remote: r.Remote, Flags: setOf(r.Flags), Date: r.Date, Size: r.Size, Body: r.Body, Struct: r.Struct, Env: r.Envl}
}

func (m *Model) reqsValid(reqs []Req) bool {
	ids, rem := map[string]bool{}, map[string]bool{}
	for _, r := range reqs {
		if ids[r.ID] || rem[r.Remote] || m.Msg[r.ID] != nil || m.msgByRemote(r.Remote) != nil {
			return false
		}
		ids[r.ID], rem[r.Remote] = true, true
	}
	return true
}

// Apply returns the acceptable outcomes of a write operation. The receiver is never modified.
// hint: the mailbox id the real database returned for a create operation (0 = predict).
func (m *Model) Apply(o ROp, hint uint64) []Alt {
	fail := Alt{Class: "anyerr", M: m}
	noop := ok("", m)
	switch o.M {
	case "CreateMailbox":
		if m.byRemote(o.R) != nil || m.byName(o.N) != nil {
			return []Alt{fail}
		}
		c, b := m.newMailbox(o, o.R, o.N, hint)
		return []Alt{ok(b.render(), c)}
	case "GetOrCreateMailbox", "GetOrCreateMailboxAlt", "CreateMailboxIfNotExists":
		name := o.N
		if o.M != "GetOrCreateMailbox" {
			name = strings.Join(o.Parts, o.Delim)
		}
		val := func(b *MMbox) string {
			if o.M == "CreateMailboxIfNotExists" {
				return ""
			}
			return b.render()
		}
		if b := m.byRemote(o.R); b != nil {
			return []Alt{ok(val(b), m)}
		}
		if m.byName(name) != nil {
			return []Alt{fail}
		}
		c, b := m.newMailbox(o, o.R, name, hint)
		return []Alt{ok(val(b), c)}
	case "RenameMailboxWithRemoteID":
		b := m.byRemote(o.R)
		if b == nil {
			return []Alt{fail, noop.lenient("rename of an unknown mailbox")}
		}
		if other := m.byName(o.N); other != nil && other != b {
			return []Alt{fail}
		}
		c := m.Clone()
		c.dropSubsNamed(o.N)
		c.Mb[b.ID].Name = o.N
		return []Alt{ok("", c)}
	case "DeleteMailboxWithRemoteID":
		b := m.byRemote(o.R)
		if b == nil {
			return []Alt{noop, fail.lenient("delete of an unknown mailbox")}
		}
		c := m.Clone()
		delete(c.Mb, b.ID)
		if b.Sub {
			if c.addSub(b.Name, b.Remote) {
				return []Alt{fail.lenient("delete: remote id already in the deleted-subscription set under another name"), ok("", c).lenient("delete: remote id already in the deleted-subscription set under another name")}
			}
		}
		return []Alt{ok("", c)}
	case "AddMessagesToMailbox":
		b := m.Mb[o.Mb]
		if b == nil {
			return []Alt{fail, ok("*", m).lenient("add to an unknown mailbox")}
		}
		seen := map[string]bool{}
		var valid [][2]string
		clean := true
		for _, p := range o.Pairs {
			if m.Msg[p[0]] == nil || b.row(p[0]) >= 0 || seen[p[0]] {
				clean = false
				continue
			}
			seen[p[0]] = true
			valid = append(valid, p)
		}
		c := m.Clone()
		rows := c.addRows(c.Mb[b.ID], valid)
		if !clean {
			return []Alt{fail.lenient("add of an unknown / already present / repeated message"), ok("*", c).lenient("add of an unknown / already present / repeated message")}
		}
		return []Alt{ok(vList(rows, true), c)}
	case "RemoveMessagesFromMailbox":
		b := m.Mb[o.Mb]
		if b == nil {
			return []Alt{fail, noop.lenient("remove from an unknown mailbox")}
		}
		c := m.Clone()
		nb := c.Mb[b.ID]
		clean := true
		for _, id := range o.Msgs {
			if i := nb.row(id); i >= 0 {
				nb.Rows = append(nb.Rows[:i], nb.Rows[i+1:]...)
			} else {
				clean = false
			}
		}
		if !clean {
			return []Alt{ok("", c), fail.lenient("remove of a message that is not in the mailbox")}
		}
		return []Alt{ok("", c)}
	case "ClearRecentFlagInMailboxOnMessage":
		b := m.Mb[o.Mb]
		if b == nil {
			return []Alt{fail, noop.lenient("unknown mailbox")}
		}
		i := b.row(o.Msgs[0])
		if i < 0 {
			return []Alt{noop, fail.lenient("message not in the mailbox")}
		}
		c := m.Clone()
		c.Mb[b.ID].Rows[i].Recent = false
		return []Alt{ok("", c)}
	case "ClearRecentFlagsInMailbox":
		b := m.Mb[o.Mb]
		if b == nil {
			return []Alt{fail, noop.lenient("unknown mailbox")}
		}
		c := m.Clone()
		for i := range c.Mb[b.ID].Rows {
			c.Mb[b.ID].Rows[i].Recent = false
		}
		return []Alt{ok("", c)}
	case "SetMailboxMessagesDeletedFlag":
		b := m.Mb[o.Mb]
		if b == nil {
			return []Alt{fail, noop.lenient("unknown mailbox")}
		}
		c := m.Clone()
		clean := true
		for _, id := range o.Msgs {
			if i := b.row(id); i >= 0 {
				c.Mb[b.ID].Rows[i].Deleted = o.B
			} else {
				clean = false
			}
		}
		if !clean {
			return []Alt{ok("", c), fail.lenient("message not in the mailbox")}
		}
		return []Alt{ok("", c)}
	case "SetMailboxSubscribed":
		if m.Mb[o.Mb] == nil {
			return []Alt{noop.lenient("unknown mailbox"), fail}
		}
		c := m.Clone()
		c.Mb[o.Mb].Sub = o.B
		return []Alt{ok("", c)}
	case "UpdateRemoteMailboxID":
		b := m.Mb[o.Mb]
		if b == nil {
			return []Alt{fail, noop.lenient("unknown mailbox")}
		}
		if other := m.byRemote(o.R); other != nil && other != b {
			return []Alt{fail}
		}
		c := m.Clone()
		c.Mb[o.Mb].Remote = o.R
		return []Alt{ok("", c)}
	case "SetMailboxUIDValidity":
		if m.Mb[o.Mb] == nil {
			return []Alt{fail, noop.lenient("unknown mailbox")}
		}
		c := m.Clone()
		c.Mb[o.Mb].UIDV = o.U
		return []Alt{ok("", c)}
	case "AddFlagsToAllMailboxes", "AddPermFlagsToAllMailboxes":
		c := m.Clone()
		for _, b := range c.Mb {
			for _, f := range o.F {
				if o.M == "AddFlagsToAllMailboxes" {
					b.Flags[flagKey(f)] = true
				} else {
					b.Perm[flagKey(f)] = true
				}
			}
		}
		if len(o.F) == 0 {
			return []Alt{ok("", c), fail.lenient("empty flag list")}
		}
		return []Alt{ok("", c)}
	case "CreateMessages":
		if !m.reqsValid(o.Reqs) {
			return []Alt{fail}
		}
		c := m.Clone()
		for _, r := range o.Reqs {
			c.createMsg(r)
		}
		return []Alt{ok("", c)}
	case "CreateMessageAndAddToMailbox":
		b := m.Mb[o.Mb]
		if b == nil || !m.reqsValid(o.Reqs) {
			return []Alt{fail}
		}
		c := m.Clone()
		r := o.Reqs[0]
		c.createMsg(r)
		nb := c.Mb[b.ID]
		uid := nb.UIDNext
		c.addRows(nb, [][2]string{{r.ID, r.Remote}})
		fl := setOf(r.Flags)
		fl[`\recent`] = true
		return []Alt{ok(fmt.Sprintf("u%d [%s]", uid, renderSet(fl)), c)}
	case "MarkMessageAsDeleted", "MarkMessageAsDeletedAndAssignRandomRemoteID":
		g := m.Msg[o.Msgs[0]]
		if g == nil {
			return []Alt{noop.lenient("unknown message"), fail}
		}
		c := m.Clone()
		c.Msg[g.ID].Deleted = true
		if o.M != "MarkMessageAsDeleted" {
			c.Msg[g.ID].Remote = randomRemote
		}
		return []Alt{ok("", c)}
	case "MarkMessageAsDeletedWithRemoteID":
		g := m.msgByRemote(o.R)
		if g == nil {
			return []Alt{noop.lenient("unknown message"), fail}
		}
		c := m.Clone()
		c.Msg[g.ID].Deleted = true
		return []Alt{ok("", c)}
	case "DeleteMessages":
		c := m.Clone()
		clean, referenced := true, false
		for _, id := range o.Msgs {
			if c.Msg[id] == nil {
				clean = false
				continue
			}
			for _, b := range c.Mb {
				if i := b.row(id); i >= 0 {
					referenced = true
					b.Rows = append(b.Rows[:i], b.Rows[i+1:]...)
				}
			}
			delete(c.Msg, id)
		}
		switch {
		case referenced:
			return []Alt{fail.lenient("delete of a message that is still in a mailbox"), ok("", c).lenient("delete of a message that is still in a mailbox")}
		case !clean:
			return []Alt{ok("", c), fail.lenient("delete of an unknown message")}
		}
		return []Alt{ok("", c)}
	case "UpdateRemoteMessageID":
		g := m.Msg[o.Msgs[0]]
		if g == nil {
			return []Alt{fail, noop.lenient("unknown message")}
		}
		if other := m.msgByRemote(o.R); other != nil && other != g {
			return []Alt{fail}
		}
		c := m.Clone()
		c.Msg[g.ID].Remote = o.R
		return []Alt{ok("", c)}
	case "AddFlagToMessages", "RemoveFlagFromMessages", "SetFlagsOnMessages":
		c := m.Clone()
		clean := true
		for _, id := range o.Msgs {
			g := c.Msg[id]
			if g == nil {
				clean = false
				continue
			}
			switch o.M {
			case "AddFlagToMessages":
				g.Flags[flagKey(o.F[0])] = true
			case "RemoveFlagFromMessages":
				delete(g.Flags, flagKey(o.F[0]))
			default:
				g.Flags = setOf(o.F)
			}
		}
		if !clean {
			return []Alt{fail.lenient("flag change on an unknown message"), ok("", c).lenient("flag change on an unknown message")}
		}
		return []Alt{ok("", c)}
	case "AddDeletedSubscription":
		c := m.Clone()
		if c.addSub(o.N, o.R) {
			return []Alt{fail.lenient("remote id already in the deleted-subscription set under another name"), ok("", c).lenient("remote id already in the deleted-subscription set under another name")}
		}
		return []Alt{ok("", c)}
	case "RemoveDeletedSubscriptionWithName":
		c := m.Clone()
		n := 0
		for i := range c.Subs {
			if c.Subs[i].Name == o.N {
				c.Subs = append(c.Subs[:i], c.Subs[i+1:]...)
				n = 1
				break
			}
		}
		return []Alt{ok(fmt.Sprint(n), c)}
	case "StoreConnectorSettings":
		c := m.Clone()
		s := o.N
		c.Settings = &s
		return []Alt{ok("", c)}
	}
	panic("db08 model: unknown write operation " + o.M)
}

// rowsAlt renders rows twice: with the remote id recorded when the row was added and with the current remote id
// of the message (the interface does not say which one a mailbox listing shows after a remote id change).
func (m *Model) rowsAlt(b *MMbox, render func(r MRow, remote string) string, sorted bool) []Alt {
	var stored, current []string
	for _, r := range b.Rows {
		stored = append(stored, render(r, normRemote(r.Remote)))
		cur := r.Remote
		if g := m.Msg[r.Msg]; g != nil {
			cur = g.Remote
		}
		current = append(current, render(r, normRemote(cur)))
	}
	a, c := vList(stored, sorted), vList(current, sorted)
	if a == c {
		return []Alt{ok(a, nil)}
	}
	return []Alt{ok(a, nil), ok(c, nil)}
}

// Answer returns the acceptable outcomes of a read operation.
func (m *Model) Answer(o ROp) []Alt {
	one := func(v string) []Alt { return []Alt{ok(v, nil)} }
	notFound := []Alt{{Class: "notfound"}}
	// reads that go to the per-mailbox table of an unknown mailbox: an error or the natural empty answer
	unknownMb := func(v string) []Alt { return []Alt{{Class: "anyerr"}, ok(v, nil)} }
	b := m.Mb[o.Mb]
	switch o.M {
	case "MailboxExistsWithID":
		return one(fmt.Sprint(b != nil))
	case "MailboxExistsWithRemoteID":
		return one(fmt.Sprint(m.byRemote(o.R) != nil))
	case "MailboxExistsWithName":
		return one(fmt.Sprint(m.byName(o.N) != nil))
	case "GetMailboxIDFromRemoteID":
		if x := m.byRemote(o.R); x != nil {
			return one(fmt.Sprint(x.ID))
		}
		return notFound
	case "GetMailboxName":
		if b != nil {
			return one(fmt.Sprintf("%q", b.Name))
		}
		return notFound
	case "GetMailboxNameWithRemoteID":
		if x := m.byRemote(o.R); x != nil {
			return one(fmt.Sprintf("%q", x.Name))
		}
		return notFound
	case "GetMailboxMessageIDPairs":
		if b == nil {
			return unknownMb("[]")
		}
		return m.rowsAlt(b, func(r MRow, remote string) string { return vPair(r.Msg, remote) }, true)
	case "GetAllMailboxesWithAttr":
		var l []string
		for _, id := range m.mbIDs() {
			l = append(l, m.Mb[id].render()+" attrs["+renderSet(m.Mb[id].Attrs)+"]")
		}
		return one(vList(l, true))
	case "GetAllMailboxesAsRemoteIDs":
		var l []string
		for _, id := range m.mbIDs() {
			l = append(l, m.Mb[id].Remote)
		}
		return one(vList(l, true))
	case "GetMailboxByName":
		if x := m.byName(o.N); x != nil {
			return one(x.render())
		}
		return notFound
	case "GetMailboxByID":
		if b != nil {
			return one(b.render())
		}
		return notFound
	case "GetMailboxByRemoteID":
		if x := m.byRemote(o.R); x != nil {
			return one(x.render())
		}
		return notFound
	case "GetMailboxRecentCount":
		if b == nil {
			return unknownMb("0")
		}
		n := 0
		for _, r := range b.Rows {
			if r.Recent {
				n++
			}
		}
		return one(fmt.Sprint(n))
	case "GetMailboxMessageCount":
		if b == nil {
			return unknownMb("0")
		}
		return one(fmt.Sprint(len(b.Rows)))
	case "GetMailboxMessageCountWithRemoteID":
		if x := m.byRemote(o.R); x != nil {
			return one(fmt.Sprint(len(x.Rows)))
		}
		return []Alt{{Class: "anyerr"}}
	case "GetMailboxFlags", "GetMailboxPermanentFlags", "GetMailboxAttributes":
		if b == nil {
			return unknownMb("")
		}
		switch o.M {
		case "GetMailboxFlags":
			return one(renderSet(b.Flags))
		case "GetMailboxPermanentFlags":
			return one(renderSet(b.Perm))
		}
		return one(renderSet(b.Attrs))
	case "GetMailboxUID":
		if b == nil {
			return unknownMb("1")
		}
		return one(fmt.Sprint(b.UIDNext))
	case "GetMailboxMessageCountAndUID":
		if b == nil {
			return unknownMb("0 1")
		}
		return one(fmt.Sprintf("%d %d", len(b.Rows), b.UIDNext))
	case "GetMailboxMessageForNewSnapshot":
		if b == nil {
			return unknownMb("[]")
		}
		return m.rowsAlt(b, func(r MRow, remote string) string {
			fl := ""
			if g := m.Msg[r.Msg]; g != nil {
				fl = renderSet(g.Flags)
			}
			return vRow(r.UID, r.Msg, remote, r.Recent, r.Deleted, fl)
		}, false)
	case "MailboxTranslateRemoteIDs":
		var l []string
		for _, r := range uniq(o.Rs) {
			if x := m.byRemote(r); x != nil {
				l = append(l, fmt.Sprint(x.ID))
			}
		}
		return one(vList(l, true))
	case "MailboxFilterContains":
		if b == nil {
			if len(o.Pairs) == 0 {
				return []Alt{ok("[]", nil), {Class: "anyerr"}}
			}
			return unknownMb("[]")
		}
		var l []string
		for _, p := range o.Pairs {
			if b.row(p[0]) >= 0 {
				l = append(l, shortMsg(p[0]))
			}
		}
		return one(vList(uniq(l), true))
	case "GetMailboxCount":
		return one(fmt.Sprint(len(m.Mb)))
	case "GetAllMailboxesNameAndRemoteID":
		var l []string
		for _, id := range m.mbIDs() {
			l = append(l, fmt.Sprintf("%q=%q", m.Mb[id].Name, m.Mb[id].Remote))
		}
		return one(vList(l, true))
	}
	var g *MMsg
	if len(o.Msgs) > 0 {
		g = m.Msg[o.Msgs[0]]
	}
	renderMsg := func(g *MMsg) string {
		return vMessage(g.ID, g.Remote, g.Date, g.Size, g.Body, g.Struct, g.Env, g.Deleted)
	}
	switch o.M {
	case "MessageExists":
		return one(fmt.Sprint(g != nil))
	case "MessageExistsWithRemoteID":
		return one(fmt.Sprint(m.msgByRemote(o.R) != nil))
	case "GetMessageNoEdges":
		if g == nil {
			return notFound
		}
		return one(renderMsg(g))
	case "GetTotalMessageCount":
		return one(fmt.Sprint(len(m.Msg)))
	case "GetMessageRemoteID":
		if g == nil {
			return notFound
		}
		return one(fmt.Sprintf("%q", g.Remote))
	case "GetImportedMessageData":
		if g == nil {
			return notFound
		}
		return one(renderMsg(g) + " [" + renderSet(g.Flags) + "]")
	case "GetMessageDateAndSize":
		if g == nil {
			return notFound
		}
		return one(fmt.Sprintf("d%d s%d", g.Date, g.Size))
	case "GetMessageMailboxIDs":
		var l []string
		for _, id := range m.mailboxesOf(o.Msgs[0]) {
			l = append(l, fmt.Sprint(id))
		}
		return one(vList(l, true))
	case "GetMessagesFlags":
		var l []string
		for _, id := range uniq(o.Msgs) {
			if x := m.Msg[id]; x != nil {
				l = append(l, fmt.Sprintf("%s %q [%s]", shortMsg(id), x.Remote, renderSet(x.Flags)))
			}
		}
		return one(vList(l, true))
	case "GetMessageIDsMarkedAsDelete":
		var l []string
		for id, x := range m.Msg {
			if x.Deleted {
				l = append(l, shortMsg(id))
			}
		}
		return one(vList(l, true))
	case "GetMessageIDFromRemoteID":
		if x := m.msgByRemote(o.R); x != nil {
			return one(shortMsg(x.ID))
		}
		return notFound
	case "GetMessageDeletedFlag":
		if g == nil {
			return notFound
		}
		return one(fmt.Sprint(g.Deleted))
	case "GetAllMessagesIDsAsMap":
		var l []string
		for id := range m.Msg {
			l = append(l, shortMsg(id))
		}
		return one(vList(l, true))
	case "GetDeletedSubscriptionSet":
		var l []string
		for _, s := range m.Subs {
			l = append(l, fmt.Sprintf("%q=%q", s.Remote, s.Name))
		}
		return one(vList(l, true))
	case "GetConnectorSettings":
		if m.Settings == nil {
			return one(`"" false`)
		}
		return one(fmt.Sprintf("%q true", *m.Settings))
	}
	panic("db08 model: unknown read operation " + o.M)
}
