package db08

// ops.go: cases as data — symbolic operations, their resolution to concrete arguments, the operation alphabet
// over the tiny argument domains, the seed states and the list-length cases.

import (
	"fmt"
	"sort"

	"github.com/ProtonMail/gluon/db"
)

// L is the statement batching limit of the implementation under test.
const L = db.ChunkLimit

const msgPrefix = "00000000-0000-4000-8000-"

// Op is a symbolic operation.
//
//	Mb  mailbox symbol for internal-id arguments: "A", "B" (the two seed mailboxes), "N" (the newest other
//	    mailbox of the model, if any) or "X" (an id that never exists)
//	R   remote mailbox / message id, N name or string value, Ms message symbols ("m1".."m5"; pool messages "p<i>")
//	Rng [from, n]: n consecutive pool messages starting at pool index from (list-length cases)
//	Cnt length of a generated list of remote mailbox ids / flags
type Op struct {
	M   string   `json:"m"`
	Mb  string   `json:"mb,omitempty"`
	R   string   `json:"r,omitempty"`
	N   string   `json:"n,omitempty"`
	Ms  []string `json:"ms,omitempty"`
	Rng *[2]int  `json:"rng,omitempty"`
	Cnt int      `json:"cnt,omitempty"`
	F   []string `json:"f,omitempty"`
	B   bool     `json:"b,omitempty"`
	U   uint32   `json:"u,omitempty"`
	V   string   `json:"v,omitempty"` // variant (e.g. "dupremote")
}

func (o Op) String() string {
	s := o.M + "("
	add := func(x string) {
		if s[len(s)-1] != '(' {
			s += " "
		}
		s += x
	}
	if o.Mb != "" {
		add("mb=" + o.Mb)
	}
	if o.R != "" {
		add("r=" + o.R)
	}
	if o.N != "" {
		add(fmt.Sprintf("n=%q", o.N))
	}
	if o.Ms != nil {
		add(fmt.Sprint(o.Ms))
	}
	if o.Rng != nil {
		add(fmt.Sprintf("pool[%d:+%d]", o.Rng[0], o.Rng[1]))
	}
	if o.Cnt != 0 {
		add(fmt.Sprintf("cnt=%d", o.Cnt))
	}
	if o.F != nil {
		add(fmt.Sprintf("flags=%q", o.F))
	}
	if o.B {
		add("true")
	}
	if o.U != 0 {
		add(fmt.Sprintf("u=%d", o.U))
	}
	if o.V != "" {
		add(o.V)
	}
	return s + ")"
}

// Tx is one call of Client.Write (or Client.Read if Read is set) executing Ops in order.
// Abort = j > 0: the callback returns an error after its j-th operation.
type Tx struct {
	Ops   []Op `json:"ops"`
	Abort int  `json:"abort,omitempty"`
	Read  bool `json:"read,omitempty"`
}

// Case: copy the seed database, run Prefix (every transaction compared), then run every Fan transaction from the
// state after the prefix (each on its own copy of that state).
type Case struct {
	Seed   string `json:"seed"`
	Prefix []Tx   `json:"prefix,omitempty"`
	Fan    []Tx   `json:"fan,omitempty"`
	// FanAll: the fan is the complete write alphabet, each operation in its own transaction:
	// "commit", "abort1" (aborted after the operation) or "" (use Fan).
	FanAll string `json:"fan_all,omitempty"`
	// FanPairs: for every operation o2 of the alphabet the transaction [FanFirst, o2] aborted after o2.
	FanFirst *Op `json:"fan_first,omitempty"`
}

func msgID(sym string) string {
	var k int
	switch sym[0] {
	case 'm':
		fmt.Sscanf(sym[1:], "%d", &k)
	case 'p':
		fmt.Sscanf(sym[1:], "%d", &k)
		k += 1000
	}
	return fmt.Sprintf("%s%012d", msgPrefix, k)
}

func msgRemoteDefault(sym string) string {
	if sym[0] == 'm' {
		return "r" + sym[1:]
	}
	return "q" + sym[1:]
}

func msgSymbols(o Op) []string {
	if o.Rng != nil {
		out := make([]string, 0, o.Rng[1])
		for i := 0; i < o.Rng[1]; i++ {
			out = append(out, fmt.Sprintf("p%d", o.Rng[0]+i))
		}
		return out
	}
	return o.Ms
}

const missingMb = 9999

// Handles binds the mailbox symbols A and B to the internal ids the seed got from the database.
type Handles map[string]uint64

func resolveMb(sym string, h Handles, m *Model) uint64 {
	switch sym {
	case "":
		return 0
	case "X":
		return missingMb
	case "N":
		var best uint64
		for id := range m.Mb {
			if id != h["A"] && id != h["B"] && id > best {
				best = id
			}
		}
		if best == 0 {
			return missingMb - 1
		}
		return best
	}
	if id, ok := h[sym]; ok {
		return id
	}
	return missingMb - 2
}

// Standard flag sets of a created mailbox.
var (
	newMbFlags = []string{`\Seen`, "kw"}
	newMbPerm  = []string{`\Seen`}
	newMbAttrs = []string{`\Noselect`}
)

// Resolve turns a symbolic operation into concrete arguments against the current model.
func Resolve(o Op, h Handles, m *Model) ROp {
	r := ROp{M: o.M, Mb: resolveMb(o.Mb, h, m), R: o.R, N: o.N, F: o.F, B: o.B, U: o.U}
	syms := msgSymbols(o)
	for _, s := range syms {
		r.Msgs = append(r.Msgs, msgID(s))
	}
	switch o.M {
	case "CreateMailbox", "GetOrCreateMailbox":
		r.F, r.F2, r.F3 = newMbFlags, newMbPerm, newMbAttrs
		if len(o.F) > 0 {
			r.F = o.F
		}
		if o.V == "noflags" {
			r.F, r.F2, r.F3 = nil, nil, nil
		}
	case "GetOrCreateMailboxAlt", "CreateMailboxIfNotExists":
		r.F, r.F2, r.F3 = newMbFlags, newMbPerm, newMbAttrs
		r.Parts, r.Delim = []string{o.N, "sub"}, "/"
		if o.V == "flat" {
			r.Parts = []string{o.N}
		}
	case "AddMessagesToMailbox", "MailboxFilterContains":
		for _, s := range syms {
			id := msgID(s)
			remote := msgRemoteDefault(s)
			if g := m.Msg[id]; g != nil {
				remote = g.Remote
			}
			r.Pairs = append(r.Pairs, [2]string{id, remote})
		}
	case "CreateMessages", "CreateMessageAndAddToMailbox":
		for i, s := range syms {
			var k int
			fmt.Sscanf(s[1:], "%d", &k)
			q := Req{ID: msgID(s), Remote: msgRemoteDefault(s), Flags: o.F, Date: 1700000000 + int64(k), Size: 100 + k,
				Body: "body-" + s, Struct: "struct-" + s, Envl: "env-" + s}
			if o.V == "dupremote" && i == len(syms)-1 {
				q.Remote = "r1"
			}
			if o.V == "altflags" && i%2 == 1 {
				q.Flags = []string{`\Seen`}
			}
			// attributes that differ between the elements of one list (a whole statement batch may have none)
			if (o.V == "headflags" && i != 0) || (o.V == "tailflags" && i != len(syms)-1) {
				q.Flags = nil
			}
			r.Reqs = append(r.Reqs, q)
		}
	case "MailboxTranslateRemoteIDs":
		// a list of Cnt distinct remote ids: the two seed mailboxes at the ends, unknown ids in between
		switch {
		case o.Cnt == 0 && o.V == "small":
			r.Rs = []string{"ra", "rb", "rc", "rz", "ra"}
		case o.Cnt == 1:
			r.Rs = []string{"ra"}
		case o.Cnt >= 2:
			r.Rs = append(r.Rs, "ra")
			for i := 0; i < o.Cnt-2; i++ {
				r.Rs = append(r.Rs, fmt.Sprintf("unknown-%d", i))
			}
			r.Rs = append(r.Rs, "rb")
		}
	case "AddFlagsToAllMailboxes", "AddPermFlagsToAllMailboxes":
		if o.Cnt > 0 {
			r.F = nil
			for i := 0; i < o.Cnt; i++ {
				r.F = append(r.F, fmt.Sprintf("gen%d", i))
			}
		}
	}
	return r
}

// IsRead reports whether the method belongs to db.ReadOnly.
func IsRead(method string) bool { return readSet[method] }

var ReadMethods = []string{
	"MailboxExistsWithID", "MailboxExistsWithRemoteID", "MailboxExistsWithName", "GetMailboxIDFromRemoteID", "GetMailboxName",
	"GetMailboxNameWithRemoteID", "GetMailboxMessageIDPairs", "GetAllMailboxesWithAttr", "GetAllMailboxesAsRemoteIDs",
	"GetMailboxByName", "GetMailboxByID", "GetMailboxByRemoteID", "GetMailboxRecentCount", "GetMailboxMessageCount",
	"GetMailboxMessageCountWithRemoteID", "GetMailboxFlags", "GetMailboxPermanentFlags", "GetMailboxAttributes", "GetMailboxUID",
	"GetMailboxMessageCountAndUID", "GetMailboxMessageForNewSnapshot", "MailboxTranslateRemoteIDs", "MailboxFilterContains",
	"GetMailboxCount", "GetAllMailboxesNameAndRemoteID",
	"MessageExists", "MessageExistsWithRemoteID", "GetMessageNoEdges", "GetTotalMessageCount", "GetMessageRemoteID",
	"GetImportedMessageData", "GetMessageDateAndSize", "GetMessageMailboxIDs", "GetMessagesFlags", "GetMessageIDsMarkedAsDelete",
	"GetMessageIDFromRemoteID", "GetMessageDeletedFlag", "GetAllMessagesIDsAsMap",
	"GetDeletedSubscriptionSet", "GetConnectorSettings",
}

var WriteMethods = []string{
	"CreateMailbox", "GetOrCreateMailbox", "GetOrCreateMailboxAlt", "RenameMailboxWithRemoteID", "DeleteMailboxWithRemoteID",
	"AddMessagesToMailbox", "RemoveMessagesFromMailbox", "ClearRecentFlagInMailboxOnMessage", "ClearRecentFlagsInMailbox",
	"CreateMailboxIfNotExists", "SetMailboxMessagesDeletedFlag", "SetMailboxSubscribed", "UpdateRemoteMailboxID",
	"SetMailboxUIDValidity", "AddFlagsToAllMailboxes", "AddPermFlagsToAllMailboxes",
	"CreateMessages", "CreateMessageAndAddToMailbox", "MarkMessageAsDeleted", "MarkMessageAsDeletedAndAssignRandomRemoteID",
	"MarkMessageAsDeletedWithRemoteID", "DeleteMessages", "UpdateRemoteMessageID", "AddFlagToMessages", "RemoveFlagFromMessages",
	"SetFlagsOnMessages",
	"AddDeletedSubscription", "RemoveDeletedSubscriptionWithName", "StoreConnectorSettings",
}

var readSet = func() map[string]bool {
	s := map[string]bool{}
	for _, m := range ReadMethods {
		s[m] = true
	}
	return s
}()

// Alphabet is the complete list of write-operation instances over the tiny argument domains:
// mailboxes A, B + missing (+ the newest created one), remote ids ra, rb + rc (free) , names A, B + C (free),
// messages m1..m3 + m4/m5 (missing, creatable), flags \Seen, kw, KW.
func Alphabet() []Op {
	var a []Op
	add := func(o ...Op) { a = append(a, o...) }
	for _, r := range []string{"ra", "rc"} {
		for _, n := range []string{"A", "C"} {
			add(Op{M: "CreateMailbox", R: r, N: n, U: 7})
			add(Op{M: "GetOrCreateMailbox", R: r, N: n, U: 8})
		}
		add(Op{M: "GetOrCreateMailboxAlt", R: r, N: "C", U: 9})
		add(Op{M: "CreateMailboxIfNotExists", R: r, N: "A", U: 10, V: "flat"})
	}
	add(Op{M: "CreateMailbox", R: "rc", N: "C", U: 7, F: []string{"KW"}})
	add(Op{M: "RenameMailboxWithRemoteID", R: "ra", N: "A"}, Op{M: "RenameMailboxWithRemoteID", R: "ra", N: "B"},
		Op{M: "RenameMailboxWithRemoteID", R: "ra", N: "C"}, Op{M: "RenameMailboxWithRemoteID", R: "rc", N: "C"})
	for _, r := range []string{"ra", "rb", "rc"} {
		add(Op{M: "DeleteMailboxWithRemoteID", R: r})
	}
	for _, mb := range []string{"A", "B", "N"} {
		for _, ms := range [][]string{{}, {"m1"}, {"m3"}, {"m2", "m3"}, {"m3", "m4"}, {"m3", "m3"}} {
			add(Op{M: "AddMessagesToMailbox", Mb: mb, Ms: ms})
		}
	}
	add(Op{M: "AddMessagesToMailbox", Mb: "X", Ms: []string{}}, Op{M: "AddMessagesToMailbox", Mb: "X", Ms: []string{"m1"}})
	for _, mb := range []string{"A", "B", "X"} {
		for _, ms := range [][]string{{}, {"m1"}, {"m1", "m2"}, {"m3", "m4"}} {
			add(Op{M: "RemoveMessagesFromMailbox", Mb: mb, Ms: ms})
		}
	}
	for _, mb := range []string{"A", "B", "X"} {
		for _, ms := range []string{"m1", "m3", "m4"} {
			if mb == "X" && ms != "m1" {
				continue
			}
			add(Op{M: "ClearRecentFlagInMailboxOnMessage", Mb: mb, Ms: []string{ms}})
		}
		add(Op{M: "ClearRecentFlagsInMailbox", Mb: mb})
	}
	for _, mb := range []string{"A", "B", "X"} {
		for _, ms := range [][]string{{}, {"m1"}, {"m1", "m2", "m4"}} {
			if mb == "X" && len(ms) != 1 {
				continue
			}
			add(Op{M: "SetMailboxMessagesDeletedFlag", Mb: mb, Ms: ms, B: true})
			if mb == "A" && len(ms) > 0 {
				add(Op{M: "SetMailboxMessagesDeletedFlag", Mb: mb, Ms: ms, B: false})
			}
		}
	}
	add(Op{M: "SetMailboxSubscribed", Mb: "A", B: false}, Op{M: "SetMailboxSubscribed", Mb: "B", B: true},
		Op{M: "SetMailboxSubscribed", Mb: "B", B: false}, Op{M: "SetMailboxSubscribed", Mb: "X", B: false})
	add(Op{M: "UpdateRemoteMailboxID", Mb: "A", R: "rc"}, Op{M: "UpdateRemoteMailboxID", Mb: "A", R: "rb"},
		Op{M: "UpdateRemoteMailboxID", Mb: "A", R: "ra"}, Op{M: "UpdateRemoteMailboxID", Mb: "X", R: "rc"})
	add(Op{M: "SetMailboxUIDValidity", Mb: "A", U: 77}, Op{M: "SetMailboxUIDValidity", Mb: "X", U: 77})
	for _, m := range []string{"AddFlagsToAllMailboxes", "AddPermFlagsToAllMailboxes"} {
		add(Op{M: m, F: []string{}}, Op{M: m, F: []string{"kw"}}, Op{M: m, F: []string{"KW", `\Seen`}})
	}
	add(Op{M: "CreateMessages", Ms: []string{}}, Op{M: "CreateMessages", Ms: []string{"m4"}, F: []string{"kw"}},
		Op{M: "CreateMessages", Ms: []string{"m4", "m5"}, F: []string{`\Seen`, "KW"}}, Op{M: "CreateMessages", Ms: []string{"m4", "m1"}},
		Op{M: "CreateMessages", Ms: []string{"m4", "m5"}, V: "dupremote"})
	add(Op{M: "CreateMessageAndAddToMailbox", Mb: "A", Ms: []string{"m4"}, F: []string{"kw", `\Seen`}},
		Op{M: "CreateMessageAndAddToMailbox", Mb: "B", Ms: []string{"m4"}},
		Op{M: "CreateMessageAndAddToMailbox", Mb: "A", Ms: []string{"m1"}},
		Op{M: "CreateMessageAndAddToMailbox", Mb: "X", Ms: []string{"m4"}})
	for _, ms := range []string{"m1", "m4"} {
		add(Op{M: "MarkMessageAsDeleted", Ms: []string{ms}}, Op{M: "MarkMessageAsDeletedAndAssignRandomRemoteID", Ms: []string{ms}})
	}
	add(Op{M: "MarkMessageAsDeletedWithRemoteID", R: "r2"}, Op{M: "MarkMessageAsDeletedWithRemoteID", R: "r4"})
	for _, ms := range [][]string{{}, {"m1"}, {"m3"}, {"m2", "m3", "m4"}} {
		add(Op{M: "DeleteMessages", Ms: ms})
	}
	add(Op{M: "UpdateRemoteMessageID", Ms: []string{"m1"}, R: "r9"}, Op{M: "UpdateRemoteMessageID", Ms: []string{"m1"}, R: "r2"},
		Op{M: "UpdateRemoteMessageID", Ms: []string{"m1"}, R: "r1"}, Op{M: "UpdateRemoteMessageID", Ms: []string{"m4"}, R: "r9"})
	for _, f := range []string{`\Seen`, "kw", "KW"} {
		for _, ms := range [][]string{{}, {"m1"}, {"m2", "m3"}, {"m1", "m4"}} {
			if len(ms) != 1 && f == `\Seen` {
				continue
			}
			add(Op{M: "AddFlagToMessages", Ms: ms, F: []string{f}}, Op{M: "RemoveFlagFromMessages", Ms: ms, F: []string{f}})
		}
	}
	for _, fl := range [][]string{{}, {"kw"}, {`\Seen`, "KW"}} {
		for _, ms := range [][]string{{}, {"m1"}, {"m1", "m2", "m3"}, {"m1", "m4"}} {
			if len(ms) == 0 && len(fl) != 1 {
				continue
			}
			add(Op{M: "SetFlagsOnMessages", Ms: ms, F: fl})
		}
	}
	add(Op{M: "AddDeletedSubscription", N: "A", R: "ra"}, Op{M: "AddDeletedSubscription", N: "Z", R: "rz"},
		Op{M: "AddDeletedSubscription", N: "Z", R: "ra"}, Op{M: "AddDeletedSubscription", N: "Y", R: "rz"})
	add(Op{M: "RemoveDeletedSubscriptionWithName", N: "A"}, Op{M: "RemoveDeletedSubscriptionWithName", N: "Z"})
	add(Op{M: "StoreConnectorSettings", N: "s1"}, Op{M: "StoreConnectorSettings", N: ""})
	return a
}

// Seeds: every seed state is itself an operation sequence from the freshly initialised database.
var seedBasic = []Op{
	{M: "CreateMailbox", R: "ra", N: "A", U: 1, F: []string{`\Seen`, "kw"}},
	{M: "CreateMailbox", R: "rb", N: "B", U: 2, V: "noflags"},
	{M: "CreateMessages", Ms: []string{"m1"}, F: []string{`\Seen`}},
	{M: "CreateMessages", Ms: []string{"m2"}, F: []string{"kw"}},
	{M: "CreateMessages", Ms: []string{"m3"}},
	{M: "AddMessagesToMailbox", Mb: "A", Ms: []string{"m1", "m2"}},
	{M: "AddMessagesToMailbox", Mb: "B", Ms: []string{"m1"}},
}

func seedOps(name string) []Op {
	cat := func(a []Op, b ...Op) []Op { return append(append([]Op(nil), a...), b...) }
	switch name {
	case "empty":
		return nil
	case "basic":
		return seedBasic
	case "worn":
		return cat(seedBasic,
			Op{M: "SetMailboxMessagesDeletedFlag", Mb: "A", Ms: []string{"m1"}, B: true},
			Op{M: "ClearRecentFlagInMailboxOnMessage", Mb: "A", Ms: []string{"m1"}},
			Op{M: "RemoveMessagesFromMailbox", Mb: "A", Ms: []string{"m2"}},
			Op{M: "AddMessagesToMailbox", Mb: "B", Ms: []string{"m3"}},
			Op{M: "SetMailboxSubscribed", Mb: "B", B: false},
			Op{M: "MarkMessageAsDeleted", Ms: []string{"m2"}},
			Op{M: "AddDeletedSubscription", N: "Z", R: "rz"},
			Op{M: "StoreConnectorSettings", N: "s0"},
			Op{M: "AddFlagToMessages", Ms: []string{"m3"}, F: []string{"KW"}},
		)
	case "afterdelete":
		return cat(seedBasic,
			Op{M: "DeleteMailboxWithRemoteID", R: "rb"},
			Op{M: "AddFlagToMessages", Ms: []string{"m1"}, F: []string{"kw"}},
			Op{M: "RemoveMessagesFromMailbox", Mb: "A", Ms: []string{"m1", "m2"}},
			Op{M: "ClearRecentFlagsInMailbox", Mb: "A"},
		)
	case "big":
		// pool X = p0 .. p(2L) in mailbox A (flag kw, every second one \Seen too), pool Y = p(2L+1) .. p(4L+1)
		// in no mailbox, pool Z = p(4L+2) .. never created.
		return []Op{
			{M: "CreateMailbox", R: "ra", N: "A", U: 1},
			{M: "CreateMailbox", R: "rb", N: "B", U: 2},
			{M: "CreateMessages", Rng: &[2]int{0, 4*L + 2}, F: []string{"kw"}, V: "altflags"},
			{M: "AddMessagesToMailbox", Mb: "A", Rng: &[2]int{0, 2*L + 1}},
		}
	}
	return nil
}

var SmallSeeds = []string{"empty", "basic", "worn", "afterdelete"}

// Lengths are the list lengths around the batching limit.
func Lengths() []int {
	l := []int{0, 1, 2, L/2 - 1, L / 2, L/2 + 1, L - 1, L, L + 1, 2*L - 1, 2 * L, 2*L + 1}
	sort.Ints(l)
	return l
}

// BigOps are the operations with a list-valued argument, instantiated at list length n on the big seed.
func BigOps(n int, thorough bool) []Op {
	X := func(n int) *[2]int { return &[2]int{0, n} }
	Y := func(n int) *[2]int { return &[2]int{2*L + 1, n} }
	Z := func(n int) *[2]int { return &[2]int{4*L + 2, n} }
	ops := []Op{
		{M: "AddMessagesToMailbox", Mb: "B", Rng: X(n)},
		{M: "RemoveMessagesFromMailbox", Mb: "A", Rng: X(n)},
		{M: "SetMailboxMessagesDeletedFlag", Mb: "A", Rng: X(n), B: true},
		{M: "CreateMessages", Rng: Z(n), F: []string{"kw", `\Seen`}},
		{M: "CreateMessages", Rng: Z(n)},
		{M: "CreateMessages", Rng: Z(n), F: []string{"kw"}, V: "headflags"},
		{M: "CreateMessages", Rng: Z(n), F: []string{"kw"}, V: "tailflags"},
		{M: "AddFlagToMessages", Rng: X(n), F: []string{`\Seen`}},      // every second message has it already
		{M: "RemoveFlagFromMessages", Rng: X(n), F: []string{`\Seen`}}, // every second message does not have it
		{M: "DeleteMessages", Rng: Y(n)},
		{M: "AddFlagToMessages", Rng: X(n), F: []string{"added"}},
		{M: "RemoveFlagFromMessages", Rng: X(n), F: []string{"kw"}},
		{M: "SetFlagsOnMessages", Rng: X(n), F: []string{"set"}},
		{M: "GetMessagesFlags", Rng: X(n)},
		{M: "MailboxFilterContains", Mb: "A", Rng: &[2]int{2*L + 1 - n/2, n}}, // straddles X (in A) and Y (not in A)
		{M: "MailboxTranslateRemoteIDs", Cnt: n},
		{M: "AddFlagsToAllMailboxes", Cnt: n},
		{M: "AddPermFlagsToAllMailboxes", Cnt: n},
	}
	if n == 0 {
		for i := range ops {
			switch ops[i].M {
			case "GetMessagesFlags":
				ops[i].Ms, ops[i].Rng = []string{}, nil
			case "MailboxTranslateRemoteIDs":
				ops[i].V = "empty"
			case "AddFlagsToAllMailboxes", "AddPermFlagsToAllMailboxes":
				ops[i].F = []string{}
			}
		}
	}
	if thorough && n > 0 {
		ops = append(ops,
			Op{M: "RemoveMessagesFromMailbox", Mb: "A", Rng: &[2]int{1, n}},
			Op{M: "SetFlagsOnMessages", Rng: Y(n), F: []string{`\Seen`, "kw", "third"}},
			Op{M: "AddFlagToMessages", Rng: Y(n), F: []string{"KW"}},
			Op{M: "DeleteMessages", Rng: &[2]int{2*L + 1 + 1, n}},
			Op{M: "SetMailboxMessagesDeletedFlag", Mb: "A", Rng: &[2]int{1, n}, B: true},
			Op{M: "GetMessagesFlags", Rng: Y(n)},
		)
	}
	return ops
}
