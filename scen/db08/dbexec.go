package db08

// dbexec.go: the adapter that executes a concrete operation on the REAL index through the public db interface and
// renders the result in the neutral form shared with the model.

import (
	"context"
	"errors"
	"fmt"
	"os"
	"reflect"
	"sort"
	"time"

	"github.com/ProtonMail/gluon/db"
	"github.com/ProtonMail/gluon/imap"
)

func mid(s string) imap.InternalMessageID {
	id, err := imap.InternalMessageIDFromString(s)
	if err != nil {
		panic(err)
	}
	return id
}

func mids(l []string) []imap.InternalMessageID {
	out := make([]imap.InternalMessageID, 0, len(l))
	for _, s := range l {
		out = append(out, mid(s))
	}
	return out
}

func pairsOf(l [][2]string) []db.MessageIDPair {
	out := make([]db.MessageIDPair, 0, len(l))
	for _, p := range l {
		out = append(out, db.MessageIDPair{InternalID: mid(p[0]), RemoteID: imap.MessageID(p[1])})
	}
	return out
}

func reqOf(q Req) *db.CreateMessageReq {
	return &db.CreateMessageReq{
		Message:     imap.Message{ID: imap.MessageID(q.Remote), Flags: imap.NewFlagSet(q.Flags...), Date: time.Unix(q.Date, 0).UTC()},
		InternalID:  mid(q.ID),
		LiteralSize: q.Size,
		Body:        q.Body,
		Structure:   q.Struct,
		Envelope:    q.Envl,
	}
}

func flagSetString(fs imap.FlagSet) string {
	keys := make([]string, 0, len(fs))
	for _, v := range fs {
		keys = append(keys, flagKey(v))
	}
	sort.Strings(keys)
	keys = uniq(keys)
	s := ""
	for i, k := range keys {
		if i > 0 {
			s += " "
		}
		s += k
	}
	return s
}

func dbMailbox(b *db.Mailbox) string {
	if b == nil {
		return "<nil mailbox>"
	}
	return vMailbox(uint64(b.ID), string(b.RemoteID), b.Name, uint32(b.UIDValidity), b.Subscribed)
}

func dbMessage(g *db.Message) string {
	return vMessage(g.ID.String(), normRemote(string(g.RemoteID)), g.Date.Unix(), g.Size, g.Body, g.BodyStructure, g.Envelope, g.Deleted)
}

func classify(err error) Res {
	if err == nil {
		return Res{Class: "ok"}
	}
	if errors.Is(err, db.ErrNotFound) {
		return Res{Class: "notfound", Err: err.Error()}
	}
	return Res{Class: "err", Err: err.Error()}
}

func result(val string, err error) Res {
	r := classify(err)
	if r.Class == "ok" {
		r.Val = val
	}
	return r
}

func recovered(r *Res) {
	if v := recover(); v != nil {
		*r = Res{Class: "panic", Err: fmt.Sprint(v)}
	}
}

// Exec runs a write operation.
func Exec(ctx context.Context, tx db.Transaction, o ROp) (res Res) {
	defer recovered(&res)
	mb := imap.InternalMailboxID(o.Mb)
	mbRes := func(b *db.Mailbox, err error) Res {
		r := classify(err)
		if r.Class == "ok" {
			r.Val = dbMailbox(b)
			if b != nil {
				r.NewMb = uint64(b.ID)
			}
		}
		return r
	}
	switch o.M {
	case "CreateMailbox":
		return mbRes(tx.CreateMailbox(ctx, imap.MailboxID(o.R), o.N, imap.NewFlagSet(o.F...), imap.NewFlagSet(o.F2...), imap.NewFlagSet(o.F3...), imap.UID(o.U)))
	case "GetOrCreateMailbox":
		return mbRes(tx.GetOrCreateMailbox(ctx, imap.MailboxID(o.R), o.N, imap.NewFlagSet(o.F...), imap.NewFlagSet(o.F2...), imap.NewFlagSet(o.F3...), imap.UID(o.U)))
	case "GetOrCreateMailboxAlt":
		return mbRes(tx.GetOrCreateMailboxAlt(ctx, imap.Mailbox{ID: imap.MailboxID(o.R), Name: o.Parts, Flags: imap.NewFlagSet(o.F...), PermanentFlags: imap.NewFlagSet(o.F2...), Attributes: imap.NewFlagSet(o.F3...)}, o.Delim, imap.UID(o.U)))
	case "CreateMailboxIfNotExists":
		err := tx.CreateMailboxIfNotExists(ctx, imap.Mailbox{ID: imap.MailboxID(o.R), Name: o.Parts, Flags: imap.NewFlagSet(o.F...), PermanentFlags: imap.NewFlagSet(o.F2...), Attributes: imap.NewFlagSet(o.F3...)}, o.Delim, imap.UID(o.U))
		r := classify(err)
		if r.Class == "ok" {
			// learn the id of a mailbox this call may have created
			if b, err := tx.GetMailboxByRemoteID(ctx, imap.MailboxID(o.R)); err == nil && b != nil {
				r.NewMb = uint64(b.ID)
			}
		}
		return r
	case "RenameMailboxWithRemoteID":
		return classify(tx.RenameMailboxWithRemoteID(ctx, imap.MailboxID(o.R), o.N))
	case "DeleteMailboxWithRemoteID":
		return classify(tx.DeleteMailboxWithRemoteID(ctx, imap.MailboxID(o.R)))
	case "AddMessagesToMailbox":
		rows, err := tx.AddMessagesToMailbox(ctx, mb, pairsOf(o.Pairs))
		var l []string
		for _, r := range rows {
			l = append(l, vRow(uint32(r.UID), r.InternalID.String(), normRemote(string(r.RemoteID)), r.Recent, r.Deleted, flagSetString(flagsNoSystem(r.GetFlagSet()))))
		}
		return result(vList(l, true), err)
	case "RemoveMessagesFromMailbox":
		return classify(tx.RemoveMessagesFromMailbox(ctx, mb, mids(o.Msgs)))
	case "ClearRecentFlagInMailboxOnMessage":
		return classify(tx.ClearRecentFlagInMailboxOnMessage(ctx, mb, mid(o.Msgs[0])))
	case "ClearRecentFlagsInMailbox":
		return classify(tx.ClearRecentFlagsInMailbox(ctx, mb))
	case "SetMailboxMessagesDeletedFlag":
		return classify(tx.SetMailboxMessagesDeletedFlag(ctx, mb, mids(o.Msgs), o.B))
	case "SetMailboxSubscribed":
		return classify(tx.SetMailboxSubscribed(ctx, mb, o.B))
	case "UpdateRemoteMailboxID":
		return classify(tx.UpdateRemoteMailboxID(ctx, mb, imap.MailboxID(o.R)))
	case "SetMailboxUIDValidity":
		return classify(tx.SetMailboxUIDValidity(ctx, mb, imap.UID(o.U)))
	case "AddFlagsToAllMailboxes":
		return classify(tx.AddFlagsToAllMailboxes(ctx, o.F...))
	case "AddPermFlagsToAllMailboxes":
		return classify(tx.AddPermFlagsToAllMailboxes(ctx, o.F...))
	case "CreateMessages":
		reqs := make([]*db.CreateMessageReq, 0, len(o.Reqs))
		for _, q := range o.Reqs {
			reqs = append(reqs, reqOf(q))
		}
		return classify(tx.CreateMessages(ctx, reqs...))
	case "CreateMessageAndAddToMailbox":
		uid, flags, err := tx.CreateMessageAndAddToMailbox(ctx, mb, reqOf(o.Reqs[0]))
		return result(fmt.Sprintf("u%d [%s]", uid, flagSetString(flags)), err)
	case "MarkMessageAsDeleted":
		return classify(tx.MarkMessageAsDeleted(ctx, mid(o.Msgs[0])))
	case "MarkMessageAsDeletedAndAssignRandomRemoteID":
		return classify(tx.MarkMessageAsDeletedAndAssignRandomRemoteID(ctx, mid(o.Msgs[0])))
	case "MarkMessageAsDeletedWithRemoteID":
		return classify(tx.MarkMessageAsDeletedWithRemoteID(ctx, imap.MessageID(o.R)))
	case "DeleteMessages":
		return classify(tx.DeleteMessages(ctx, mids(o.Msgs)))
	case "UpdateRemoteMessageID":
		return classify(tx.UpdateRemoteMessageID(ctx, mid(o.Msgs[0]), imap.MessageID(o.R)))
	case "AddFlagToMessages":
		return classify(tx.AddFlagToMessages(ctx, mids(o.Msgs), o.F[0]))
	case "RemoveFlagFromMessages":
		return classify(tx.RemoveFlagFromMessages(ctx, mids(o.Msgs), o.F[0]))
	case "SetFlagsOnMessages":
		return classify(tx.SetFlagsOnMessages(ctx, mids(o.Msgs), imap.NewFlagSet(o.F...)))
	case "AddDeletedSubscription":
		return classify(tx.AddDeletedSubscription(ctx, o.N, imap.MailboxID(o.R)))
	case "RemoveDeletedSubscriptionWithName":
		n, err := tx.RemoveDeletedSubscriptionWithName(ctx, o.N)
		return result(fmt.Sprint(n), err)
	case "StoreConnectorSettings":
		return classify(tx.StoreConnectorSettings(ctx, o.N))
	}
	panic("db08: unknown write operation " + o.M)
}

// flagsNoSystem removes the \Recent / \Deleted markers GetFlagSet folds in (they are rendered separately).
func flagsNoSystem(fs imap.FlagSet) imap.FlagSet {
	return fs.Remove(imap.FlagRecent, imap.FlagDeleted)
}

// Query runs a read operation.
func Query(ctx context.Context, rd db.ReadOnly, o ROp) (res Res) {
	defer recovered(&res)
	mb := imap.InternalMailboxID(o.Mb)
	var m0 imap.InternalMessageID
	if len(o.Msgs) > 0 {
		m0 = mid(o.Msgs[0])
	}
	boolRes := func(b bool, err error) Res { return result(fmt.Sprint(b), err) }
	intRes := func(n int, err error) Res { return result(fmt.Sprint(n), err) }
	strRes := func(s string, err error) Res { return result(fmt.Sprintf("%q", s), err) }
	mbRes := func(b *db.Mailbox, err error) Res {
		if err != nil {
			return classify(err)
		}
		return result(dbMailbox(b), nil)
	}
	flagRes := func(fs imap.FlagSet, err error) Res { return result(flagSetString(fs), err) }
	switch o.M {
	case "MailboxExistsWithID":
		return boolRes(rd.MailboxExistsWithID(ctx, mb))
	case "MailboxExistsWithRemoteID":
		return boolRes(rd.MailboxExistsWithRemoteID(ctx, imap.MailboxID(o.R)))
	case "MailboxExistsWithName":
		return boolRes(rd.MailboxExistsWithName(ctx, o.N))
	case "GetMailboxIDFromRemoteID":
		id, err := rd.GetMailboxIDFromRemoteID(ctx, imap.MailboxID(o.R))
		return result(fmt.Sprint(uint64(id)), err)
	case "GetMailboxName":
		return strRes(rd.GetMailboxName(ctx, mb))
	case "GetMailboxNameWithRemoteID":
		return strRes(rd.GetMailboxNameWithRemoteID(ctx, imap.MailboxID(o.R)))
	case "GetMailboxMessageIDPairs":
		ps, err := rd.GetMailboxMessageIDPairs(ctx, mb)
		var l []string
		for _, p := range ps {
			l = append(l, vPair(p.InternalID.String(), normRemote(string(p.RemoteID))))
		}
		return result(vList(l, true), err)
	case "GetAllMailboxesWithAttr":
		bs, err := rd.GetAllMailboxesWithAttr(ctx)
		var l []string
		for _, b := range bs {
			l = append(l, dbMailbox(&b.Mailbox)+" attrs["+flagSetString(b.Attributes)+"]")
		}
		return result(vList(l, true), err)
	case "GetAllMailboxesAsRemoteIDs":
		ids, err := rd.GetAllMailboxesAsRemoteIDs(ctx)
		var l []string
		for _, id := range ids {
			l = append(l, string(id))
		}
		return result(vList(l, true), err)
	case "GetMailboxByName":
		return mbRes(rd.GetMailboxByName(ctx, o.N))
	case "GetMailboxByID":
		return mbRes(rd.GetMailboxByID(ctx, mb))
	case "GetMailboxByRemoteID":
		return mbRes(rd.GetMailboxByRemoteID(ctx, imap.MailboxID(o.R)))
	case "GetMailboxRecentCount":
		return intRes(rd.GetMailboxRecentCount(ctx, mb))
	case "GetMailboxMessageCount":
		return intRes(rd.GetMailboxMessageCount(ctx, mb))
	case "GetMailboxMessageCountWithRemoteID":
		return intRes(rd.GetMailboxMessageCountWithRemoteID(ctx, imap.MailboxID(o.R)))
	case "GetMailboxFlags":
		return flagRes(rd.GetMailboxFlags(ctx, mb))
	case "GetMailboxPermanentFlags":
		return flagRes(rd.GetMailboxPermanentFlags(ctx, mb))
	case "GetMailboxAttributes":
		return flagRes(rd.GetMailboxAttributes(ctx, mb))
	case "GetMailboxUID":
		uid, err := rd.GetMailboxUID(ctx, mb)
		return result(fmt.Sprint(uint32(uid)), err)
	case "GetMailboxMessageCountAndUID":
		n, uid, err := rd.GetMailboxMessageCountAndUID(ctx, mb)
		return result(fmt.Sprintf("%d %d", n, uint32(uid)), err)
	case "GetMailboxMessageForNewSnapshot":
		rows, err := rd.GetMailboxMessageForNewSnapshot(ctx, mb)
		var l []string
		for _, r := range rows {
			l = append(l, vRow(uint32(r.UID), r.InternalID.String(), normRemote(string(r.RemoteID)), r.Recent, r.Deleted, flagSetString(flagsNoSystem(r.GetFlagSet()))))
		}
		return result(vList(l, false), err)
	case "MailboxTranslateRemoteIDs":
		in := make([]imap.MailboxID, 0, len(o.Rs))
		for _, r := range o.Rs {
			in = append(in, imap.MailboxID(r))
		}
		ids, err := rd.MailboxTranslateRemoteIDs(ctx, in)
		var l []string
		for _, id := range ids {
			l = append(l, fmt.Sprint(uint64(id)))
		}
		return result(vList(uniq(l), true), err)
	case "MailboxFilterContains":
		ids, err := rd.MailboxFilterContains(ctx, mb, pairsOf(o.Pairs))
		var l []string
		for _, id := range ids {
			l = append(l, shortMsg(id.String()))
		}
		return result(vList(uniq(l), true), err)
	case "GetMailboxCount":
		return intRes(rd.GetMailboxCount(ctx))
	case "GetAllMailboxesNameAndRemoteID":
		xs, err := rd.GetAllMailboxesNameAndRemoteID(ctx)
		var l []string
		for _, x := range xs {
			l = append(l, fmt.Sprintf("%q=%q", x.Name, string(x.RemoteID)))
		}
		return result(vList(l, true), err)
	case "MessageExists":
		return boolRes(rd.MessageExists(ctx, m0))
	case "MessageExistsWithRemoteID":
		return boolRes(rd.MessageExistsWithRemoteID(ctx, imap.MessageID(o.R)))
	case "GetMessageNoEdges":
		g, err := rd.GetMessageNoEdges(ctx, m0)
		if err != nil {
			return classify(err)
		}
		return result(dbMessage(g), nil)
	case "GetTotalMessageCount":
		return intRes(rd.GetTotalMessageCount(ctx))
	case "GetMessageRemoteID":
		id, err := rd.GetMessageRemoteID(ctx, m0)
		return strRes(normRemote(string(id)), err)
	case "GetImportedMessageData":
		g, err := rd.GetImportedMessageData(ctx, m0)
		if err != nil {
			return classify(err)
		}
		return result(dbMessage(&g.Message)+" ["+flagSetString(g.Flags)+"]", nil)
	case "GetMessageDateAndSize":
		d, s, err := rd.GetMessageDateAndSize(ctx, m0)
		return result(fmt.Sprintf("d%d s%d", d.Unix(), s), err)
	case "GetMessageMailboxIDs":
		ids, err := rd.GetMessageMailboxIDs(ctx, m0)
		var l []string
		for _, id := range ids {
			l = append(l, fmt.Sprint(uint64(id)))
		}
		return result(vList(l, true), err)
	case "GetMessagesFlags":
		xs, err := rd.GetMessagesFlags(ctx, mids(o.Msgs))
		var l []string
		for _, x := range xs {
			l = append(l, fmt.Sprintf("%s %q [%s]", shortMsg(x.ID.String()), normRemote(string(x.RemoteID)), flagSetString(x.FlagSet)))
		}
		return result(vList(uniq(l), true), err)
	case "GetMessageIDsMarkedAsDelete":
		ids, err := rd.GetMessageIDsMarkedAsDelete(ctx)
		var l []string
		for _, id := range ids {
			l = append(l, shortMsg(id.String()))
		}
		return result(vList(l, true), err)
	case "GetMessageIDFromRemoteID":
		id, err := rd.GetMessageIDFromRemoteID(ctx, imap.MessageID(o.R))
		return result(shortMsg(id.String()), err)
	case "GetMessageDeletedFlag":
		return boolRes(rd.GetMessageDeletedFlag(ctx, m0))
	case "GetAllMessagesIDsAsMap":
		ids, err := rd.GetAllMessagesIDsAsMap(ctx)
		var l []string
		for id := range ids {
			l = append(l, shortMsg(id.String()))
		}
		return result(vList(l, true), err)
	case "GetDeletedSubscriptionSet":
		subs, err := rd.GetDeletedSubscriptionSet(ctx)
		var l []string
		for k, s := range subs {
			if s == nil {
				l = append(l, fmt.Sprintf("%q=<nil>", string(k)))
				continue
			}
			if s.RemoteID != k {
				l = append(l, fmt.Sprintf("key %q holds remote id %q", string(k), string(s.RemoteID)))
				continue
			}
			l = append(l, fmt.Sprintf("%q=%q", string(k), s.Name))
		}
		return result(vList(l, true), err)
	case "GetConnectorSettings":
		v, has, err := rd.GetConnectorSettings(ctx)
		return result(fmt.Sprintf("%q %v", v, has), err)
	}
	panic("db08: unknown read operation " + o.M)
}

// checkInterface verifies that the dispatch tables cover exactly the methods of db.Transaction (which embeds
// db.ReadOnly): an interface change must not silently shrink the enumeration.
func checkInterface() error {
	known := map[string]bool{}
	for _, m := range ReadMethods {
		known[m] = true
	}
	for _, m := range WriteMethods {
		if known[m] {
			return fmt.Errorf("method %s listed twice", m)
		}
		known[m] = true
	}
	t := reflect.TypeOf((*db.Transaction)(nil)).Elem()
	for i := 0; i < t.NumMethod(); i++ {
		if !known[t.Method(i).Name] {
			// a method added to the interface after this harness was written: not a property violation; it is
			// reported (stderr, once per worker) so that the enumeration can be extended, and left out.
			fmt.Fprintf(os.Stderr, "C08: NOTE db.Transaction method %s is not covered by the harness\n", t.Method(i).Name)
			continue
		}
		delete(known, t.Method(i).Name)
	}
	for m := range known {
		return fmt.Errorf("C08 harness lists %s which db.Transaction does not have", m)
	}
	ro := reflect.TypeOf((*db.ReadOnly)(nil)).Elem()
	for i := 0; i < ro.NumMethod(); i++ {
		if !readSet[ro.Method(i).Name] {
			fmt.Fprintf(os.Stderr, "C08: NOTE db.ReadOnly method %s is not used in the read-back\n", ro.Method(i).Name)
		}
	}
	return nil
}
