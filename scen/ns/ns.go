// Package ns is the namespace scenario (C14): CREATE / DELETE / RENAME / SUBSCRIBE / UNSUBSCRIBE from two sessions
// and connector mailbox updates against a reference hierarchy model, with LIST / LSUB compared with an RFC 3501
// matcher on every distinct namespace.
package ns

import (
	"encoding/json"
	"fmt"
	"regexp"
	"sort"
	"strings"

	"verif/engine/explore"
	"verif/engine/vconn"
	"verif/engine/world"
)

type Params struct {
	Delim    string          `json:"delim"`
	Alphabet []explore.Event `json:"alphabet"` // names use "/" as placeholder for the delimiter
	Patterns []string        `json:"patterns"` // "/" is the delimiter placeholder
	Refs     []string        `json:"refs"`
}

type run struct {
	p      Params
	w      *world.World
	sess   []*world.Sess
	boxes  map[string]bool   // name -> subscribed
	remote map[string]string // connector-created: remote id -> name
	delSub map[string]bool
	// delSubID: remote id under which a deleted subscription was recorded (connector-created mailboxes only): gluon
	// keys deleted subscriptions by remote id, and the subscription is void once a mailbox of that id exists again
	delSubID map[string]string
	broken   string
	nconn    int
}

func init() { explore.Register("c14", New) }

const recoveryName = "Recovered Messages"

func New(raw json.RawMessage) (explore.Run, error) {
	var p Params
	if err := json.Unmarshal(raw, &p); err != nil {
		return nil, err
	}
	w, err := world.New(world.Config{Hold: false, Delim: p.Delim})
	if err != nil {
		return nil, err
	}
	r := &run{p: p, w: w, boxes: map[string]bool{"INBOX": true}, remote: map[string]string{}, delSub: map[string]bool{}, delSubID: map[string]string{}}
	for i := 0; i < 2; i++ {
		s, err := w.Connect()
		if err != nil {
			w.Close()
			return nil, err
		}
		if res := w.Login(s, 0); !res.OK() {
			w.Close()
			return nil, fmt.Errorf("login failed")
		}
		r.sess = append(r.sess, s)
	}
	return r, nil
}

func (r *run) Close()                   { r.w.Close() }
func (r *run) Enabled() []explore.Event { return r.p.Alphabet }

func (r *run) d(name string) string { return strings.ReplaceAll(name, "/", r.p.Delim) }

func quoteName(s string) string {
	return `"` + strings.ReplaceAll(strings.ReplaceAll(s, `\`, `\\`), `"`, `\"`) + `"`
}

func (r *run) superiors(name string) []string {
	parts := strings.Split(name, r.p.Delim)
	var out []string
	for i := 1; i < len(parts); i++ {
		out = append(out, strings.Join(parts[:i], r.p.Delim))
	}
	return out
}

// canonName: the top-level name INBOX is case-insensitive.
func (r *run) canonName(name string) string {
	parts := strings.Split(name, r.p.Delim)
	if strings.EqualFold(parts[0], "INBOX") {
		parts[0] = "INBOX"
	}
	return strings.Join(parts, r.p.Delim)
}

func (r *run) viol(clause, sig, msg string) explore.Violation {
	return explore.Violation{Prop: "C14", Clause: clause, Sig: sig, Msg: msg}
}

type expectation int

const (
	either expectation = iota
	mustOK
	mustNO
)

func (r *run) Step(ev explore.Event) []explore.Violation {
	var out []explore.Violation
	del := r.p.Delim
	switch ev.K {
	case "cmd":
		s := r.sess[ev.S]
		f := strings.SplitN(ev.A, "|", 3) // VERB|name[|name2]
		verb := strings.ToUpper(f[0])
		a1 := r.d(f[1])
		a2 := ""
		if len(f) > 2 {
			a2 = r.d(f[2])
		}
		cmd := verb + " " + quoteName(a1)
		if a2 != "" {
			cmd += " " + quoteName(a2)
		}
		res := s.C.Cmd(cmd)
		if res.Err != nil {
			r.broken = res.Err.Error()
			break
		}
		exp := either
		apply := func() {}
		isRecovery := func(n string) bool { return strings.HasPrefix(strings.ToLower(n), strings.ToLower(recoveryName)) }
		exists := func(n string) bool { _, ok := r.boxes[n]; return ok }
		switch verb {
		case "CREATE":
			n := r.canonName(strings.TrimRight(a1, del))
			switch {
			case n == "" || exists(n) || strings.HasPrefix(a1, del) || strings.Contains(a1, del+del) || isRecovery(a1):
				exp = mustNO
			default:
				exp = mustOK
				apply = func() {
					for _, sup := range r.superiors(n) {
						if !exists(sup) {
							r.boxes[sup] = true
							delete(r.delSub, sup)
						}
					}
					r.boxes[n] = true
					delete(r.delSub, n)
				}
			}
		case "DELETE":
			n := r.canonName(a1)
			switch {
			case n == "INBOX" || !exists(n) || isRecovery(n):
				exp = mustNO
			default:
				exp = mustOK
				apply = func() {
					if r.boxes[n] {
						r.delSub[n] = true
						for id, name := range r.remote {
							if name == n {
								r.delSubID[n] = id
							}
						}
					}
					delete(r.boxes, n)
				}
			}
		case "RENAME":
			o, n := r.canonName(a1), r.canonName(strings.TrimRight(a2, del))
			switch {
			case !exists(o) || exists(n) || isRecovery(o) || isRecovery(n):
				exp = mustNO
			case strings.HasPrefix(n, o+del):
				exp = either // renaming a mailbox into its own inferior: not decided here
				apply = func() { r.broken = "unmodelled rename into own inferior accepted" }
			case n == "" || strings.HasPrefix(n, del) || strings.Contains(n, del+del):
				exp = either
				apply = func() { r.broken = "unmodelled rename to malformed name accepted" }
			default:
				exp = mustOK
				apply = func() {
					for _, sup := range r.superiors(n) {
						if !exists(sup) {
							r.boxes[sup] = true
						}
					}
					if o == "INBOX" {
						r.boxes[n] = true
						return
					}
					moved := map[string]bool{}
					for name, sub := range r.boxes {
						if name == o || strings.HasPrefix(name, o+del) {
							moved[n+strings.TrimPrefix(name, o)] = sub
							delete(r.boxes, name)
						}
					}
					for name, sub := range moved {
						r.boxes[name] = sub
						delete(r.delSub, name) // a mailbox exists under this name again
					}
					// connector-created mailboxes keep their remote id under the new name
					for id, name := range r.remote {
						if name == o || strings.HasPrefix(name, o+del) {
							r.remote[id] = n + strings.TrimPrefix(name, o)
						}
					}
				}
			}
		case "SUBSCRIBE":
			n := r.canonName(a1)
			if !exists(n) {
				exp = mustNO
			} else {
				apply = func() {}
				r.boxes[n] = true // OK or NO(already subscribed): subscribed afterwards either way
				// OK, or NO because it is subscribed already: the listing comparison below decides
			}
		case "UNSUBSCRIBE":
			n := r.canonName(a1)
			switch {
			case exists(n):
				r.boxes[n] = false
				// OK, or NO because it is not subscribed: the listing comparison below decides
			case r.delSub[n]:
				exp = mustOK
				apply = func() { delete(r.delSub, n) }
			default:
				exp = mustNO
			}
		}
		switch {
		case exp == mustNO && res.OK():
			out = append(out, r.viol("accepted", verb, fmt.Sprintf("%s must be refused (model: %s) but was answered %q", cmd, r.render(), res.Tagged.Text)))
		case exp == mustOK && !res.OK():
			out = append(out, r.viol("refused", verb, fmt.Sprintf("%s must be accepted (model: %s) but was answered %q", cmd, r.render(), res.Tagged.Text)))
		case res.OK():
			apply()
		}
	case "conn":
		sp := *ev.Spec
		for i := range sp.Name {
			sp.Name[i] = strings.ReplaceAll(sp.Name[i], "/", r.p.Delim)
		}
		name := strings.Join(sp.Name, del)
		valid, effect := true, func() {}
		switch sp.Kind {
		case "MailboxCreated":
			if n, ok := r.remote[sp.Mbox]; ok {
				if _, still := r.boxes[n]; !still {
					delete(r.remote, sp.Mbox) // the mailbox of that id was deleted by a client meanwhile: the id is free again
				}
			}
			if _, ok := r.remote[sp.Mbox]; ok {
				effect = func() {} // duplicate: no-op
			} else if _, ok := r.boxes[r.canonName(name)]; ok {
				valid = false // name clash: not judged
			} else {
				effect = func() {
					r.boxes[r.canonName(name)] = true
					r.remote[sp.Mbox] = r.canonName(name)
					delete(r.delSub, name)
					for n, id := range r.delSubID {
						if id == sp.Mbox {
							delete(r.delSub, n) // the remote mailbox is back: its deleted subscription is void
							delete(r.delSubID, n)
						}
					}
				}
			}
		case "MailboxUpdated":
			old, ok := r.remote[sp.Mbox]
			if !ok {
				effect = func() {}
			} else if _, clash := r.boxes[r.canonName(name)]; clash && r.canonName(name) != old {
				valid = false
			} else if _, still := r.boxes[old]; !still {
				valid = false // the mailbox was renamed/deleted by a client meanwhile
			} else {
				effect = func() {
					sub := r.boxes[old]
					delete(r.boxes, old)
					r.boxes[r.canonName(name)] = sub
					r.remote[sp.Mbox] = r.canonName(name)
				}
			}
		case "MailboxDeleted":
			old, ok := r.remote[sp.Mbox]
			if _, still := r.boxes[old]; ok && still {
				effect = func() { delete(r.boxes, old); delete(r.remote, sp.Mbox); delete(r.delSub, old) }
			} else if ok {
				valid = false
			}
		}
		res := r.w.Inject(0, sp)
		if !res.Done {
			out = append(out, r.viol("ack", sp.Kind, "update never acknowledged: "+sp.String()))
		} else if valid && res.Err != "" {
			out = append(out, r.viol("valid-update-failed", sp.Kind, fmt.Sprintf("%s failed: %s", sp.String(), res.Err)))
		} else if valid {
			effect()
		} else if res.Err == "" {
			r.broken = "" // an update outside the model was accepted: resynchronise below
			r.resync()
			// the remote-id table follows what the update says, and forgets ids whose mailbox is gone
			switch sp.Kind {
			case "MailboxDeleted":
				delete(r.remote, sp.Mbox)
			case "MailboxCreated", "MailboxUpdated":
				if _, ok := r.boxes[r.canonName(name)]; ok {
					r.remote[sp.Mbox] = r.canonName(name)
				}
			}
			for id, n := range r.remote {
				if _, ok := r.boxes[n]; !ok {
					delete(r.remote, id)
				}
			}
		}
	}
	for _, s := range r.sess {
		_ = r.w.Barrier(s)
	}
	if r.broken == "" {
		out = append(out, r.compareNames(ev)...)
	}
	if r.broken != "" {
		out = append(out, explore.Violation{Prop: "ENGINE", Clause: "engine", Sig: "broken", Msg: r.broken})
	}
	return out
}

// resync adopts the server's namespace after an update outside the model (name clash etc.).
func (r *run) resync() {
	names, subs, err := r.serverNames()
	if err != nil {
		r.broken = err.Error()
		return
	}
	r.boxes = map[string]bool{}
	for _, n := range names {
		r.boxes[n] = subs[n]
	}
}

var listRe = regexp.MustCompile(`^\* (LIST|LSUB) \(([^)]*)\) ("(?:\\.|[^"\\])*"|NIL) (.+)$`)

func unq(s string) string {
	if len(s) >= 2 && s[0] == '"' && s[len(s)-1] == '"' {
		s = s[1 : len(s)-1]
		s = strings.ReplaceAll(s, `\"`, `"`)
		s = strings.ReplaceAll(s, `\\`, `\`)
	}
	return s
}

type listRow struct {
	Name     string
	NoSelect bool
}

func (r *run) list(s *world.Sess, verb, ref, pattern string) ([]listRow, string, error) {
	res := s.C.Cmd(verb + " " + quoteName(ref) + " " + quoteName(pattern))
	if res.Err != nil {
		return nil, "", res.Err
	}
	var rows []listRow
	for _, u := range res.Untagged {
		m := listRe.FindStringSubmatch(u.Text)
		if m == nil {
			// literal names: Text ends with {n}~
			if len(u.Lits) > 0 && (strings.HasPrefix(u.Text, "* LIST") || strings.HasPrefix(u.Text, "* LSUB")) {
				rows = append(rows, listRow{Name: string(u.Lits[len(u.Lits)-1]), NoSelect: strings.Contains(strings.ToLower(u.Text), `\noselect`)})
			}
			continue
		}
		rows = append(rows, listRow{Name: unq(m[4]), NoSelect: strings.Contains(strings.ToLower(m[2]), `\noselect`)})
	}
	return rows, res.Status, nil
}

// serverNames returns the existing (selectable) names and their subscription state as the server lists them.
func (r *run) serverNames() ([]string, map[string]bool, error) {
	rows, st, err := r.list(r.sess[0], "LIST", "", "*")
	if err != nil || st != "OK" {
		return nil, nil, fmt.Errorf("LIST * failed: %v %v", st, err)
	}
	subs := map[string]bool{}
	srows, st, err := r.list(r.sess[0], "LSUB", "", "*")
	if err != nil || st != "OK" {
		return nil, nil, fmt.Errorf("LSUB * failed: %v %v", st, err)
	}
	for _, x := range srows {
		if !x.NoSelect {
			subs[x.Name] = true
		}
	}
	var names []string
	for _, x := range rows {
		if !x.NoSelect {
			names = append(names, x.Name)
		}
	}
	sort.Strings(names)
	return names, subs, nil
}

func (r *run) render() string {
	var n []string
	for name, sub := range r.boxes {
		if sub {
			n = append(n, name+"+")
		} else {
			n = append(n, name)
		}
	}
	sort.Strings(n)
	var d []string
	for name := range r.delSub {
		d = append(d, name)
	}
	sort.Strings(d)
	return fmt.Sprintf("%v delsub%v", n, d)
}

func (r *run) compareNames(ev explore.Event) []explore.Violation {
	names, subs, err := r.serverNames()
	if err != nil {
		r.broken = err.Error()
		return nil
	}
	var got []string
	for _, n := range names {
		if subs[n] {
			got = append(got, n+"+")
		} else {
			got = append(got, n)
		}
	}
	var want []string
	for name, sub := range r.boxes {
		if sub {
			want = append(want, name+"+")
		} else {
			want = append(want, name)
		}
	}
	sort.Strings(got)
	sort.Strings(want)
	if strings.Join(got, "|") != strings.Join(want, "|") {
		kind := ev.K
		if ev.K == "cmd" {
			kind = strings.ToUpper(strings.SplitN(ev.A, "|", 2)[0])
		} else if ev.Spec != nil {
			kind = ev.Spec.Kind
		}
		return []explore.Violation{r.viol("namespace", kind, fmt.Sprintf("after %s the server has mailboxes %v (+ = subscribed), the model says %v", ev, got, want))}
	}
	return nil
}

func (r *run) Canon() string {
	names, subs, err := r.serverNames()
	if err != nil {
		return "ERR " + err.Error()
	}
	var b strings.Builder
	for _, n := range names {
		fmt.Fprintf(&b, "%s:%v;", n, subs[n])
	}
	var rm []string
	for id, n := range r.remote {
		rm = append(rm, id+"="+n)
	}
	sort.Strings(rm)
	var ds []string
	for n, id := range r.delSubID {
		if r.delSub[n] {
			ds = append(ds, n+"@"+id)
		}
	}
	sort.Strings(ds)
	return fmt.Sprintf("%s | model %s | remote %v | delsub-ids %v", b.String(), r.render(), rm, ds)
}

// ---------------------------------------------------------------------------------------------------------------
// RFC 3501 LIST / LSUB matcher.

func (r *run) patternRe(refPattern string) *regexp.Regexp {
	var b strings.Builder
	b.WriteString("^")
	// the first hierarchy level INBOX is case-insensitive
	p := refPattern
	if first := strings.SplitN(p, r.p.Delim, 2)[0]; strings.EqualFold(first, "INBOX") {
		p = "INBOX" + p[len(first):]
	}
	for _, c := range p {
		switch c {
		case '*':
			b.WriteString(".*")
		case '%':
			b.WriteString("[^" + regexp.QuoteMeta(r.p.Delim) + "]*")
		default:
			b.WriteString(regexp.QuoteMeta(string(c)))
		}
	}
	b.WriteString("$")
	return regexp.MustCompile(b.String())
}

func (r *run) expectList(lsub bool, ref, pattern string) map[string]bool { // name -> noselect
	out := map[string]bool{}
	re := r.patternRe(ref + pattern)
	if !lsub {
		cand := map[string]bool{} // name -> exists
		for name := range r.boxes {
			cand[name] = true
			for _, sup := range r.superiors(name) {
				if _, ok := cand[sup]; !ok {
					cand[sup] = false
				}
			}
		}
		for name := range r.boxes {
			cand[name] = true
		}
		for name, exists := range cand {
			if re.MatchString(name) {
				out[name] = !exists
			}
		}
		return out
	}
	subscribed := map[string]bool{} // name -> still exists
	for name, sub := range r.boxes {
		if sub {
			subscribed[name] = true
		}
	}
	for name := range r.delSub {
		if _, ok := subscribed[name]; !ok {
			subscribed[name] = false
		}
	}
	for name, exists := range subscribed {
		if re.MatchString(name) {
			out[name] = !exists
		}
	}
	if strings.HasSuffix(pattern, "%") {
		for name := range subscribed {
			for _, sup := range r.superiors(name) {
				if _, ok := out[sup]; !ok && re.MatchString(sup) {
					if _, isSub := subscribed[sup]; !isSub {
						out[sup] = true
					}
				}
			}
		}
	}
	return out
}

func shape(pattern string) string {
	var b strings.Builder
	for _, c := range pattern {
		switch c {
		case '*', '%':
			b.WriteRune(c)
		default:
			if b.Len() == 0 || b.String()[b.Len()-1] != 'x' {
				b.WriteByte('x')
			}
		}
	}
	return b.String()
}

// Extensions: LIST and LSUB for every (reference, pattern) against the matcher.
func (r *run) Extensions() []explore.Violation {
	var out []explore.Violation
	if r.broken != "" {
		return nil
	}
	seen := map[string]bool{}
	for _, ref0 := range r.p.Refs {
		ref := r.d(ref0)
		for _, pat0 := range r.p.Patterns {
			pat := r.d(pat0)
			for _, verb := range []string{"LIST", "LSUB"} {
				rows, st, err := r.list(r.sess[1], verb, ref, pat)
				if err != nil {
					r.broken = err.Error()
					return append(out, explore.Violation{Prop: "ENGINE", Clause: "engine", Sig: "broken", Msg: r.broken})
				}
				sig := verb + "/" + shape(pat0)
				if st != "OK" {
					if !seen["st"+sig] {
						out = append(out, r.viol("list-refused", sig, fmt.Sprintf("%s %q %q answered %s", verb, ref, pat, st)))
						seen["st"+sig] = true
					}
					continue
				}
				if pat == "" {
					if verb == "LSUB" {
						continue // RFC 3501 defines the empty-name request for LIST only
					}
					if len(rows) != 1 || !rows[0].NoSelect {
						out = append(out, r.viol("list-root", verb, fmt.Sprintf("%s %q \"\" must return exactly the hierarchy root with \\Noselect, got %v", verb, ref, rows)))
					}
					continue
				}
				want := r.expectList(verb == "LSUB", ref, pat)
				got := map[string]bool{}
				dup := false
				for _, x := range rows {
					if _, ok := got[x.Name]; ok {
						dup = true
					}
					got[x.Name] = x.NoSelect
				}
				if fmt.Sprint(sortedNames(got)) != fmt.Sprint(sortedNames(want)) || dup {
					if !seen[sig] {
						seen[sig] = true
						out = append(out, r.viol("list-mismatch", sig, fmt.Sprintf("%s %q %q returned %v, the RFC 3501 matcher over %s gives %v (! = \\Noselect)", verb, ref, pat, sortedNames(got), r.render(), sortedNames(want))))
					}
				}
			}
		}
	}
	return out
}

func sortedNames(m map[string]bool) []string {
	var out []string
	for n, ns := range m {
		if ns {
			out = append(out, n+"!")
		} else {
			out = append(out, n)
		}
	}
	sort.Strings(out)
	return out
}

var _ = vconn.Spec{}
