package fetch13

import (
	"fmt"
	"sort"
	"strconv"
	"strings"
)

// Case is one (message, section spec) pair.
//
//	Kind "sec":     BODY.PEEK[Sec]
//	Kind "partial": BODY.PEEK[Sec]<O.N>  with O, N symbolic in the length of the full section
//	Kind "fields":  BODY.PEEK[<Pfx>HEADER.FIELDS (Sec)] and BODY.PEEK[<Pfx>HEADER.FIELDS.NOT (Sec)] in one FETCH
//	Kind "item":    the plain attribute(s) Sec (RFC822, RFC822.HEADER, RFC822.TEXT, RFC822.SIZE, combinations)
//	Kind "pair":    BODY.PEEK[HEADER] and BODY.PEEK[TEXT] in one FETCH (two literals in one response)
type Case struct {
	M    MsgDesc `json:"m"`
	Kind string  `json:"kind"`
	Sec  string  `json:"sec,omitempty"`
	Pfx  string  `json:"pfx,omitempty"`
	O    string  `json:"o,omitempty"`
	N    string  `json:"n,omitempty"`
}

const IDName = "X-Pm-Gluon-Id"
const AbsentName = "X-Absent-Field"

var Offsets = []string{"0", "1", "len-1", "len", "len+1", "2^31", "2^63-1"}
var Counts = []string{"1", "2", "len", "len+1", "2^63-1"}

// Symbolic resolves a symbolic offset/count against the section length; ok=false if it has no value (len-1 of an
// empty section) .
func Symbolic(s string, n int) (uint64, bool) {
	switch s {
	case "len-1":
		if n == 0 {
			return 0, false
		}
		return uint64(n - 1), true
	case "len":
		return uint64(n), true
	case "len+1":
		return uint64(n + 1), true
	case "2^31":
		return 1 << 31, true
	case "2^63-1":
		return 1<<63 - 1, true
	}
	v, err := strconv.ParseUint(s, 10, 64)
	return v, err == nil
}

// ---------------------------------------------------------------------------------------------------------------
// part numbering (RFC 3501 6.4.5)

// PartRef is an addressable part: Single marks a non-multipart message seen as its own part 1.
type PartRef struct {
	E      *Ent
	Single bool
}

func partsOfMessage(m *Ent) []PartRef {
	if m.Kind == 'M' {
		out := make([]PartRef, len(m.Kids))
		for i, k := range m.Kids {
			out[i] = PartRef{E: k}
		}
		return out
	}
	return []PartRef{{E: m, Single: true}}
}

func subparts(p PartRef) []PartRef {
	if p.E.Kind == 'M' {
		return partsOfMessage(p.E) // Single is never set for a multipart
	}
	if p.E.IsMsg822() {
		return partsOfMessage(p.E.Inner)
	}
	return nil
}

// Resolution of a part path.
type Resolution struct {
	Part    *PartRef
	Exists  bool
	Lenient bool // the path is an existing leaf followed only by ".1" components: a server may treat it as the leaf
}

func Resolve(root *Ent, path []int) Resolution {
	cur := partsOfMessage(root)
	var p PartRef
	for i, n := range path {
		if n < 1 || n > len(cur) {
			if i > 0 && cur == nil {
				lenient := true
				for _, r := range path[i:] {
					if r != 1 {
						lenient = false
					}
				}
				if lenient {
					q := p
					return Resolution{Part: &q, Lenient: true}
				}
			}
			return Resolution{}
		}
		p = cur[n-1]
		cur = subparts(p)
	}
	return Resolution{Part: &p, Exists: true}
}

func pathStr(path []int) string {
	s := make([]string, len(path))
	for i, n := range path {
		s[i] = strconv.Itoa(n)
	}
	return strings.Join(s, ".")
}

func with(path []int, n int) []int { return append(append([]int{}, path...), n) }

// walkParts enumerates every existing part path (depth first) with its reference.
func walkParts(root *Ent, fn func(path []int, p PartRef, nsub int)) {
	var rec func(path []int, parts []PartRef)
	rec = func(path []int, parts []PartRef) {
		for i, p := range parts {
			pp := with(path, i+1)
			sub := subparts(p)
			fn(pp, p, len(sub))
			rec(pp, sub)
		}
	}
	rec(nil, partsOfMessage(root))
}

// ---------------------------------------------------------------------------------------------------------------
// enumeration of the section specs of one message

func fieldNames(e *Ent, withID bool) []string {
	seen := map[string]bool{}
	var out []string
	if withID {
		out = append(out, IDName)
		seen[strings.ToLower(IDName)] = true
	}
	for _, f := range e.Fields {
		if !seen[strings.ToLower(f.Name)] {
			seen[strings.ToLower(f.Name)] = true
			out = append(out, f.Name)
		}
	}
	return out
}

func caseVariant(s string) string {
	b := []byte(s)
	for i := range b {
		switch {
		case i%2 == 0 && b[i] >= 'a' && b[i] <= 'z':
			b[i] -= 32
		case i%2 == 1 && b[i] >= 'A' && b[i] <= 'Z':
			b[i] += 32
		}
	}
	if string(b) == s {
		return strings.ToUpper(s)
	}
	return string(b)
}

func fieldLists(names []string) []string {
	var subsets [][]string
	for i := range names {
		subsets = append(subsets, []string{names[i]})
	}
	for i := range names {
		for j := i + 1; j < len(names); j++ {
			subsets = append(subsets, []string{names[i], names[j]})
		}
	}
	out := []string{AbsentName}
	for _, s := range subsets {
		out = append(out, strings.Join(s, " "))
		out = append(out, strings.Join(append(append([]string{}, s...), AbsentName), " "))
		v := make([]string, len(s))
		for i := range s {
			v[i] = caseVariant(s[i])
		}
		out = append(out, strings.Join(v, " "))
	}
	return out
}

// Opt selects optional (expensive or possibly process-killing) groups of specs.
type Opt struct {
	HugePartials bool // partials with an offset or count of 2^63-1 (outside RFC 3501's 32-bit numbers)
}

// Specs lists every section spec of a message in a fixed order: first all specs that cannot take the process
// down on a sane implementation, then (second result) the partials with 63-bit numbers.
func Specs(m *Msg) (main []Case, huge []Case) {
	d := m.Desc
	add := func(c Case) { c.M = d; main = append(main, c) }
	add(Case{Kind: "sec", Sec: ""})
	add(Case{Kind: "sec", Sec: "HEADER"})
	add(Case{Kind: "sec", Sec: "TEXT"})
	add(Case{Kind: "pair"})
	for _, it := range []string{"RFC822", "RFC822.HEADER", "RFC822.TEXT", "RFC822.SIZE", "RFC822.SIZE RFC822.HEADER RFC822.TEXT"} {
		add(Case{Kind: "item", Sec: it})
	}
	// every part path, .MIME everywhere, .HEADER/.TEXT/.HEADER.FIELDS for message/rfc822 parts, one past each end
	var firstLeafPath string
	walkParts(m.Root, func(path []int, p PartRef, nsub int) {
		ps := pathStr(path)
		add(Case{Kind: "sec", Sec: ps})
		add(Case{Kind: "sec", Sec: ps + ".MIME"})
		if p.E.IsMsg822() {
			add(Case{Kind: "sec", Sec: ps + ".HEADER"})
			add(Case{Kind: "sec", Sec: ps + ".TEXT"})
			for _, l := range []string{"Subject", "sUBJECT From", AbsentName, "Content-Type"} {
				add(Case{Kind: "fields", Pfx: ps + ".", Sec: l})
			}
		}
		if nsub == 0 {
			if firstLeafPath == "" {
				firstLeafPath = ps
			}
			add(Case{Kind: "sec", Sec: ps + ".1"})
			add(Case{Kind: "sec", Sec: ps + ".2"})
			add(Case{Kind: "sec", Sec: ps + ".1.2"})
		} else {
			add(Case{Kind: "sec", Sec: pathStr(with(path, nsub+1))})
		}
	})
	top := len(partsOfMessage(m.Root))
	add(Case{Kind: "sec", Sec: strconv.Itoa(top + 1)})
	add(Case{Kind: "sec", Sec: "2147483648"})
	add(Case{Kind: "sec", Sec: "9223372036854775807"})
	for _, l := range fieldLists(fieldNames(m.Root, true)) {
		add(Case{Kind: "fields", Sec: l})
	}
	for _, sec := range []string{"", "TEXT", firstLeafPath} {
		for _, o := range Offsets {
			for _, n := range Counts {
				c := Case{M: d, Kind: "partial", Sec: sec, O: o, N: n}
				if o == "2^63-1" || n == "2^63-1" {
					huge = append(huge, c)
				} else {
					main = append(main, c)
				}
			}
		}
	}
	return main, huge
}

// ---------------------------------------------------------------------------------------------------------------
// enumeration of the messages

var Leaves4 = []string{"P", "H", "B", "R"}

func multiparts(children []string) []string {
	var out []string
	for _, a := range children {
		out = append(out, "M("+a+")")
	}
	for _, a := range children {
		for _, b := range children {
			out = append(out, "M("+a+","+b+")")
		}
	}
	return out
}

// AllShapes: every tree of depth <= 2 with <= 2 children per multipart over the four leaf kinds (4 + 20 + 580).
func AllShapes() []string {
	d1 := multiparts(Leaves4)
	level := append(append([]string{}, Leaves4...), d1...)
	d2 := multiparts(level)
	seen := map[string]bool{}
	var out []string
	for _, s := range append(append(append([]string{}, Leaves4...), d1...), d2...) {
		if !seen[s] {
			seen[s] = true
			out = append(out, s)
		}
	}
	sort.SliceStable(out, func(i, j int) bool { return len(out[i]) < len(out[j]) })
	return out
}

// ExtraShapes: embedded multipart message, empty body, header-less part.
var ExtraShapes = []string{"Q", "M(Q)", "M(P,Q)", "M(Q,R)", "M(M(Q),P)", "M(E)", "M(N)", "M(E,N)", "M(P,E)", "M(N,P)", "M(M(E,N),B)"}

// QuickShapes: every tree of depth <= 1 (4 leaves + 20 multiparts), every tree of depth <= 2 over {P,R}, and
// depth-2 trees with the nested multipart in first / last / both positions with every leaf kind at depth 2.
func QuickShapes() []string {
	out := append(append([]string{}, Leaves4...), multiparts(Leaves4)...)
	// every tree of depth <= 2 over the two leaf kinds that number parts differently (text/plain, message/rfc822)
	pr := []string{"P", "R"}
	out = append(out, multiparts(append(append([]string{}, pr...), multiparts(pr)...))...)
	return append(out, "M(M(P))", "M(M(R))", "M(M(P,H))", "M(M(P,H),B)", "M(P,M(H,B))", "M(M(P),M(H,R))", "M(M(R,P),M(B,H))", "M(R,M(R))", "M(M(B,B),R)", "M(M(H,R),B)", "M(B,M(P,R))")
}

const BlockSize = 64 * 4096 // store/disk.go blockSize
const IDLineLen = 53        // "X-Pm-Gluon-Id: " + 36 + CRLF

// lz4FrameLen is the length of the lz4 frame of n incompressible bytes with 64 KiB blocks and no checksums.
func lz4FrameLen(n int) int { return 7 + 4*((n+65535)/65536) + n + 4 }

// BigSizes: appended sizes that put (a) the appended message, (b) the stored literal (with the ID line) and (c)
// the compressed stream of an incompressible stored literal on the store's block boundary -1/0/+1, and 600 KiB.
func BigSizes() []int {
	var out []int
	for _, d := range []int{-1, 0, 1} {
		out = append(out, BlockSize+d)
	}
	for _, d := range []int{-1, 0, 1} {
		out = append(out, BlockSize-IDLineLen+d)
	}
	// stored length n with lz4FrameLen(n) == BlockSize
	n := BlockSize
	for lz4FrameLen(n) > BlockSize {
		n--
	}
	for _, d := range []int{-1, 0, 1} {
		out = append(out, n-IDLineLen+d)
	}
	out = append(out, 600*1024)
	return out
}

type variant struct {
	style    string
	lf, bit8 bool
}

func allVariants() []variant {
	var out []variant
	for _, st := range []string{"simple", "folded", "dupempty"} {
		for _, lf := range []bool{false, true} {
			for _, b8 := range []bool{false, true} {
				out = append(out, variant{st, lf, b8})
			}
		}
	}
	return out
}

// Messages lists the message descriptors of a tier, simplest first.
func Messages(tier string) []MsgDesc {
	var out []MsgDesc
	seen := map[string]bool{}
	add := func(d MsgDesc) {
		if !seen[d.Key()] {
			seen[d.Key()] = true
			out = append(out, d)
		}
	}
	thorough := tier == "thorough"
	shapes := QuickShapes()
	if thorough {
		shapes = AllShapes()
	}
	for _, s := range shapes {
		add(MsgDesc{Shape: s, Style: "simple"})
	}
	for _, s := range ExtraShapes {
		add(MsgDesc{Shape: s, Style: "simple"})
	}
	// header/line-ending/8-bit variants
	vshapes := []string{"P", "M(P,B)", "M(M(H,R),B)"}
	if thorough {
		vshapes = append(QuickShapes(), ExtraShapes...)
	}
	for _, v := range allVariants() {
		for _, s := range vshapes {
			add(MsgDesc{Shape: s, Style: v.style, LF: v.lf, Bit8: v.bit8})
		}
	}
	if thorough {
		// every shape in every variant
		for _, v := range allVariants() {
			for _, s := range AllShapes() {
				add(MsgDesc{Shape: s, Style: v.style, LF: v.lf, Bit8: v.bit8})
			}
		}
	}
	// sizes across the block boundaries: incompressible 8-bit payload (octet-stream leaf) unless stated otherwise
	if !thorough {
		add(MsgDesc{Shape: "M(P,B)", Style: "simple", Bit8: true, Size: BlockSize - IDLineLen, Big: 1})
		add(MsgDesc{Shape: "B", Style: "simple", Bit8: true, Size: BlockSize + 1, Big: 0})
		add(MsgDesc{Shape: "M(B,M(P,R))", Style: "folded", Bit8: true, Size: 600 * 1024, Big: 0})
		return out
	}
	type bigShape struct {
		shape string
		big   int
		bit8  bool
	}
	for _, size := range BigSizes() {
		for _, bs := range []bigShape{{"B", 0, true}, {"M(P,B)", 1, true}, {"M(B,M(P,R))", 0, true}, {"M(H,R)", 1, true}, {"P", 0, false}} {
			for _, lf := range []bool{false, true} {
				st := "simple"
				if lf {
					st = "folded"
				}
				add(MsgDesc{Shape: bs.shape, Style: st, LF: lf, Bit8: bs.bit8, Size: size, Big: bs.big})
			}
		}
	}
	return out
}

// Cases builds the complete case lists of a tier: main cases, and the 63-bit partials (run one case per job
// because a process death is a plausible outcome).
func Cases(tier string) (main []any, huge []any, nmsg int, err error) {
	msgs := Messages(tier)
	for i, d := range msgs {
		m, err := Build(d)
		if err != nil {
			return nil, nil, 0, fmt.Errorf("message %s: %w", d.Key(), err)
		}
		a, h := Specs(m)
		for _, c := range a {
			main = append(main, c)
		}
		// 63-bit partials do not depend on the tree (a process death per case is expensive: the coordinator
		// confirms each one twice, serially): they run on the first shapes, on a stride of the remaining
		// messages and on the large single-leaf messages.
		sel := i < 2 || d.Size > 0 && d.Shape == "B" && !d.LF
		if tier == "thorough" {
			sel = sel || i < 4 || i%97 == 0
		}
		if sel {
			for _, c := range h {
				huge = append(huge, c)
			}
		}
	}
	return main, huge, len(msgs), nil
}
