package fetch13

import (
	"fmt"
	"strconv"
	"strings"

	"verif/engine/imapc"
)

// Item is one data item of an untagged FETCH response.
type Item struct {
	Name    string // e.g. BODY[1.2]  BODY[HEADER.FIELDS (FROM TO)]  RFC822.SIZE
	Origin  string // "<12>" partial origin as sent by the server, "" if none
	IsNil   bool
	Data    []byte // string value (literal or quoted)
	Atom    string // number / atom / parenthesised list as text
	Literal bool
}

// ParseFetch is a strict parser of "* n FETCH (item value ...)" over the literal-aware response of imapc (the
// literals are replaced by "{n}~" markers in Text). Anything that does not fit the grammar is a framing error:
// that is how an announced literal length that differs from the bytes sent shows up.
func ParseFetch(r imapc.Resp) (seq int, items []Item, err error) {
	t := r.Text
	if !strings.HasPrefix(t, "* ") {
		return 0, nil, fmt.Errorf("not untagged")
	}
	t = t[2:]
	i := strings.IndexByte(t, ' ')
	if i < 0 {
		return 0, nil, fmt.Errorf("no sequence number")
	}
	seq, err = strconv.Atoi(t[:i])
	if err != nil {
		return 0, nil, fmt.Errorf("bad sequence number %q", t[:i])
	}
	t = t[i+1:]
	if !strings.HasPrefix(t, "FETCH (") || !strings.HasSuffix(t, ")") {
		return 0, nil, fmt.Errorf("not FETCH (...)")
	}
	t = t[len("FETCH (") : len(t)-1]
	lit := 0
	for len(t) > 0 {
		// item name: up to the first SP outside brackets
		depth, j := 0, 0
		for j < len(t) {
			c := t[j]
			if c == '[' {
				depth++
			} else if c == ']' {
				depth--
			} else if c == ' ' && depth == 0 {
				break
			} else if depth == 0 && !(c >= 'A' && c <= 'Z' || c >= 'a' && c <= 'z' || c >= '0' && c <= '9' || c == '.' || c == '<' || c == '>') {
				return seq, items, fmt.Errorf("unexpected byte %q in item name at %q", c, clip(t, 40))
			}
			j++
		}
		if j == 0 || j >= len(t) || depth != 0 {
			return seq, items, fmt.Errorf("bad item name at %q", clip(t, 40))
		}
		it := Item{Name: t[:j]}
		if k := strings.IndexByte(it.Name, '<'); k >= 0 && strings.HasSuffix(it.Name, ">") && strings.Contains(it.Name, "]<") {
			it.Origin = it.Name[k:]
			it.Name = it.Name[:k]
		}
		t = t[j+1:]
		switch {
		case strings.HasPrefix(t, "{"):
			k := strings.Index(t, "}~")
			if k < 0 {
				return seq, items, fmt.Errorf("literal marker not at a line end at %q", clip(t, 40))
			}
			n, err := strconv.Atoi(t[1:k])
			if err != nil || lit >= len(r.Lits) {
				return seq, items, fmt.Errorf("bad literal marker %q", clip(t, 40))
			}
			if n != len(r.Lits[lit]) {
				return seq, items, fmt.Errorf("literal of %d bytes announced as %d", len(r.Lits[lit]), n)
			}
			it.Data, it.Literal = r.Lits[lit], true
			lit++
			t = t[k+2:]
		case strings.HasPrefix(t, `"`):
			var sb []byte
			k := 1
			for ; k < len(t) && t[k] != '"'; k++ {
				if t[k] == '\\' && k+1 < len(t) {
					k++
				}
				sb = append(sb, t[k])
			}
			if k >= len(t) {
				return seq, items, fmt.Errorf("unterminated quoted string")
			}
			it.Data = sb
			if it.Data == nil {
				it.Data = []byte{}
			}
			t = t[k+1:]
		case strings.HasPrefix(t, "("):
			depth, k := 0, 0
			for ; k < len(t); k++ {
				if t[k] == '(' {
					depth++
				} else if t[k] == ')' {
					depth--
					if depth == 0 {
						break
					}
				}
			}
			if k >= len(t) {
				return seq, items, fmt.Errorf("unbalanced list")
			}
			it.Atom = t[:k+1]
			t = t[k+1:]
		default:
			k := strings.IndexByte(t, ' ')
			if k < 0 {
				k = len(t)
			}
			it.Atom = t[:k]
			if it.Atom == "" {
				return seq, items, fmt.Errorf("empty value for %s", it.Name)
			}
			for _, c := range []byte(it.Atom) {
				if c < 0x21 || c > 0x7e || c == '(' || c == ')' || c == '{' || c == '"' {
					return seq, items, fmt.Errorf("unexpected byte %q in atom value of %s", c, it.Name)
				}
			}
			if strings.EqualFold(it.Atom, "NIL") {
				it.IsNil = true
				it.Atom = ""
			}
			t = t[k:]
		}
		items = append(items, it)
		if len(t) > 0 {
			if t[0] != ' ' {
				return seq, items, fmt.Errorf("expected SP between items at %q", clip(t, 40))
			}
			t = t[1:]
			if len(t) == 0 {
				return seq, items, fmt.Errorf("trailing SP")
			}
		}
	}
	if lit != len(r.Lits) {
		return seq, items, fmt.Errorf("%d literals on the wire, %d referenced by items", len(r.Lits), lit)
	}
	return seq, items, nil
}

func clip(s string, n int) string {
	if len(s) > n {
		return s[:n] + "…"
	}
	return s
}

func clipB(b []byte, n int) string {
	if len(b) > n {
		return fmt.Sprintf("%q…(%d bytes)", b[:n], len(b))
	}
	return fmt.Sprintf("%q", b)
}
