// Package fetch13 is the bounded-exhaustive check of property C13 (FETCH is byte-exact for every section and
// partial): a message generator that knows the byte offsets of every header field, of every header/body split and
// of every MIME part by construction, the enumeration of all section specs of a message, and the batch function
// that APPENDs each message to the real server and judges every FETCH against the generator's offsets.
package fetch13

import (
	"bytes"
	"fmt"
	"strings"
)

// MsgDesc describes one generated message. The message is a pure function of the descriptor.
//
// Shape grammar:  node := leaf | "M(" node {"," node} ")"
//
//	P text/plain   H text/html   B application/octet-stream   R message/rfc822 (embedded text/plain message)
//	Q message/rfc822 whose embedded message is multipart/mixed(P,H)   E text/plain with an empty body
//	N a part without any header field (RFC 2046 default text/plain)   M multipart/mixed
type MsgDesc struct {
	Shape string `json:"shape"`
	Style string `json:"style"` // simple | folded | dupempty
	LF    bool   `json:"lf,omitempty"`
	Bit8  bool   `json:"bit8,omitempty"`
	Size  int    `json:"size,omitempty"` // 0: natural (small) size; otherwise the exact number of appended bytes
	Big   int    `json:"big,omitempty"`  // DFS index of the leaf that receives the padding
}

func (d MsgDesc) Key() string {
	return fmt.Sprintf("%s|%s|lf=%v|8=%v|%d@%d", d.Shape, d.Style, d.LF, d.Bit8, d.Size, d.Big)
}

// Fld is one header field with its exact bytes (name, colon, value, folds and its line terminator).
type Fld struct {
	Name     string
	Off, End int // absolute offsets in Msg.A
}

// Ent is one MIME entity (the message itself, a body part, or an embedded message).
type Ent struct {
	Kind   byte // P H B R Q E N M
	Hdr    int  // offset of the first header byte
	Body   int  // offset of the first body byte (after the blank line)
	End    int  // offset one past the last byte of the entity (the line break in front of a delimiter excluded)
	Fields []Fld
	Kids   []*Ent // multipart children
	Inner  *Ent   // embedded message of R/Q (Inner.Hdr == Body, Inner.End == End)
	Leaf   int    // DFS leaf index (leaves only)
}

func (e *Ent) IsMsg822() bool { return e.Kind == 'R' || e.Kind == 'Q' }

type Msg struct {
	Desc MsgDesc
	A    []byte // the bytes that are APPENDed
	Root *Ent
	NL   string
}

// ---------------------------------------------------------------------------------------------------------------
// shape parsing

type node struct {
	kind byte
	kids []*node
}

func parseShape(s string) (*node, error) {
	n, rest, err := parseNode(s)
	if err != nil {
		return nil, err
	}
	if rest != "" {
		return nil, fmt.Errorf("trailing %q in shape", rest)
	}
	return n, nil
}

func parseNode(s string) (*node, string, error) {
	if s == "" {
		return nil, "", fmt.Errorf("empty shape")
	}
	if strings.HasPrefix(s, "M(") {
		n := &node{kind: 'M'}
		s = s[2:]
		for {
			k, rest, err := parseNode(s)
			if err != nil {
				return nil, "", err
			}
			n.kids = append(n.kids, k)
			s = rest
			if strings.HasPrefix(s, ",") {
				s = s[1:]
				continue
			}
			if strings.HasPrefix(s, ")") {
				return n, s[1:], nil
			}
			return nil, "", fmt.Errorf("bad shape near %q", s)
		}
	}
	if strings.IndexByte("PHBRQEN", s[0]) < 0 {
		return nil, "", fmt.Errorf("bad leaf %q", s[:1])
	}
	return &node{kind: s[0]}, s[1:], nil
}

// ---------------------------------------------------------------------------------------------------------------
// deterministic filler (xorshift; fixed seed per leaf: filler is data, not sampling of the case space)

type filler struct{ x uint64 }

func (f *filler) next() uint64 {
	f.x ^= f.x << 13
	f.x ^= f.x >> 7
	f.x ^= f.x << 17
	return f.x
}

const b64 = "ABCDEFGHIJKLMNOPQRSTUVWXYZabcdefghijklmnopqrstuvwxyz0123456789+/"

// textFill returns exactly n bytes of text lines (<= 76 characters per line).
func textFill(n int, nl string, bit8 bool, seed uint64) []byte {
	f := &filler{x: seed*2654435761 + 88172645463325252}
	out := make([]byte, 0, n)
	col := 0
	for len(out) < n {
		if col >= 76 && n-len(out) >= len(nl) {
			out = append(out, nl...)
			col = 0
			continue
		}
		r := f.next()
		c := b64[r&63]
		if bit8 && (r>>8)&7 == 0 {
			c = byte(0x80 | (r>>16)&0x7f)
		}
		if col == 0 && c == '-' {
			c = 'x'
		}
		out = append(out, c)
		col++
	}
	return out
}

// binFill returns exactly n incompressible bytes 0x01..0xff (no NUL: a literal is CHAR8), bare CR and LF included.
func binFill(n int, seed uint64) []byte {
	f := &filler{x: seed*11400714819323198485 + 1442695040888963407}
	out := make([]byte, n)
	for i := 0; i < n; {
		r := f.next()
		for k := 0; k < 8 && i < n; k++ {
			b := byte(r >> (8 * k))
			if b == 0 {
				b = 0xa5
			}
			if b == '-' { // never form a delimiter line by accident
				b = '_'
			}
			out[i] = b
			i++
		}
	}
	return out
}

// ---------------------------------------------------------------------------------------------------------------
// builder

type builder struct {
	d     MsgDesc
	nl    string
	buf   bytes.Buffer
	leafN int
	bndN  int
	bnds  []string // boundaries of the enclosing multiparts, outermost first
	pad   int
}

func (b *builder) off() int { return b.buf.Len() }

// field writes one header field; the value may contain "\n" markers which become folds (NL + the next character
// of the value, which must be SP or TAB).
func (b *builder) field(e *Ent, name, val string) {
	start := b.off()
	b.buf.WriteString(name)
	b.buf.WriteString(":")
	if val != "" {
		if val[0] != '\n' { // a value that starts on the continuation line: "Name:" NL SP value
			b.buf.WriteString(" ")
		}
		b.buf.WriteString(strings.ReplaceAll(val, "\n", b.nl))
	}
	b.buf.WriteString(b.nl)
	e.Fields = append(e.Fields, Fld{Name: name, Off: start, End: b.off()})
}

func (b *builder) folded() bool { return b.d.Style == "folded" }

func (b *builder) ctype(e *Ent, val string, params string) {
	switch {
	case params == "":
		b.field(e, "Content-Type", val)
	case b.folded():
		b.field(e, "Content-Type", val+";\n "+params)
	default:
		b.field(e, "Content-Type", val+"; "+params)
	}
}

func (b *builder) subject(base string) string {
	s := base
	if b.d.Bit8 {
		s += " caf\xc3\xa9 \xe9\xff"
	}
	if b.folded() {
		s += "\n continued on a second line\n\tand a third after a TAB"
	}
	return s
}

// entity writes one entity; top marks the outermost message (full message header), inner an embedded message.
func (b *builder) entity(n *node, top, inner bool) *Ent {
	e := &Ent{Kind: n.kind, Hdr: b.off()}
	if top {
		if b.d.Style == "dupempty" {
			b.field(e, "Received", "from a.example.org by b.example.org; Mon, 1 Jan 2024 00:00:00 +0000")
			b.field(e, "Received", "from c.example.org by d.example.org; Mon, 1 Jan 2024 00:00:01 +0000")
		}
		if b.folded() {
			b.field(e, "From", "Alice Sender\n <alice@example.org>")
			b.field(e, "To", "Bob <bob@example.org>,\n\tCarol <carol@example.org>")
		} else {
			b.field(e, "From", "Alice Sender <alice@example.org>")
			b.field(e, "To", "Bob <bob@example.org>")
		}
		if b.d.Style == "dupempty" {
			b.field(e, "X-Empty", "")
		}
		b.field(e, "Date", "Mon, 01 Jan 2024 12:00:00 +0000")
		b.field(e, "Subject", b.subject("c13 "+b.d.Shape))
		if b.folded() {
			b.field(e, "References", "<r1@example.org>\n <r2@example.org>\n\t<r3@example.org>")
			b.field(e, "X-Late", "\n the value starts on the continuation line")
		}
		b.field(e, "MIME-Version", "1.0")
	} else if inner {
		b.field(e, "From", "Inner Author <inner@example.org>")
		b.field(e, "Date", "Sun, 31 Dec 2023 08:00:00 +0000")
		b.field(e, "Subject", b.subject("embedded message"))
		b.field(e, "MIME-Version", "1.0")
	}
	var boundary string
	switch n.kind {
	case 'P', 'E':
		b.ctype(e, "text/plain", "charset=utf-8")
		if b.d.Bit8 {
			b.field(e, "Content-Transfer-Encoding", "8bit")
		}
	case 'H':
		b.ctype(e, "text/html", "charset=utf-8")
		if b.d.Bit8 {
			b.field(e, "Content-Transfer-Encoding", "8bit")
		}
	case 'B':
		b.ctype(e, "application/octet-stream", `name="blob.bin"`)
		if b.d.Bit8 {
			b.field(e, "Content-Transfer-Encoding", "binary")
		} else {
			b.field(e, "Content-Transfer-Encoding", "base64")
		}
		if b.folded() {
			b.field(e, "Content-Disposition", "attachment;\n\tfilename=\"blob.bin\"")
		}
	case 'R', 'Q':
		b.ctype(e, "message/rfc822", "")
		if b.d.Bit8 {
			b.field(e, "Content-Transfer-Encoding", "8bit")
		}
	case 'N':
		// no header field at all
	case 'M':
		boundary = fmt.Sprintf("=_c13_b%d_", b.bndN)
		b.bndN++
		b.ctype(e, "multipart/mixed", `boundary="`+boundary+`"`)
	}
	b.buf.WriteString(b.nl) // the blank line
	e.Body = b.off()
	switch n.kind {
	case 'M':
		if b.folded() {
			b.buf.WriteString("This is a multi-part message in MIME format." + b.nl)
		}
		b.bnds = append(b.bnds, boundary)
		for _, k := range n.kids {
			b.buf.WriteString("--" + boundary + b.nl)
			kid := b.entity(k, false, false)
			e.Kids = append(e.Kids, kid)
			b.buf.WriteString(b.nl) // belongs to the delimiter that follows
		}
		b.bnds = b.bnds[:len(b.bnds)-1]
		b.buf.WriteString("--" + boundary + "--" + b.nl)
		if b.folded() {
			b.buf.WriteString("epilogue text" + b.nl)
		}
	case 'R':
		e.Leaf = b.leafN
		e.Inner = b.entity(&node{kind: 'P'}, false, true)
		// b.leafN was advanced by the inner leaf
	case 'Q':
		e.Leaf = b.leafN
		e.Inner = b.entity(&node{kind: 'M', kids: []*node{{kind: 'P'}, {kind: 'H'}}}, false, true)
	default:
		e.Leaf = b.leafN
		b.leafN++
		pad := 0
		if e.Leaf == b.d.Big {
			pad = b.pad
		}
		b.leafBody(n.kind, e.Leaf, pad)
	}
	e.End = b.off()
	return e
}

func (b *builder) leafBody(kind byte, leaf, pad int) {
	seed := uint64(leaf + 1)
	switch kind {
	case 'E':
		if pad > 0 {
			b.buf.Write(textFill(pad, b.nl, b.d.Bit8, seed))
		}
	case 'P', 'N':
		fmt.Fprintf(&b.buf, "Plain text of leaf %d.%s", leaf, b.nl)
		if b.d.Bit8 {
			b.buf.WriteString("8-bit: \xc3\xa9\xc3\xa0 \xe9 \xff\x80" + b.nl)
		}
		b.buf.WriteString(" a line that starts with a space" + b.nl)
		for _, bnd := range b.bnds {
			// the delimiters of the enclosing multiparts quoted in the middle of a line: not delimiters (RFC 2046 5.1.1
			// only forbids them at the start of a line), but the boundary scanner has to reject them
			b.buf.WriteString("quoted mid-line: x--" + bnd + " and x--" + bnd + "--" + b.nl)
		}
		if pad > 0 {
			b.buf.Write(textFill(pad, b.nl, b.d.Bit8, seed))
		}
		b.buf.WriteString("last line without a line break")
	case 'H':
		fmt.Fprintf(&b.buf, "<html><body><p>leaf %d</p>%s", leaf, b.nl)
		if b.d.Bit8 {
			b.buf.WriteString("<p>\xc3\xa9\xe9\xff</p>" + b.nl)
		}
		if pad > 0 {
			b.buf.Write(textFill(pad, b.nl, b.d.Bit8, seed))
		}
		b.buf.WriteString("</body></html>" + b.nl)
	case 'B':
		if b.d.Bit8 {
			b.buf.Write([]byte{0x01, 0x02, 0xff, 0xfe, '\n', 0x80, '\r', 0x7f, 0xc3})
			if pad > 0 {
				b.buf.Write(binFill(pad, seed))
			}
			b.buf.Write([]byte{0xfd, 0x03})
		} else {
			b.buf.WriteString("AQL//gqADX/D" + b.nl)
			if pad > 0 {
				b.buf.Write(textFill(pad, b.nl, false, seed))
			}
			b.buf.WriteString("/QM=" + b.nl)
		}
	}
}

func build(d MsgDesc, pad int) (*Msg, error) {
	root, err := parseShape(d.Shape)
	if err != nil {
		return nil, err
	}
	b := &builder{d: d, nl: "\r\n", pad: pad}
	if d.LF {
		b.nl = "\n"
	}
	switch d.Style {
	case "simple", "folded", "dupempty":
	default:
		return nil, fmt.Errorf("unknown style %q", d.Style)
	}
	e := b.entity(root, true, false)
	if pad > 0 && d.Big >= b.leafN {
		return nil, fmt.Errorf("big leaf %d does not exist (%d leaves)", d.Big, b.leafN)
	}
	return &Msg{Desc: d, A: b.buf.Bytes(), Root: e, NL: b.nl}, nil
}

// Build generates the message of a descriptor and validates the generator's own bookkeeping.
func Build(d MsgDesc) (*Msg, error) {
	m, err := build(d, 0)
	if err != nil {
		return nil, err
	}
	if d.Size > 0 {
		pad := d.Size - len(m.A)
		if pad <= 0 {
			return nil, fmt.Errorf("size %d is below the natural size %d of %s", d.Size, len(m.A), d.Shape)
		}
		if m, err = build(d, pad); err != nil {
			return nil, err
		}
		if len(m.A) != d.Size {
			return nil, fmt.Errorf("generator: size %d instead of %d", len(m.A), d.Size)
		}
	}
	if err := m.selfCheck(m.Root, true); err != nil {
		return nil, fmt.Errorf("generator self-check (%s): %w", d.Key(), err)
	}
	return m, nil
}

// selfCheck re-derives structural facts from the bytes to make sure the recorded offsets mean what the oracle
// assumes (fields tile the header; the blank line sits in front of Body; delimiters surround the children).
func (m *Msg) selfCheck(e *Ent, top bool) error {
	pos := e.Hdr
	for _, f := range e.Fields {
		if f.Off != pos || f.End <= f.Off || !bytes.HasPrefix(m.A[f.Off:], []byte(f.Name+":")) || !bytes.HasSuffix(m.A[f.Off:f.End], []byte(m.NL)) {
			return fmt.Errorf("field %s at %d..%d", f.Name, f.Off, f.End)
		}
		pos = f.End
	}
	if string(m.A[pos:e.Body]) != m.NL {
		return fmt.Errorf("blank line at %d..%d", pos, e.Body)
	}
	if e.End < e.Body || e.End > len(m.A) {
		return fmt.Errorf("end %d", e.End)
	}
	if top && e.End != len(m.A) {
		return fmt.Errorf("root end %d != %d", e.End, len(m.A))
	}
	if e.Kind == 'M' {
		var bnd string
		for _, f := range e.Fields {
			if f.Name == "Content-Type" {
				v := string(m.A[f.Off:f.End])
				i := strings.Index(v, `boundary="`)
				bnd = v[i+10:]
				bnd = bnd[:strings.IndexByte(bnd, '"')]
			}
		}
		delim := "--" + bnd
		if n := bytes.Count(m.A[e.Body:e.End], []byte("\n"+delim)) + bytes.Count(m.A[e.Body:e.Body+len(delim)], []byte(delim)); n != len(e.Kids)+1 {
			return fmt.Errorf("boundary %s occurs %d times for %d children", bnd, n, len(e.Kids))
		}
		for _, k := range e.Kids {
			if string(m.A[k.Hdr-len(delim)-len(m.NL):k.Hdr]) != delim+m.NL {
				return fmt.Errorf("no delimiter in front of child at %d", k.Hdr)
			}
			if string(m.A[k.End:k.End+len(m.NL)+len(delim)]) != m.NL+delim {
				return fmt.Errorf("no delimiter after child ending at %d", k.End)
			}
			if err := m.selfCheck(k, false); err != nil {
				return err
			}
		}
	}
	if e.Inner != nil {
		if e.Inner.Hdr != e.Body || e.Inner.End != e.End {
			return fmt.Errorf("embedded message bounds")
		}
		return m.selfCheck(e.Inner, false)
	}
	return nil
}
