package fetch13

import (
	"bytes"
	"encoding/json"
	"fmt"
	"os"
	"regexp"
	"sort"
	"strconv"
	"strings"
	"time"

	"verif/engine/enumt"
	"verif/engine/explore"
	"verif/engine/imapc"
	"verif/scen/wire"
)

func init() { explore.RegisterCall("c13", Call) }

// ---------------------------------------------------------------------------------------------------------------
// oracle

// want is what the statement (and RFC 3501 where the statement is silent) allows for one section.
type want struct {
	role    string   // name of the expected region (for signatures)
	alts    [][]byte // accepted contents; alts[0] is the canonical one
	mayFail bool     // NO / BAD / no item at all are accepted as well
	choice  string   // non-empty: RFC 3501 leaves a choice here (counted, for the report)
}

type region struct {
	role string
	b    []byte
}

type judge struct {
	m       *Msg
	L       []byte // the ID line found in front of the first header field
	S       []byte // L + A: the stored literal the statement prescribes
	regions []region
}

func kindName(e *Ent, m *Msg) string {
	if e == m.Root {
		return "root(" + string(e.Kind) + ")"
	}
	return string(e.Kind)
}

func (j *judge) buildRegions() {
	m := j.m
	add := func(role string, b []byte) { j.regions = append(j.regions, region{role, b}) }
	add("stored-message", j.S)
	add("appended-message", m.A)
	add("root.header+id", j.S[:len(j.L)+m.Root.Body])
	add("root.header-without-id", m.A[:m.Root.Body])
	add("root.text", m.A[m.Root.Body:])
	add("id-line", j.L)
	var rec func(e *Ent, label string)
	rec = func(e *Ent, label string) {
		if e != m.Root {
			add(label+".header", m.A[e.Hdr:e.Body])
			add(label+".body", m.A[e.Body:e.End])
			add(label+".all", m.A[e.Hdr:e.End])
		}
		for _, k := range e.Kids {
			rec(k, "part("+string(k.Kind)+")")
		}
		if e.Inner != nil {
			rec(e.Inner, "embedded-in("+string(e.Kind)+")")
		}
	}
	rec(m.Root, "root")
}

// describe names what the server sent in terms of the message's known regions.
func (j *judge) describe(got, canon []byte) string {
	if len(got) == 0 {
		return "empty"
	}
	for _, r := range j.regions {
		if bytes.Equal(r.b, got) {
			return r.role
		}
	}
	switch {
	case len(canon) > 0 && len(got) < len(canon) && bytes.HasPrefix(canon, got):
		return "proper-prefix"
	case len(canon) > 0 && len(got) < len(canon) && bytes.HasSuffix(canon, got):
		return "proper-suffix"
	case len(canon) > 0 && len(got) > len(canon) && bytes.HasPrefix(got, canon):
		return "expected+trailing-bytes"
	case len(canon) > 0 && len(got) > len(canon) && bytes.HasSuffix(got, canon):
		return "leading-bytes+expected"
	case len(got) == len(canon):
		return "same-length-different-bytes"
	}
	return "other-bytes"
}

var secRe = regexp.MustCompile(`^(\d+(?:\.\d+)*)?(?:\.?(MIME|HEADER|TEXT))?$`)

// header of the message entity e as stored (the root carries the ID line).
func (j *judge) msgHeader(e *Ent) []byte {
	if e == j.m.Root {
		return j.S[:len(j.L)+e.Body]
	}
	return j.m.A[e.Hdr:e.Body]
}

func (j *judge) section(sec string) (want, error) {
	m := j.m
	mm := secRe.FindStringSubmatch(sec)
	if mm == nil {
		return want{}, fmt.Errorf("unparsable section %q", sec)
	}
	if mm[1] == "" {
		switch mm[2] {
		case "":
			return want{role: "stored-message", alts: [][]byte{j.S}}, nil
		case "HEADER":
			return want{role: "root.header+id", alts: [][]byte{j.msgHeader(m.Root)}}, nil
		case "TEXT":
			return want{role: "root.text", alts: [][]byte{m.A[m.Root.Body:]}}, nil
		}
		return want{}, fmt.Errorf("BODY[MIME] is not a section")
	}
	var path []int
	for _, s := range strings.Split(mm[1], ".") {
		n, err := strconv.Atoi(s)
		if err != nil {
			// beyond int: cannot exist
			return want{role: "nonexistent-part", alts: [][]byte{{}}, mayFail: true, choice: "nonexistent part: NO, BAD, NIL or empty string"}, nil
		}
		path = append(path, n)
	}
	r := Resolve(m.Root, path)
	switch {
	case !r.Exists && !r.Lenient:
		return want{role: "nonexistent-part", alts: [][]byte{{}}, mayFail: true, choice: "nonexistent part: NO, BAD, NIL or empty string"}, nil
	case r.Lenient:
		e := r.Part.E
		return want{role: "leaf" + ".1", alts: [][]byte{{}, m.A[e.Body:e.End]}, mayFail: true, choice: "n.1 of a non-multipart, non-message part: the part itself, NO, BAD, NIL or empty"}, nil
	}
	e := r.Part.E
	label := kindName(e, m)
	if r.Part.Single {
		label = "single-part-of-message(" + string(e.Kind) + ")"
	}
	switch mm[2] {
	case "":
		w := want{role: label + ".body", alts: [][]byte{m.A[e.Body:e.End]}}
		if r.Part.Single {
			w.choice = "BODY[1] of a non-multipart message = its body (the only reading of RFC 3501 6.4.5 we accept)"
		}
		return w, nil
	case "MIME":
		if r.Part.Single {
			return want{role: label + ".mime", alts: [][]byte{j.msgHeader(e), {}, m.A[e.Hdr:e.Body]}, mayFail: true, choice: "1.MIME of a non-multipart message: the message header, NO, BAD, NIL or empty"}, nil
		}
		return want{role: label + ".mime", alts: [][]byte{m.A[e.Hdr:e.Body]}}, nil
	case "HEADER", "TEXT":
		if !e.IsMsg822() {
			return want{}, fmt.Errorf("%s requested for a non-message part", sec)
		}
		in := e.Inner
		if mm[2] == "HEADER" {
			return want{role: "embedded-in(" + string(e.Kind) + ").header", alts: [][]byte{m.A[in.Hdr:in.Body]}}, nil
		}
		return want{role: "embedded-in(" + string(e.Kind) + ").body", alts: [][]byte{m.A[in.Body:in.End]}}, nil
	}
	return want{}, fmt.Errorf("unhandled section %q", sec)
}

// fieldsOf returns the header fields (exact bytes) of the message entity addressed by pfx ("" or "n.m.").
func (j *judge) fieldsOf(pfx string) ([][]byte, []string, error) {
	m := j.m
	var e *Ent
	var out [][]byte
	var names []string
	if pfx == "" {
		e = m.Root
		out = append(out, j.L)
		names = append(names, IDName)
	} else {
		var path []int
		for _, s := range strings.Split(strings.TrimSuffix(pfx, "."), ".") {
			n, _ := strconv.Atoi(s)
			path = append(path, n)
		}
		r := Resolve(m.Root, path)
		if !r.Exists || !r.Part.E.IsMsg822() {
			return nil, nil, fmt.Errorf("HEADER.FIELDS prefix %q is not a message part", pfx)
		}
		e = r.Part.E.Inner
	}
	for _, f := range e.Fields {
		out = append(out, m.A[f.Off:f.End])
		names = append(names, f.Name)
	}
	return out, names, nil
}

// splitFields cuts a header block into field lines (continuation lines joined) and the trailing blank line.
func splitFields(b []byte) (fields [][]byte, blank bool, rest []byte) {
	for len(b) > 0 {
		if b[0] == '\n' || (len(b) >= 2 && b[0] == '\r' && b[1] == '\n') {
			n := 1
			if b[0] == '\r' {
				n = 2
			}
			return fields, true, b[n:]
		}
		end := 0
		for {
			i := bytes.IndexByte(b[end:], '\n')
			if i < 0 {
				end = len(b)
				break
			}
			end += i + 1
			if end >= len(b) || (b[end] != ' ' && b[end] != '\t') {
				break
			}
		}
		fields = append(fields, b[:end])
		b = b[end:]
	}
	return fields, false, nil
}

func fieldFeature(f []byte, name string, names []string) string {
	cnt := 0
	for _, n := range names {
		if strings.EqualFold(n, name) {
			cnt++
		}
	}
	v := bytes.TrimRight(f, "\r\n")
	switch {
	case strings.EqualFold(name, IDName):
		return "id-line"
	case len(v) == len(name)+1:
		return "empty-valued-field"
	case cnt > 1:
		return "repeated-field-name"
	case bytes.Contains(v, []byte("\n")):
		return "folded-field"
	}
	return "plain-field"
}

// ---------------------------------------------------------------------------------------------------------------
// batch function

type session struct {
	fix *wire.Fix
	c   *imapc.Client
	n   int // messages appended into INBOX of this fixture
}

func newSession() (*session, error) {
	fix, err := wire.NewFix()
	if err != nil {
		return nil, err
	}
	s := &session{fix: fix, c: fix.S.C}
	if r := s.c.Cmd("SELECT INBOX"); !r.OK() {
		fix.Close()
		return nil, fmt.Errorf("select INBOX: %v", r.Lines())
	}
	return s, nil
}

var appendUIDRe = regexp.MustCompile(`\[APPENDUID \d+ (\d+)\]`)

type runner struct {
	res      *enumt.Result
	outcomes map[string]bool
	sigs     map[string]bool
	s        *session
	// current message
	key   string
	m     *Msg
	j     *judge
	uid   string
	state string // "" ok | reason why the message cannot be judged
	full  map[string][]byte
	// expected BODY[] of every message appended in the current session whose baseline was accepted, by UID
	stored map[string][]byte
}

func (r *runner) viol(cs Case, clause, sig, msg string) {
	r.res.Counters["violating-cases"]++
	if r.sigs[clause+"/"+sig] {
		return
	}
	r.sigs[clause+"/"+sig] = true
	r.res.Viol = append(r.res.Viol, enumt.Viol{Clause: clause, Sig: sig, Msg: msg, Input: cs})
}

func (r *runner) outcome(k string) { r.outcomes[k] = true }

// prepare APPENDs the message of the case (once per run of equal descriptors) and fetches BODY[] as the baseline.
func (r *runner) prepare(d MsgDesc, cs Case) error {
	if r.key == d.Key() && (r.s != nil || r.state != "") {
		return nil
	}
	m, err := Build(d)
	if err != nil {
		return err
	}
	if r.s == nil {
		if r.s, err = newSession(); err != nil {
			return err
		}
		r.stored = nil
	}
	r.key, r.m, r.j, r.state, r.full = d.Key(), m, nil, "", map[string][]byte{}
	c := r.s.c
	ap := c.CmdLit("APPEND INBOX", m.A, "")
	r.res.Counters["appends"]++
	if ap.Err != nil {
		return fmt.Errorf("APPEND: connection error %v", ap.Err)
	}
	if !ap.OK() {
		// Not FETCH's business, but nothing of this message can be judged: report it as an engine error so that
		// the run is not taken for exhaustive.
		return fmt.Errorf("APPEND of generated message %s refused: %s", d.Key(), ap.Tagged.Text)
	}
	r.s.n++
	if mm := appendUIDRe.FindStringSubmatch(ap.Tagged.Text); mm != nil {
		r.uid = mm[1]
	} else {
		return fmt.Errorf("APPEND without APPENDUID: %q", ap.Tagged.Text)
	}
	c.Cmd("NOOP")
	// The store must be the only source of the literal: a store read error is otherwise healed silently by a
	// re-download from the connector (state.getLiteral). The server is quiescent here.
	conn := r.s.fix.W.Users[0].Conn
	for id := range conn.Messages {
		delete(conn.Messages, id)
	}
	// baseline
	items, st, err := r.fetch("BODY.PEEK[]")
	if err != nil {
		r.state = "baseline-unreadable"
		r.viol(cs, "FRAMING", "full-message/"+errClass(err), fmt.Sprintf("UID FETCH %s (BODY.PEEK[]) of %s: %v", r.uid, d.Key(), err))
		r.s.fix.Close()
		r.s = nil
		return nil
	}
	it := pick(items, "BODY[]", 0)
	if st != "OK" || it == nil {
		r.state = "baseline-refused"
		r.viol(cs, "FULL", "full-message/refused", fmt.Sprintf("BODY.PEEK[] of a freshly appended message answered %s without data (%s)", st, d.Key()))
		return nil
	}
	F := it.Data
	j := &judge{m: m}
	// F must be A with exactly one ID line in front of the first header field (offset 0 in every generated message)
	extra := len(F) - len(m.A)
	idRe := regexp.MustCompile(`^` + regexp.QuoteMeta(IDName) + `: [!-~]+\r?\n$`)
	switch {
	case extra > 0 && bytes.Equal(F[extra:], m.A) && idRe.Match(F[:extra]):
		j.L = append([]byte{}, F[:extra]...)
	default:
		r.state = "baseline-differs"
		class := "other"
		switch {
		case bytes.Equal(F, m.A):
			class = "no-id-line"
		case extra > 0 && bytes.Equal(F[extra:], m.A):
			class = "bad-id-line"
		case extra > 0 && bytes.Contains(F, []byte(IDName)):
			class = "id-line-elsewhere-or-bytes-changed"
		}
		r.viol(cs, "FULL", "full-message/"+class, fmt.Sprintf("BODY[] is not the appended message plus one %s line in front of the first header field: appended %d bytes, BODY[] %d bytes, first difference at %d; BODY[] starts %s (%s)", IDName, len(m.A), len(F), firstDiff(F, m.A), clipB(F, 120), d.Key()))
		return nil
	}
	j.S = append(append([]byte{}, j.L...), m.A...)
	j.buildRegions()
	r.j = j
	r.full[""] = j.S
	if r.stored == nil {
		r.stored = map[string][]byte{}
	}
	r.stored[r.uid] = j.S
	return nil
}

// fetchAll fetches all messages of the session with ONE command (the server works on several messages at once then —
// it fetches in parallel by default — and may answer in any order): every row must carry the bytes and the size of
// the message with that UID.
func (r *runner) fetchAll(cs Case) {
	if r.s == nil || len(r.stored) < 2 {
		return
	}
	res := r.s.c.Cmd("UID FETCH 1:* (RFC822.SIZE BODY.PEEK[])")
	r.res.Counters["fetches"]++
	if res.Err != nil || res.Status != "OK" {
		r.viol(cs, "MULTI", "all-messages/"+res.Status, fmt.Sprintf("UID FETCH 1:* (RFC822.SIZE BODY.PEEK[]) over %d messages: %v %s", len(r.stored), res.Err, clip(res.Tagged.Text, 120)))
		return
	}
	seen := map[string]bool{}
	for _, u := range res.Untagged {
		if !strings.Contains(u.Text, " FETCH ") {
			continue
		}
		_, its, err := ParseFetch(u)
		if err != nil {
			r.viol(cs, "MULTI", "all-messages/framing", fmt.Sprintf("UID FETCH 1:* row: %v; %s", err, clip(u.Text, 160)))
			return
		}
		uid, body, size := "", (*Item)(nil), ""
		for i := range its {
			switch strings.ToUpper(its[i].Name) {
			case "UID":
				uid = its[i].Atom
			case "BODY[]":
				body = &its[i]
			case "RFC822.SIZE":
				size = its[i].Atom
			}
		}
		want, ok := r.stored[uid]
		if !ok {
			continue // a message whose baseline was not accepted
		}
		if seen[uid] {
			r.viol(cs, "MULTI", "all-messages/duplicate-row", "UID "+uid+" answered twice by UID FETCH 1:*")
		}
		seen[uid] = true
		if body == nil || !bytes.Equal(body.Data, want) {
			got := []byte(nil)
			if body != nil {
				got = body.Data
			}
			r.viol(cs, "MULTI", "all-messages/other-bytes", fmt.Sprintf("UID FETCH 1:* (… BODY.PEEK[]): the row of UID %s carries %d bytes (%s), the message has %d (first difference at %d)", uid, len(got), clipB(got, 60), len(want), firstDiff(got, want)))
		}
		if size != fmt.Sprint(len(want)) {
			r.viol(cs, "MULTI", "all-messages/size", fmt.Sprintf("UID FETCH 1:*: RFC822.SIZE %s for UID %s whose BODY[] has %d bytes", size, uid, len(want)))
		}
	}
	for uid := range r.stored {
		if !seen[uid] {
			r.viol(cs, "MULTI", "all-messages/missing-row", "UID FETCH 1:* over "+fmt.Sprint(len(r.stored))+" messages has no row for UID "+uid)
		}
	}
	r.outcome(fmt.Sprintf("multi/%d", len(r.stored)))
}

func firstDiff(a, b []byte) int {
	n := len(a)
	if len(b) < n {
		n = len(b)
	}
	for i := 0; i < n; i++ {
		if a[i] != b[i] {
			return i
		}
	}
	return n
}

func errClass(err error) string {
	s := err.Error()
	switch {
	case strings.Contains(s, "timeout"), strings.Contains(s, "deadline"):
		return "stream-stalled"
	case strings.Contains(s, "closed"):
		return "connection-closed"
	}
	return "response-does-not-parse"
}

// fetch sends UID FETCH <uid> (<attrs>) and returns the items of the FETCH response(s) for the message.
func (r *runner) fetch(attrs string) ([]Item, string, error) {
	c := r.s.c
	res := c.Cmd("UID FETCH " + r.uid + " (" + attrs + ")")
	r.res.Counters["fetches"]++
	if res.Err != nil {
		return nil, "", fmt.Errorf("connection: %w (after %d untagged responses)", res.Err, len(res.Untagged))
	}
	var items []Item
	for _, u := range res.Untagged {
		if !strings.Contains(u.Text, " FETCH ") {
			if strings.HasPrefix(u.Text, "* ") && !strings.Contains(u.Text, "{") {
				continue // EXISTS / RECENT / OK ...
			}
			return nil, res.Status, fmt.Errorf("stray data between responses: %s", clip(u.Text, 80))
		}
		_, its, err := ParseFetch(u)
		if err != nil {
			return nil, res.Status, fmt.Errorf("%w; response text %s", err, clip(u.Text, 160))
		}
		items = append(items, its...)
	}
	if c.HasBuffered() {
		return nil, res.Status, fmt.Errorf("bytes left after the tagged response")
	}
	switch res.Status {
	case "OK", "NO", "BAD":
	default:
		return nil, res.Status, fmt.Errorf("tagged response %s", clip(res.Tagged.Text, 80))
	}
	return items, res.Status, nil
}

func normName(s string) string {
	s = strings.ToUpper(s)
	s = strings.Replace(s, "BODY.PEEK[", "BODY[", 1)
	return strings.Join(strings.Fields(s), " ")
}

// pick finds the item answering the requested attribute: by name, else the pos-th string item.
func pick(items []Item, name string, pos int) *Item {
	for i := range items {
		if normName(items[i].Name) == normName(name) {
			return &items[i]
		}
	}
	k := 0
	for i := range items {
		n := strings.ToUpper(items[i].Name)
		if strings.HasPrefix(n, "BODY[") || n == "RFC822" || n == "RFC822.HEADER" || n == "RFC822.TEXT" {
			if k == pos {
				return &items[i]
			}
			k++
		}
	}
	return nil
}

func (r *runner) reconnect() {
	if r.s != nil {
		r.s.fix.Close()
	}
	r.s = nil
	r.key = ""
}

func attrOf(cs Case) string {
	switch cs.Kind {
	case "sec":
		return "BODY.PEEK[" + cs.Sec + "]"
	case "pair":
		return "BODY.PEEK[HEADER] BODY.PEEK[TEXT]"
	case "item":
		return cs.Sec
	case "fields":
		return "BODY.PEEK[" + cs.Pfx + "HEADER.FIELDS (" + cs.Sec + ")] BODY.PEEK[" + cs.Pfx + "HEADER.FIELDS.NOT (" + cs.Sec + ")]"
	}
	return ""
}

func secClass(sec string) string {
	mm := secRe.FindStringSubmatch(sec)
	if mm == nil {
		return "?"
	}
	switch {
	case mm[1] == "" && mm[2] == "":
		return "[]"
	case mm[1] == "":
		return "[" + mm[2] + "]"
	case mm[2] == "":
		return "[part]"
	}
	return "[part." + mm[2] + "]"
}

// judgeData compares one returned string with the accepted contents.
func (r *runner) judgeData(cs Case, what string, w want, st string, it *Item) {
	j := r.j
	ok := false
	var got []byte
	switch {
	case st != "OK":
		ok = w.mayFail
	case it == nil:
		ok = w.mayFail
	default:
		got = it.Data
		for _, a := range w.alts {
			if bytes.Equal(a, got) {
				ok = true
			}
		}
	}
	gotRole := "refused(" + st + ")"
	if st == "OK" {
		if it == nil {
			gotRole = "no-item"
		} else {
			canon := w.alts[0]
			for _, a := range w.alts {
				if len(a) > len(canon) {
					canon = a
				}
			}
			gotRole = j.describe(got, canon)
		}
	}
	if w.choice != "" {
		r.res.Counters["choice: "+w.choice+" -> "+gotRole]++
	}
	r.outcome(what + "|" + w.role + "|" + gotRole)
	if ok {
		return
	}
	r.viol(cs, "SECTION", r.sectionSig(cs.Sec, what, w.role, gotRole, got),
		fmt.Sprintf("UID FETCH (%s) of %s: expected %s (%d bytes: %s), server answered %s with %s (%d bytes: %s)",
			attrOf(cs), r.m.Desc.Key(), w.role, len(w.alts[0]), clipB(w.alts[0], 80), st, gotRole, len(got), clipB(got, 120)))
}

var relations = map[string]bool{"proper-prefix": true, "proper-suffix": true, "expected+trailing-bytes": true, "leading-bytes+expected": true, "same-length-different-bytes": true, "other-bytes": true}

var kindRe = regexp.MustCompile(`\([A-Z]\)`)

// rootSig collapses everything that goes wrong on a message whose top-level Content-Type is message/rfc822 into
// two witness classes (message-text sections; part numbering).
func (r *runner) rootSig(parts bool) (string, bool) {
	if !r.m.Root.IsMsg822() {
		return "", false
	}
	if parts {
		return "top-level-message/rfc822/part-sections", true
	}
	return "top-level-message/rfc822/HEADER-TEXT-sections", true
}

// sectionSig names the witness class of a wrong section: (1) the top-level message is itself message/rfc822,
// (2) the server answered as if the part path stopped at a proper prefix, (3) expected/returned regions.
func (r *runner) sectionSig(sec, what, wantRole, gotRole string, got []byte) string {
	mm := secRe.FindStringSubmatch(sec)
	isPart := mm != nil && mm[1] != ""
	if isPart && len(got) > 0 {
		comps := strings.Split(mm[1], ".")
		for k := len(comps) - 1; k >= 1; k-- {
			q := strings.Join(comps[:k], ".")
			if mm[2] != "" {
				q += "." + mm[2]
			}
			if w, err := r.j.section(q); err == nil && len(w.alts) > 0 && len(w.alts[0]) > 0 && bytes.Equal(w.alts[0], got) && w.role != "nonexistent-part" {
				if strings.HasPrefix(wantRole, "nonexistent") || strings.HasPrefix(wantRole, "leaf.1") {
					return "part-path/nonexistent-part-answered-as-a-proper-prefix-of-the-path"
				}
				return "part-path/existing-part-answered-as-a-proper-prefix-of-the-path"
			}
		}
	}
	if s, ok := r.rootSig(isPart); ok {
		return s
	}
	group := what
	if isPart {
		group = "part-sections"
	}
	if relations[gotRole] {
		// the returned bytes are no region of the message: the relation to the expected bytes is the class
		return group + "/" + gotRole
	}
	return group + "/want=" + kindRe.ReplaceAllString(wantRole, "") + "/got=" + kindRe.ReplaceAllString(gotRole, "")
}

func (r *runner) runCase(cs Case) error {
	r.res.Evaluations++
	if r.state != "" {
		r.res.Counters["unjudged: "+r.state]++
		return nil
	}
	j := r.j
	switch cs.Kind {
	case "sec":
		w, err := j.section(cs.Sec)
		if err != nil {
			return err
		}
		items, st, err := r.fetch(attrOf(cs))
		if err != nil {
			r.viol(cs, "FRAMING", secClass(cs.Sec)+"/"+errClass(err), fmt.Sprintf("UID FETCH (%s) of %s: %v", attrOf(cs), r.m.Desc.Key(), err))
			r.reconnect()
			return nil
		}
		r.judgeData(cs, secClass(cs.Sec), w, st, pick(items, "BODY["+cs.Sec+"]", 0))
	case "pair":
		items, st, err := r.fetch(attrOf(cs))
		if err != nil {
			r.viol(cs, "FRAMING", "[HEADER]+[TEXT]/"+errClass(err), fmt.Sprintf("UID FETCH (%s) of %s: %v", attrOf(cs), r.m.Desc.Key(), err))
			r.reconnect()
			return nil
		}
		h, t := pick(items, "BODY[HEADER]", 0), pick(items, "BODY[TEXT]", 1)
		if st != "OK" || h == nil || t == nil {
			r.viol(cs, "SECTION", "[HEADER]+[TEXT]/refused", fmt.Sprintf("UID FETCH (%s) of %s answered %s", attrOf(cs), r.m.Desc.Key(), st))
			return nil
		}
		cat := append(append([]byte{}, h.Data...), t.Data...)
		if bytes.Equal(cat, j.S) {
			r.outcome("[HEADER]+[TEXT]|concatenation=BODY[]")
			return nil
		}
		r.outcome("[HEADER]+[TEXT]|concatenation!=BODY[]")
		psig := "[HEADER]+[TEXT]/header=" + kindRe.ReplaceAllString(j.describe(h.Data, j.msgHeader(j.m.Root)), "") + "/text=" + kindRe.ReplaceAllString(j.describe(t.Data, j.m.A[j.m.Root.Body:]), "")
		if s, ok := r.rootSig(false); ok {
			psig = s
		}
		r.viol(cs, "SECTION", psig,
			fmt.Sprintf("BODY[HEADER] followed by BODY[TEXT] is not BODY[] for %s: %d + %d bytes against %d; HEADER = %s", r.m.Desc.Key(), len(h.Data), len(t.Data), len(j.S), clipB(h.Data, 120)))
	case "item":
		items, st, err := r.fetch(attrOf(cs))
		if err != nil {
			r.viol(cs, "FRAMING", cs.Sec+"/"+errClass(err), fmt.Sprintf("UID FETCH (%s) of %s: %v", attrOf(cs), r.m.Desc.Key(), err))
			r.reconnect()
			return nil
		}
		for pos, name := range strings.Fields(cs.Sec) {
			var w want
			switch name {
			case "RFC822":
				w = want{role: "stored-message", alts: [][]byte{j.S}}
			case "RFC822.HEADER":
				w = want{role: "root.header+id", alts: [][]byte{j.msgHeader(j.m.Root)}}
			case "RFC822.TEXT":
				w = want{role: "root.text", alts: [][]byte{j.m.A[j.m.Root.Body:]}}
			case "RFC822.SIZE":
				var it *Item
				for i := range items {
					if strings.EqualFold(items[i].Name, "RFC822.SIZE") {
						it = &items[i]
					}
				}
				got := "none"
				if it != nil {
					got = it.Atom
				}
				if st == "OK" && got == strconv.Itoa(len(j.S)) {
					r.outcome("RFC822.SIZE|=len(BODY[])")
					continue
				}
				rel := "other"
				if got == strconv.Itoa(len(j.m.A)) {
					rel = "length-of-appended-bytes-without-id-line"
				}
				r.outcome("RFC822.SIZE|" + rel)
				r.viol(cs, "SIZE", "RFC822.SIZE/"+rel, fmt.Sprintf("RFC822.SIZE of %s is %s (status %s), BODY[] has %d bytes (appended %d)", r.m.Desc.Key(), got, st, len(j.S), len(j.m.A)))
				continue
			}
			npos := pos
			if strings.Contains(cs.Sec, "RFC822.SIZE ") {
				npos = pos - 1
			}
			r.judgeData(cs, name, w, st, pick(items, name, npos))
		}
	case "fields":
		return r.runFields(cs)
	case "partial":
		return r.runPartial(cs)
	default:
		return fmt.Errorf("unknown case kind %q", cs.Kind)
	}
	return nil
}

func (r *runner) runFields(cs Case) error {
	j := r.j
	all, names, err := j.fieldsOf(cs.Pfx)
	if err != nil {
		return err
	}
	wantSet := map[string]bool{}
	for _, n := range strings.Fields(cs.Sec) {
		wantSet[strings.ToLower(n)] = true
	}
	items, st, err := r.fetch(attrOf(cs))
	where := "top"
	if cs.Pfx != "" {
		where = "embedded"
	}
	if err != nil {
		r.viol(cs, "FRAMING", "HEADER.FIELDS("+where+")/"+errClass(err), fmt.Sprintf("UID FETCH (%s) of %s: %v", attrOf(cs), r.m.Desc.Key(), err))
		r.reconnect()
		return nil
	}
	in := pick(items, "BODY["+cs.Pfx+"HEADER.FIELDS ("+cs.Sec+")]", 0)
	not := pick(items, "BODY["+cs.Pfx+"HEADER.FIELDS.NOT ("+cs.Sec+")]", 1)
	if st != "OK" || in == nil || not == nil || in == not {
		r.outcome("HEADER.FIELDS|" + where + "|refused")
		r.viol(cs, "FIELDS", "HEADER.FIELDS("+where+")/refused", fmt.Sprintf("UID FETCH (%s) of %s answered %s with %d items", attrOf(cs), r.m.Desc.Key(), st, len(items)))
		return nil
	}
	inF, inBlank, inRest := splitFields(in.Data)
	notF, notBlank, notRest := splitFields(not.Data)
	// multisets
	type ent struct {
		idx  int
		side string // expected side
	}
	expect := map[string][]ent{}
	nIn := 0
	for i, f := range all {
		side := "NOT"
		if wantSet[strings.ToLower(names[i])] {
			side = "IN"
			nIn++
		}
		expect[string(f)] = append(expect[string(f)], ent{i, side})
	}
	problem, feature, detail := "", "", ""
	note := func(p, f, d string) {
		if problem == "" {
			problem, feature, detail = p, f, d
		}
	}
	take := func(f []byte, side string) {
		l := expect[string(f)]
		for k, e := range l {
			if e.side == side {
				expect[string(f)] = append(append([]ent{}, l[:k]...), l[k+1:]...)
				return
			}
		}
		// not an expected field on this side: on the other side? a damaged copy of a field?
		for _, e := range l {
			note("field-on-the-wrong-side", fieldFeature(all[e.idx], names[e.idx], names), fmt.Sprintf("%s appears in HEADER.FIELDS%s", clipB(f, 60), map[string]string{"IN": "", "NOT": ".NOT"}[side]))
			return
		}
		for i, a := range all {
			if bytes.HasPrefix(f, []byte(names[i])) && !bytes.Equal(a, f) {
				note("field-bytes-changed", fieldFeature(a, names[i], names), fmt.Sprintf("field %s came back as %s", clipB(a, 60), clipB(f, 80)))
				return
			}
		}
		note("unknown-field-line", "n/a", fmt.Sprintf("unexpected line %s", clipB(f, 80)))
	}
	for _, f := range inF {
		take(f, "IN")
	}
	for _, f := range notF {
		take(f, "NOT")
	}
	for _, l := range expect {
		for _, e := range l {
			note("field-lost", fieldFeature(all[e.idx], names[e.idx], names), fmt.Sprintf("field %s is in neither HEADER.FIELDS nor HEADER.FIELDS.NOT intact", clipB(all[e.idx], 60)))
		}
	}
	if !inBlank || !notBlank || len(inRest) > 0 || len(notRest) > 0 {
		note("blank-line", "n/a", fmt.Sprintf("delimiting blank line missing or followed by data: FIELDS %s, NOT %s", clipB(in.Data, 80), clipB(not.Data, 80)))
	}
	sz := "0"
	switch {
	case nIn == len(all):
		sz = "all"
	case nIn > 0:
		sz = "some"
	}
	if problem == "" {
		// order is not judged (multisets), but counted
		var cat []byte
		for i, f := range all {
			if wantSet[strings.ToLower(names[i])] {
				cat = append(cat, f...)
			}
		}
		if !bytes.HasPrefix(in.Data, cat) {
			r.res.Counters["fields-reordered (accepted)"]++
		}
		r.outcome("HEADER.FIELDS|" + where + "|matched=" + sz + "|partition-exact")
		return nil
	}
	r.outcome("HEADER.FIELDS|" + where + "|" + problem + "|" + feature)
	fsig := "HEADER.FIELDS(" + where + ")/" + problem + "/" + feature
	if s, ok := r.rootSig(cs.Pfx != ""); ok {
		fsig = s
	}
	fclause := "FIELDS"
	if r.m.Root.IsMsg822() {
		fclause = "SECTION"
	}
	r.viol(cs, fclause, fsig,
		fmt.Sprintf("UID FETCH (%s) of %s: %s. HEADER.FIELDS = %s ; HEADER.FIELDS.NOT = %s", attrOf(cs), r.m.Desc.Key(), detail, clipB(in.Data, 200), clipB(not.Data, 300)))
	return nil
}

// serverFull is the section as the server returns it without a partial (cached per message).
func (r *runner) serverFull(sec string) ([]byte, bool, error) {
	if b, ok := r.full["sec:"+sec]; ok {
		return b, b != nil, nil
	}
	items, st, err := r.fetch("BODY.PEEK[" + sec + "]")
	if err != nil {
		return nil, false, err
	}
	it := pick(items, "BODY["+sec+"]", 0)
	if st != "OK" || it == nil || it.IsNil {
		r.full["sec:"+sec] = nil
		return nil, false, nil
	}
	b := it.Data
	if b == nil {
		b = []byte{}
	}
	r.full["sec:"+sec] = b
	return b, true, nil
}

func (r *runner) runPartial(cs Case) error {
	j := r.j
	w, err := j.section(cs.Sec)
	if err != nil {
		return err
	}
	_ = w
	full, okFull, err := r.serverFull(cs.Sec)
	if err != nil {
		r.viol(cs, "FRAMING", "partial/"+errClass(err), fmt.Sprintf("UID FETCH (BODY.PEEK[%s]) of %s: %v", cs.Sec, r.m.Desc.Key(), err))
		r.reconnect()
		return nil
	}
	if !okFull {
		r.res.Counters["unjudged: partial of a section the server does not return in full"]++
		return nil
	}
	if !bytes.Equal(full, w.alts[0]) {
		// the full section is wrong (reported by its own case); the partial is still judged as a slice of what
		// the server returns in full
		r.res.Counters["partial judged against a full section that itself differs from the oracle"]++
	}
	n := len(full)
	o, ok1 := Symbolic(cs.O, n)
	cnt, ok2 := Symbolic(cs.N, n)
	if !ok1 || !ok2 || cnt == 0 {
		r.res.Counters["partial without a value (len-1 or count 0 of an empty section)"]++
		return nil
	}
	attr := fmt.Sprintf("BODY.PEEK[%s]<%d.%d>", cs.Sec, o, cnt)
	items, st, err := r.fetch(attr)
	if err != nil {
		r.viol(cs, "FRAMING", "partial/"+errClass(err), fmt.Sprintf("UID FETCH (%s) of %s: %v", attr, r.m.Desc.Key(), err))
		r.reconnect()
		return nil
	}
	lo := uint64(n)
	if o < lo {
		lo = o
	}
	hi := uint64(n)
	if cnt < hi-lo { // no overflow: hi-lo <= n
		hi = lo + cnt
	}
	exp := full[lo:hi]
	beyond32 := o >= 1<<32 || cnt >= 1<<32
	oc := "inside"
	switch {
	case o >= uint64(n) && o >= 1<<31:
		oc = "origin=" + cs.O
	case o >= uint64(n):
		oc = "origin>=len"
	}
	nc := "count-within"
	switch {
	case cnt >= 1<<31:
		nc = "count=" + cs.N
	case o < uint64(n) && cnt > uint64(n)-o:
		nc = "count-beyond-end"
	}
	if st != "OK" {
		r.outcome("partial|" + oc + "|" + nc + "|" + st)
		if beyond32 {
			r.res.Counters["choice: partial with a number >= 2^32 (outside RFC 3501 numbers) -> "+st]++
			return nil
		}
		r.viol(cs, "PARTIAL", "partial/refused/"+oc+"/"+nc, fmt.Sprintf("UID FETCH (%s) of %s answered %s; the section has %d bytes", attr, r.m.Desc.Key(), st, n))
		return nil
	}
	it := pick(items, fmt.Sprintf("BODY[%s]<%d>", cs.Sec, o), 0)
	var got []byte
	if it != nil {
		got = it.Data
	}
	if it == nil && len(exp) > 0 {
		r.viol(cs, "PARTIAL", "partial/no-item", fmt.Sprintf("UID FETCH (%s) of %s: OK without the item", attr, r.m.Desc.Key()))
		return nil
	}
	if bytes.Equal(got, exp) {
		cls := "slice"
		if len(exp) == 0 {
			cls = "empty"
		}
		if it != nil && it.Origin != fmt.Sprintf("<%d>", o) {
			r.res.Counters["partial answered without/with another <origin> (not judged)"]++
		}
		if beyond32 {
			r.res.Counters["choice: partial with a number >= 2^32 (outside RFC 3501 numbers) -> OK exact"]++
		}
		r.outcome("partial|" + oc + "|" + nc + "|" + cls)
		return nil
	}
	rel := "other"
	switch {
	case len(got) > len(exp) && bytes.HasPrefix(got, exp):
		rel = "longer-than-requested"
	case len(got) < len(exp) && bytes.HasPrefix(exp, got):
		rel = "shorter-than-available"
	case bytes.Contains(full, got) && len(got) > 0:
		rel = "slice-at-another-offset"
	}
	r.outcome("partial|" + oc + "|" + nc + "|wrong:" + rel)
	r.viol(cs, "PARTIAL", "partial/"+rel+"/"+oc+"/"+nc, fmt.Sprintf("UID FETCH (%s) of %s: the section has %d bytes, expected bytes [%d,%d) = %s, got %d bytes %s", attr, r.m.Desc.Key(), n, lo, hi, clipB(exp, 60), len(got), clipB(got, 60)))
	return nil
}

// Call is the batch function: cases grouped per message, one APPEND per run of equal messages.
func Call(raw json.RawMessage) (any, error) {
	chunk, err := enumt.ParseChunk(raw)
	if err != nil {
		return nil, err
	}
	// A stalled stream (announced literal longer than the bytes sent) ends by the client's read timeout; this
	// watchdog only guards against a wedged harness.
	wd := time.AfterFunc(20*time.Minute, func() {
		fmt.Fprintln(os.Stderr, "panic: watchdog: c13 chunk did not finish in 20 minutes")
		os.Exit(3)
	})
	defer wd.Stop()
	r := &runner{res: &enumt.Result{Counters: map[string]int{}}, outcomes: map[string]bool{}, sigs: map[string]bool{}}
	defer func() {
		if r.s != nil {
			r.s.fix.Close()
		}
	}()
	for _, rc := range chunk.Cases {
		var cs Case
		if err := json.Unmarshal(rc, &cs); err != nil {
			return nil, err
		}
		if err := r.prepare(cs.M, cs); err != nil {
			return nil, err
		}
		before := len(r.res.Viol)
		if err := r.runCase(cs); err != nil {
			return nil, err
		}
		if len(r.res.Samples) < 2 && r.m != nil {
			r.res.Samples = append(r.res.Samples, map[string]any{"case": cs, "fetch": attrOf(cs), "appended_bytes": len(r.m.A), "violated": len(r.res.Viol) > before})
		}
	}
	if len(chunk.Cases) > 0 {
		var cs Case
		_ = json.Unmarshal(chunk.Cases[len(chunk.Cases)-1], &cs)
		r.fetchAll(cs)
	}
	for k := range r.outcomes {
		r.res.Outcomes = append(r.res.Outcomes, k)
	}
	sort.Strings(r.res.Outcomes)
	return r.res, nil
}
