package teardown

import (
	"bytes"
	"context"
	"encoding/json"
	"fmt"
	"os"
	"regexp"
	"runtime"
	"sort"
	"strings"
	"time"

	"github.com/ProtonMail/gluon"
	"github.com/ProtonMail/gluon/store"

	"verif/engine/crash"
	"verif/engine/enumt"
	"verif/engine/explore"
	"verif/engine/imapc"
	"verif/engine/vconn"
	"verif/engine/world"
)

// C19, interleaving part: several parties act AT ONCE on a real server — a command in flight on session 1, optionally
// a command on session 2 and a connector update, and a tear-down action (disconnect, LOGOUT, RemoveUser, Close).
// Every database transaction of the server (db.Client Read / Write, whoever issues it: a command handler, the
// application of a queued state update inside a session goroutine, the connector-update goroutine, tear-down code)
// parks at its start; the explorer waits until the whole process is quiescent (every goroutine other than itself is
// in a blocking wait, read from the runtime's goroutine dump — not a time-out), then chooses which parked
// transaction proceeds. All orders within the preemption bound are enumerated by depth-first replay on fresh servers.
// Oracle: when nothing is parked any more and the process is quiescent, every party must have completed (a command
// got its tagged reply or its connection was closed; RemoveUser / Close returned) — otherwise that schedule is a
// deadlock; then Server.Close must return and no gluon goroutine may be left. A panic kills the worker and is
// reported by the enumeration driver as a crash of that case.

type ConcCase struct {
	Cmd1     string `json:"cmd1"`              // command of session 1 (selected INBOX)
	Cmd2     string `json:"cmd2,omitempty"`    // command of session 2 (selected INBOX), optional
	Conn     string `json:"conn,omitempty"`    // connector update, optional: created | deleted | mboxdeleted
	Teardown string `json:"teardown"`          // drop1 | drop2 | logout2 | removeuser | close
	Bound    int    `json:"bound"`             // preemption bound (-1: unbounded)
	MaxSec   int    `json:"max_sec,omitempty"` // stop exploring the case after this many seconds (reported as capped)
	Pipe     bool   `json:"pipe,omitempty"`    // two NOOPs follow cmd1 in the same segment
	Free     bool   `json:"free,omitempty"`    // no gating: all parties run freely under the Go scheduler (race-detector pass)
	Hold     bool   `json:"hold,omitempty"`    // state updates are held back and handed to a session when the explorer says so
}

func (c ConcCase) String() string {
	h := ""
	if c.Hold {
		h = "|hold"
	}
	if c.Pipe {
		h += "|pipe"
	}
	return fmt.Sprintf("%s|%s|%s|%s%s", c.Cmd1, c.Cmd2, c.Conn, c.Teardown, h)
}

func init() { explore.RegisterCall("c19conc", concCall) }

type party struct {
	name    string
	gid     int64
	done    chan string
	status  string
	fin     bool
	gate    *crash.Gated
	deliver *gluon.VerifStateRef // pseudo-party "deliver:s<i>": hands the oldest held update to session i
}

type concExec struct {
	enabled  [][]string // per decision point: names of the parties parked at a transaction, canonical order
	runFirst []bool     // per decision point: the party that ran last is enabled (it is then enabled[0])
	choices  []int
	schedule []string
	viol     []enumt.Viol
	engine   string
	diverged bool
	poisoned bool   // a deadlock / hang was found: the server of this execution is not closed
	unstable string // set when the process did not become quiescent (execution not counted as explored)
	outcome  string
}

var hdrRe = regexp.MustCompile(`(?m)^goroutine (\d+) \[([^\],]+)`)

// busy reports the goroutines (other than self) that are not in a blocking wait.
func busy(self int64) []string {
	buf := make([]byte, 1<<19)
	for {
		n := runtime.Stack(buf, true)
		if n < len(buf) {
			buf = buf[:n]
			break
		}
		buf = make([]byte, 2*len(buf))
	}
	var out []string
	for _, g := range bytes.Split(buf, []byte("\n\n")) {
		m := hdrRe.FindSubmatch(g)
		if m == nil {
			continue
		}
		var id int64
		fmt.Sscan(string(m[1]), &id)
		if id == self {
			continue
		}
		switch st := string(m[2]); st {
		case "running", "runnable", "syscall", "sleep", "copystack", "preempted", "waiting", "dead", "idle":
			out = append(out, fmt.Sprintf("%d:%s", id, st))
		}
	}
	return out
}

func selfGID() int64 {
	buf := make([]byte, 64)
	buf = buf[:runtime.Stack(buf, false)]
	var gid int64
	fmt.Sscanf(string(buf), "goroutine %d ", &gid)
	return gid
}

// settle waits until the process is quiescent: two consecutive goroutine dumps without a busy goroutine.
func settle(self int64) (bool, []string) {
	deadline := time.Now().Add(30 * time.Second)
	quiet := 0
	var last []string
	for time.Now().Before(deadline) {
		if last = busy(self); len(last) == 0 {
			quiet++
			if quiet >= 2 {
				return true, nil
			}
			runtime.Gosched()
			continue
		}
		quiet = 0
		runtime.Gosched()
		time.Sleep(20 * time.Microsecond)
	}
	return false, last
}

// runC19Conc executes one schedule: the choices of prefix at the first decision points (expect, if given, holds the
// enabled sets seen when the prefix was recorded), the canonical first choice afterwards.
func runC19Conc(cs ConcCase, prefix []int, expect [][]string) *concExec {
	x := &concExec{}
	self := selfGID()
	base := goroutines()
	h := &crash.Hook{Track: true}
	w, err := world.New(world.Config{Hold: cs.Hold, Parallel: true,
		StoreBuilder: crash.StoreBuilder{Inner: &store.OnDiskStoreBuilder{}, H: h},
		DBCI:         crash.CI{Inner: gluon.VerifSQLiteClientInterface(), H: h}})
	if err != nil {
		x.engine = err.Error()
		return x
	}
	closed := false // Server.Close has been called by the tear-down party
	defer func() {
		h.SetGate(false)
		if x.poisoned {
			// the server is deadlocked: closing it would only wait for the watchdog; its goroutines stay blocked for
			// the rest of this worker's life (they are part of the goroutine baseline of later executions)
			_ = os.RemoveAll(w.Dir)
			return
		}
		if closed {
			w.Closed()
		}
		w.Close()
	}()
	fail := func(e string) *concExec { x.engine = e; return x }
	// pre-state: INBOX holds a (\Deleted), b, c; mailbox "other" exists
	if r := w.Inject(0, vconn.Spec{Kind: "MailboxCreated", Mbox: "mb-o", Name: []string{"other"}}); r.Err != "" {
		return fail("setup: " + r.Err)
	}
	for _, k := range []string{"a", "b", "c"} {
		sp := vconn.Spec{Kind: "MessagesCreated", Msg: "c-" + k, Key: k, Mboxes: []string{"0"}}
		if k == "a" {
			sp.Flags = []string{`\Deleted`}
		}
		if r := w.Inject(0, sp); r.Err != "" {
			return fail("setup: " + r.Err)
		}
		w.Users[0].Conn.NoteRemote(sp)
	}
	var sess []*world.Sess
	var serveGID []int64 // per session: the goroutine that serves the connection; command goroutines are its children
	nsess := 2
	for i := 0; i < nsess; i++ {
		s, err := w.Connect()
		if err != nil {
			return fail(err.Error())
		}
		w.Login(s, 0)
		if r := s.C.Cmd("SELECT INBOX"); !r.OK() {
			return fail("select failed")
		}
		sess = append(sess, s)
		serveGID = append(serveGID, h.LastParent)
	}
	var refs []*gluon.VerifStateRef
	for _, s := range sess {
		ref, err := w.Srv.VerifStateRef(w.Users[0].ID, s.StateID)
		if err != nil {
			return fail(err.Error())
		}
		refs = append(refs, ref)
	}
	if serveGID[0] == serveGID[1] || serveGID[0] == 0 || serveGID[1] == 0 {
		return fail(fmt.Sprintf("could not tell the sessions apart: %v", serveGID))
	}
	if ok, b := settle(self); !ok {
		x.unstable = "setup: " + strings.Join(b, ",")
		return x
	}

	var parties []*party
	byName := map[string]*party{}
	add := func(name string) *party {
		p := &party{name: name, done: make(chan string, 1)}
		parties = append(parties, p)
		byName[name] = p
		return p
	}
	var tdGID int64
	// partyOf names the server goroutine that is parked: the session it belongs to (receiver pointer of the
	// innermost Session method on its stack) and that method, the connector-update goroutine, the tear-down caller,
	// or else its innermost gluon function.
	sessionFn := regexp.MustCompile(`/internal/session\.\(\*Session\)\.(\w+)`)
	partyOf := func(g *crash.Gated) *party {
		name := ""
		switch {
		case g.GID == tdGID && tdGID != 0:
			name = "teardown:" + cs.Teardown
		case strings.Contains(g.Frame, "/internal/session.(*Session)."):
			idx := "?"
			for i, sg := range serveGID {
				if sg == g.GID || sg == g.Parent {
					idx = fmt.Sprint(i + 1)
				}
			}
			fn := ""
			if m := sessionFn.FindStringSubmatch(g.Frame); m != nil {
				fn = m[1]
			}
			name = "s" + idx + "/" + fn
			if idx == "?" && os.Getenv("VERIF_TRACE") == "2" {
				fmt.Fprintf(os.Stderr, "unknown session gid %d parent %d (known %v): %s\n", g.GID, g.Parent, serveGID, g.Frame)
			}
		case strings.Contains(g.Frame, "/internal/backend.(*user).apply"):
			name = "connector"
		default:
			name = "g:" + firstFrame(g.Frame)
		}
		for k := 1; ; k++ {
			n := name
			if k > 1 {
				n = fmt.Sprintf("%s#%d", name, k)
			}
			p := byName[n]
			if p == nil {
				p = add(n)
				p.fin = true // server goroutines have no call of their own to complete
			}
			if p.gate == nil {
				return p
			}
		}
	}
	// the harness calls that must complete
	type call struct {
		p  *party
		fn func() string
	}
	var calls []call
	cmd := func(i int, c string) func() string {
		return func() string {
			var r imapc.Result
			if strings.HasPrefix(c, "APPEND") {
				r = sess[i].C.CmdLit("APPEND INBOX", vconn.MakeLiteral("n1"), "")
			} else if i == 0 && cs.Pipe {
				// two more commands arrive in the same segment: the command reader has the next one in hand while the
				// session is busy with the first
				tag := sess[i].C.NextTag()
				if err := sess[i].C.Send([]byte(tag + " " + c + "\r\n" + tag + "b NOOP\r\n" + tag + "c NOOP\r\n")); err != nil {
					return "closed"
				}
				r = sess[i].C.Collect(tag)
				if r.Err == nil {
					if r2 := sess[i].C.Collect(tag + "b"); r2.Err != nil || r2.Status != "OK" {
						return r.Status + "+pipelined:" + r2.Status
					}
					if r3 := sess[i].C.Collect(tag + "c"); r3.Err != nil || r3.Status != "OK" {
						return r.Status + "+pipelined2:" + r3.Status
					}
				}
			} else {
				r = sess[i].C.Cmd(c)
			}
			if r.Err != nil {
				return "closed"
			}
			if strings.HasPrefix(c, "LOGOUT") {
				for {
					if _, err := sess[i].C.ReadResp(); err != nil {
						break
					}
				}
			}
			// the untagged responses that came with the reply are part of the observed outcome (they depend on the order)
			var kinds []string
			for _, u := range r.Untagged {
				f := strings.Fields(u.Text)
				if len(f) >= 3 && f[1][0] >= '0' && f[1][0] <= '9' {
					kinds = append(kinds, f[2])
				} else if len(f) >= 2 {
					kinds = append(kinds, f[1])
				}
			}
			return r.Status + "[" + strings.Join(kinds, ",") + "]"
		}
	}
	calls = append(calls, call{add("call:cmd1"), cmd(0, cs.Cmd1)})
	if cs.Cmd2 != "" {
		calls = append(calls, call{add("call:cmd2"), cmd(1, cs.Cmd2)})
	}
	if cs.Conn != "" {
		var sp vconn.Spec
		switch cs.Conn {
		case "created":
			sp = vconn.Spec{Kind: "MessagesCreated", Msg: "c-u", Key: "u", Mboxes: []string{"0"}}
		case "deleted":
			sp = vconn.Spec{Kind: "MessageDeleted", Msg: "c-b"}
		case "mboxdeleted":
			sp = vconn.Spec{Kind: "MailboxDeleted", Mbox: "mb-o"}
		default:
			return fail("unknown connector update " + cs.Conn)
		}
		calls = append(calls, call{add("call:conn"), func() string {
			switch r := w.Inject(0, sp); {
			case r.Err == "connector closed":
				return "closed" // the user was removed / the server closed before the update was taken
			case r.TimedOut:
				return "NACK timed out"
			case r.Err != "":
				return "NACK " + r.Err
			}
			return "ACK"
		}})
	}
	tdReady := make(chan int64, 1)
	td := add("call:teardown")
	calls = append(calls, call{td, func() string {
		switch cs.Teardown {
		case "drop1":
			_ = sess[0].C.End.Close()
		case "drop2":
			_ = sess[1].C.End.Close()
		case "logout2":
			return cmd(1, "LOGOUT")()
		case "removeuser":
			if err := w.Srv.RemoveUser(context.Background(), w.Users[0].ID, false); err != nil {
				return "err"
			}
		case "close":
			closed = true
			if err := w.Srv.Close(context.Background()); err != nil {
				return "err"
			}
		}
		return "done"
	}})
	if cs.Teardown == "logout2" && cs.Cmd2 != "" {
		return fail("logout2 and cmd2 use the same connection")
	}

	if cs.Free {
		// free-running pass (used with a -race build): the explorer's gates would add happens-before edges that hide
		// unsynchronised accesses, so nothing is parked here; the parties start together and must all complete
		start := make(chan struct{})
		for _, c := range calls {
			c := c
			go func() { <-start; c.p.done <- c.fn() }()
		}
		close(start)
		var sts []string
		for _, c := range calls {
			select {
			case st := <-c.p.done:
				sts = append(sts, c.p.name+"="+st)
			case <-time.After(watchdog):
				x.viol = append(x.viol, enumt.Viol{Clause: "does-not-return", Sig: "free/" + c.p.name, Msg: fmt.Sprintf("case %s (free-running): %s did not complete within %v; gluon goroutines: %s", cs, c.p.name, watchdog, gluonDump())})
				x.poisoned = true
				return x
			}
		}
		x.outcome = strings.Join(sts, " ")
		var left []string
		w.AfterClose = func() { left = leaked(base, 10*time.Second) }
		okc, dump := withWatchdog("Close", func() {
			if closed {
				w.Closed()
			} else {
				_ = w.Shutdown()
			}
		})
		if !okc {
			x.viol = append(x.viol, enumt.Viol{Clause: "does-not-return", Sig: "Close/" + cs.Teardown, Msg: "Server.Close did not return within " + watchdog.String() + ": " + dump})
			x.poisoned = true
			return x
		}
		w.Close()
		if len(left) > 0 {
			x.viol = append(x.viol, enumt.Viol{Clause: "goroutine-leak", Sig: left[0], Msg: fmt.Sprintf("case %s (free-running): %d gluon goroutine(s) left after Close: %v", cs, len(left), left)})
		}
		return x
	}
	h.SetGate(true)
	// collect: after the process has settled, note completions and attribute newly parked transactions
	collect := func() bool {
		ok, b := settle(self)
		if !ok {
			x.unstable = strings.Join(b, ",")
			return false
		}
		for _, c := range calls {
			if !c.p.fin {
				select {
				case st := <-c.p.done:
					c.p.status, c.p.fin = st, true
				default:
				}
			}
		}
		pend := h.TakePending()
		sort.SliceStable(pend, func(i, j int) bool { return pend[i].Frame < pend[j].Frame })
		for _, g := range pend {
			partyOf(g).gate = g
		}
		return true
	}
	// start the calls one after the other; each runs until it is parked, blocked or finished
	for _, c := range calls {
		c := c
		go func() {
			if c.p == td {
				tdReady <- selfGID()
			}
			c.p.done <- c.fn()
		}()
		if c.p == td {
			tdGID = <-tdReady
		}
		if !collect() {
			return x
		}
	}
	last := ""
	for {
		var en []*party
		for _, p := range parties {
			if p.gate != nil {
				en = append(en, p)
			}
		}
		// state updates queued for a session are held back (verif hook) and handed over when the explorer says so
		for i, ref := range refs {
			if ref.HeldCount() > 0 {
				name := fmt.Sprintf("deliver:s%d", i+1)
				p := byName[name]
				if p == nil {
					p = add(name)
					p.fin = true
				}
				p.deliver = ref
				en = append(en, p)
			}
		}
		if len(en) == 0 {
			break
		}
		sort.SliceStable(en, func(i, j int) bool {
			if (en[i].name == last) != (en[j].name == last) {
				return en[i].name == last
			}
			return en[i].name < en[j].name
		})
		idx := 0
		if len(en) > 1 {
			pos := len(x.choices)
			if pos < len(prefix) {
				idx = prefix[pos]
			}
			var names []string
			for _, p := range en {
				names = append(names, p.name)
			}
			if pos < len(prefix) && pos < len(expect) && strings.Join(names, ",") != strings.Join(expect[pos], ",") {
				// what happens between two decision points is not fully owned by the explorer (the Go runtime picks among
				// simultaneously ready select cases and orders goroutines woken by the same release); a replay that meets
				// a different enabled set is still a real execution, it is counted and explored from where it is
				x.diverged = true
				if os.Getenv("VERIF_TRACE") == "3" {
					fmt.Fprintf(os.Stderr, "DIVERGED at %d after %v:\n  expected %v\n  got      %v\n", pos, x.schedule, expect[pos], names)
				}
			}
			if idx >= len(en) {
				idx = 0
			}
			x.enabled = append(x.enabled, names)
			x.runFirst = append(x.runFirst, en[0].name == last)
			x.choices = append(x.choices, idx)
		}
		p := en[idx]
		last = p.name
		if p.gate != nil {
			x.schedule = append(x.schedule, p.name+"/"+p.gate.Name)
			g := p.gate
			p.gate = nil
			g.Release()
		} else {
			// the session is gone if its queue no longer accepts the update: the update is dropped, as it would be
			x.schedule = append(x.schedule, p.name)
			_ = p.deliver.EnqueueOne()
		}
		if !collect() {
			return x
		}
	}
	// nothing is parked and the process is quiescent: everybody must be done
	addV := func(clause, sig, msg string) {
		x.viol = append(x.viol, enumt.Viol{Clause: clause, Sig: sig, Msg: fmt.Sprintf("case %s, schedule %v: %s", cs, x.schedule, msg)})
	}
	var stuck []string
	for _, c := range calls {
		if !c.p.fin {
			stuck = append(stuck, c.p.name)
		}
	}
	if len(stuck) > 0 {
		// timers are the only thing that can still move the process: give them time before calling it a deadlock
		deadline := time.Now().Add(5 * time.Second)
		for time.Now().Before(deadline) && len(stuck) > 0 {
			time.Sleep(20 * time.Millisecond)
			if len(h.TakePending()) > 0 {
				x.unstable = "a transaction arrived while waiting for completion"
				return x
			}
			stuck = stuck[:0]
			for _, c := range calls {
				if !c.p.fin {
					select {
					case st := <-c.p.done:
						c.p.status, c.p.fin = st, true
					default:
						stuck = append(stuck, c.p.name)
					}
				}
			}
		}
	}
	if len(stuck) > 0 {
		addV("deadlock", cs.Teardown+"/"+strings.Join(stuck, "+"), fmt.Sprintf("no transaction is parked, every goroutine is blocked, and %v did not complete; gluon goroutines: %s", stuck, gluonDump()))
		x.poisoned = true
		return x
	}
	h.SetGate(false)
	var sts []string
	for _, c := range calls {
		sts = append(sts, c.p.name+"="+c.p.status)
	}
	x.outcome = strings.Join(sts, " ")
	for _, c := range calls {
		if strings.HasPrefix(c.p.status, "NACK") {
			addV("update-not-acknowledged", cs.Conn, c.p.status)
		}
	}
	var left []string
	w.AfterClose = func() { left = leaked(base, 10*time.Second) }
	okc, dump := withWatchdog("Close", func() {
		if closed {
			w.Closed()
		} else {
			_ = w.Shutdown()
		}
	})
	if !okc {
		addV("does-not-return", "Close/"+cs.Teardown, "Server.Close did not return within "+watchdog.String()+": "+dump)
		x.poisoned = true
		return x
	}
	w.Close()
	if len(left) > 0 {
		addV("goroutine-leak", left[0], fmt.Sprintf("%d gluon goroutine(s) left after Close: %v; stacks: %s", len(left), left, lastLeakDump))
	}
	return x
}

func firstFrame(f string) string {
	parts := strings.Split(f, " < ")
	for _, p := range parts {
		if !strings.Contains(p, "db_impl") && !strings.Contains(p, "verif") {
			return p
		}
	}
	return f
}

func gluonDump() string {
	var b strings.Builder
	for _, g := range goroutines() {
		if strings.Contains(g, "ProtonMail/gluon") {
			var fs []string
			for _, ln := range strings.Split(g, "\n") {
				if !strings.HasPrefix(ln, "\t") {
					if i := strings.LastIndex(ln, "("); i > 0 && !strings.HasPrefix(ln, "goroutine") {
						ln = ln[:i]
					}
					fs = append(fs, ln)
				}
			}
			if len(fs) > 9 {
				fs = fs[:9]
			}
			b.WriteString(strings.Join(fs, " | ") + " || ")
		}
	}
	return b.String()
}

func concCall(raw json.RawMessage) (any, error) {
	chunk, err := enumt.ParseChunk(raw)
	if err != nil {
		return nil, err
	}
	res := &enumt.Result{Counters: map[string]int{}}
	outcomes := map[string]bool{}
	for _, rc := range chunk.Cases {
		var cs ConcCase
		// a replay artefact carries {"case": ..., "schedule": [...]}: that one schedule is executed, without the explorer
		var rep struct {
			Case     *ConcCase `json:"case"`
			Schedule []int     `json:"schedule"`
		}
		if err := json.Unmarshal(rc, &rep); err == nil && rep.Case != nil {
			x := runC19Conc(*rep.Case, rep.Schedule, nil)
			if x.engine != "" {
				return nil, fmt.Errorf("c19conc replay: %s", x.engine)
			}
			res.Evaluations++
			res.Viol = append(res.Viol, x.viol...)
			continue
		}
		if err := json.Unmarshal(rc, &cs); err != nil {
			return nil, err
		}
		if cs.Free {
			for k := 0; k < 4; k++ {
				x := runC19Conc(cs, nil, nil)
				if x.engine != "" {
					return nil, fmt.Errorf("c19conc %s (free): %s", cs, x.engine)
				}
				if x.unstable != "" {
					continue
				}
				res.Evaluations++
				for _, v := range x.viol {
					v.Input = cs
					res.Viol = append(res.Viol, v)
				}
				outcomes[cs.String()+"|free|"+x.outcome] = true
				if x.poisoned {
					break
				}
			}
			if len(res.Samples) < 2 {
				res.Samples = append(res.Samples, map[string]any{"case": cs, "free_runs": 4})
			}
			continue
		}
		type item struct {
			choices []int
			expect  [][]string
		}
		stack := []item{{}}
		n, unstable, maxDecisions, diverged := 0, 0, 0, 0
		seen := map[string]bool{}
		capped := false
		started := time.Now()
		for len(stack) > 0 {
			it := stack[len(stack)-1]
			prefix := it.choices
			stack = stack[:len(stack)-1]
			x := runC19Conc(cs, prefix, it.expect)
			if x.engine != "" {
				return nil, fmt.Errorf("c19conc %s prefix %v: %s", cs, prefix, x.engine)
			}
			if x.unstable != "" {
				// retried once; an execution that does not settle is not counted and makes the case non-exhaustive
				x = runC19Conc(cs, prefix, it.expect)
				if x.engine != "" {
					return nil, fmt.Errorf("c19conc %s prefix %v: %s", cs, prefix, x.engine)
				}
				if x.unstable != "" {
					unstable++
					res.Counters["unsettled-executions"]++
					continue
				}
			}
			n++
			res.Evaluations++
			if x.diverged {
				diverged++
				res.Counters["replays-that-met-a-different-enabled-set"]++
			}
			if len(x.choices) > maxDecisions {
				maxDecisions = len(x.choices)
			}
			for _, v := range x.viol {
				if !seen[v.Clause+v.Sig] {
					seen[v.Clause+v.Sig] = true
					v.Input = map[string]any{"case": cs, "schedule": x.choices}
					res.Viol = append(res.Viol, v)
				}
			}
			if x.poisoned || len(x.viol) > 0 {
				// one violating schedule decides the case; the rest of its tree is not explored (a leak costs the 10 s
				// grace period in every execution)
				res.Counters["non-exhaustive"]++
				break
			}
			outcomes[cs.String()+"|"+x.outcome] = true
			if os.Getenv("VERIF_TRACE") != "" {
				fmt.Fprintf(os.Stderr, "prefix %v choices %v schedule %v outcome %s\n", prefix, x.choices, x.schedule, x.outcome)
			}
			// children: alternatives at every decision point after the prefix, within the preemption bound
			pre := 0
			for i := 0; i < len(x.choices); i++ {
				if i >= len(prefix) {
					for alt := len(x.enabled[i]) - 1; alt >= 1; alt-- {
						cost := pre
						if x.runFirst[i] {
							cost++
						}
						if cs.Bound >= 0 && cost > cs.Bound {
							continue
						}
						stack = append(stack, item{append(append([]int{}, x.choices[:i]...), alt), x.enabled[:i+1]})
					}
				}
				if x.runFirst[i] && x.choices[i] != 0 {
					pre++
				}
			}
			if n >= 3000 || (cs.MaxSec > 0 && time.Since(started) > time.Duration(cs.MaxSec)*time.Second) {
				capped = true
				break
			}
		}
		res.Counters["schedules:"+cs.String()] += n
		if capped {
			res.Counters["capped-cases"]++
		}
		if capped || unstable > 0 || diverged > 0 {
			res.Counters["non-exhaustive"]++
		}
		if len(res.Samples) < 2 {
			res.Samples = append(res.Samples, map[string]any{"case": cs, "schedules": n, "unsettled": unstable, "capped": capped, "diverged_replays": diverged, "max_decision_points": maxDecisions})
		}
	}
	for k := range outcomes {
		res.Outcomes = append(res.Outcomes, k)
	}
	return res, nil
}
