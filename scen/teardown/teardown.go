// Package teardown enumerates tear-down configurations of a real server (C19): every protocol state of 1-2
// sessions x every way of ending (LOGOUT, abrupt disconnect, RemoveUser, Close); every call must return and, once
// the server is closed, no gluon goroutine may be left.
package teardown

import (
	"bytes"
	"context"
	"encoding/json"
	"fmt"
	"os"
	"regexp"
	"runtime"
	"sort"
	"strings"
	"time"

	"verif/engine/enumt"
	"verif/engine/explore"
	"verif/engine/vconn"
	"verif/engine/world"
)

type Case struct {
	States []string `json:"states"` // per session: greeted | auth | selected | idle | literal | inflight | held
	Action string   `json:"action"` // logout | drop | removeuser | close
}

func init() { explore.RegisterCall("c19", call) }

const watchdog = 60 * time.Second

var goidRe = regexp.MustCompile(`(?m)^goroutine (\d+) \[`)

func goroutines() map[string]string {
	buf := make([]byte, 1<<20)
	for {
		n := runtime.Stack(buf, true)
		if n < len(buf) {
			buf = buf[:n]
			break
		}
		buf = make([]byte, 2*len(buf))
	}
	out := map[string]string{}
	for _, g := range bytes.Split(buf, []byte("\n\n")) {
		if m := goidRe.FindSubmatch(g); m != nil {
			out[string(m[1])] = string(g)
		}
	}
	return out
}

var frameRe = regexp.MustCompile(`(?m)^(github\.com/ProtonMail/gluon[^\s(]*)`)

// leaked returns the gluon goroutines that did not exist in the baseline, polling until they are gone or the
// deadline passes.
var lastLeakDump string

func leaked(base map[string]string, wait time.Duration) []string {
	deadline := time.Now().Add(wait)
	for {
		var left []string
		lastLeakDump = ""
		for id, g := range goroutines() {
			if _, ok := base[id]; ok {
				continue
			}
			if m := frameRe.FindAllStringSubmatch(g, -1); m != nil {
				// innermost gluon frame
				left = append(left, m[0][1])
				lastLeakDump += strings.ReplaceAll(g, "\n", " | ") + " || "
			}
		}
		if len(left) == 0 || time.Now().After(deadline) {
			if f := os.Getenv("VERIF_LEAKDUMP"); f != "" && len(left) > 0 {
				var all strings.Builder
				for _, g := range goroutines() {
					all.WriteString(g + "\n\n")
				}
				_ = os.WriteFile(f, []byte(all.String()), 0o644)
			}
			sort.Strings(left)
			return left
		}
		time.Sleep(2 * time.Millisecond)
	}
}

func withWatchdog(what string, fn func()) (bool, string) {
	done := make(chan struct{})
	go func() { fn(); close(done) }()
	select {
	case <-done:
		return true, ""
	case <-time.After(watchdog):
		var b strings.Builder
		for _, g := range goroutines() {
			if strings.Contains(g, "ProtonMail/gluon") {
				lines := strings.Split(g, "\n")
				if len(lines) > 7 {
					lines = lines[:7]
				}
				b.WriteString(strings.Join(lines, " | ") + " || ")
			}
		}
		return false, b.String()
	}
}

func call(raw json.RawMessage) (any, error) {
	chunk, err := enumt.ParseChunk(raw)
	if err != nil {
		return nil, err
	}
	res := &enumt.Result{Counters: map[string]int{}}
	outcomes := map[string]bool{}
	for _, rc := range chunk.Cases {
		var cs Case
		if err := json.Unmarshal(rc, &cs); err != nil {
			return nil, err
		}
		base := goroutines()
		hold := false
		for _, st := range cs.States {
			if st == "held" {
				hold = true
			}
		}
		w, err := world.New(world.Config{Hold: hold, Parallel: true})
		if err != nil {
			return nil, err
		}
		for _, k := range []string{"a", "b"} {
			sp := vconn.Spec{Kind: "MessagesCreated", Msg: "c-" + k, Key: k, Mboxes: []string{"0"}}
			if r := w.Inject(0, sp); r.Err != "" {
				w.Close()
				return nil, fmt.Errorf("setup: %+v", r)
			}
			w.Users[0].Conn.NoteRemote(sp)
		}
		var sess []*world.Sess
		for _, st := range cs.States {
			s, err := w.Connect()
			if err != nil {
				w.Close()
				return nil, err
			}
			sess = append(sess, s)
			if st == "greeted" {
				continue
			}
			w.Login(s, 0)
			if st == "auth" {
				continue
			}
			s.C.Cmd("SELECT INBOX")
			switch st {
			case "idle":
				if _, _, err := w.IdleStart(s); err != nil {
					w.Close()
					return nil, err
				}
			case "literal":
				_ = s.C.Send([]byte("x1 APPEND INBOX {20}\r\n"))
				if r, err := s.C.ReadResp(); err != nil || !strings.HasPrefix(r.Text, "+") {
					w.Close()
					return nil, fmt.Errorf("no continuation: %v %v", r.Text, err)
				}
				_ = s.C.Send([]byte("abc"))
			case "inflight":
				_ = s.C.Send([]byte("x1 FETCH 1:* (BODY[])\r\nx2 NOOP\r\n"))
			case "held":
				// an update is held for the session, another one has been delivered but not flushed
				sp := vconn.Spec{Kind: "MessagesCreated", Msg: "c-h1", Key: "h1", Mboxes: []string{"0"}}
				w.Inject(0, sp)
				_, _, _ = w.Deliver(s)
				sp2 := vconn.Spec{Kind: "MessagesCreated", Msg: "c-h2", Key: "h2", Mboxes: []string{"0"}}
				w.Inject(0, sp2)
			}
		}
		res.Evaluations++
		add := func(clause, sig, msg string) {
			res.Viol = append(res.Viol, enumt.Viol{Clause: clause, Sig: sig, Msg: fmt.Sprintf("states %v, action %s: %s", cs.States, cs.Action, msg), Input: cs})
		}
		first := sess[0]
		var ok bool
		var dump string
		switch cs.Action {
		case "logout", "logout-pipelined":
			ok, dump = withWatchdog("LOGOUT", func() {
				switch cs.States[0] {
				case "idle":
					_ = first.C.Send([]byte("DONE\r\n"))
				case "literal":
					_ = first.C.Send([]byte(strings.Repeat("x", 17) + "\r\n"))
				}
				if cs.Action == "logout-pipelined" {
					// further commands arrive in the same segment as LOGOUT: the command reader has them in hand when the
					// session ends
					_ = first.C.Send([]byte("zz LOGOUT\r\nzy NOOP\r\nzx NOOP\r\n"))
				} else {
					_ = first.C.Send([]byte("zz LOGOUT\r\n"))
				}
				for {
					if _, err := first.C.ReadResp(); err != nil {
						return
					}
				}
			})
		case "drop":
			ok, dump = withWatchdog("disconnect", func() { w.Drop(first) })
		case "removeuser":
			ok, dump = withWatchdog("RemoveUser", func() {
				_ = w.Srv.RemoveUser(context.Background(), w.Users[0].ID, false)
			})
		case "close":
			ok = true
		}
		if !ok {
			add("does-not-return", cs.Action+"/"+cs.States[0], cs.Action+" did not return within "+watchdog.String()+": "+dump)
		}
		// the server is closed in every configuration; goroutines are counted after Close has returned and before the
		// context given to Serve is cancelled (a closed server must not depend on that to release its goroutines)
		var left []string
		checked := false
		w.AfterClose = func() { left, checked = leaked(base, 10*time.Second), true }
		closed, dump := withWatchdog("Close", func() { _ = w.Shutdown() })
		if !closed {
			add("does-not-return", "Close/"+strings.Join(cs.States, "+"), "Server.Close did not return within "+watchdog.String()+": "+dump)
			// the process state is unusable now
			res.Outcomes = append(res.Outcomes, "hang")
			return res, nil
		}
		w.Close()
		if !checked {
			left = leaked(base, 10*time.Second)
		}
		if len(left) > 0 {
			add("goroutine-leak", left[0], fmt.Sprintf("%d gluon goroutine(s) left after Close: %v; stacks: %s", len(left), left, lastLeakDump))
		}
		outcomes[fmt.Sprintf("%v|%s", cs.States, cs.Action)] = true
		if len(res.Samples) < 2 {
			res.Samples = append(res.Samples, cs)
		}
	}
	for k := range outcomes {
		res.Outcomes = append(res.Outcomes, k)
	}
	return res, nil
}
