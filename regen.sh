#!/bin/sh
# runs every check's quick tier on the current tree (rewrites evidence/), prints one line per check
cd "$(dirname "$0")" || exit 2
rc=0
for c in C01 C02 C03 C04 C05 C06 C07 C08 C09 C10 C11 C12 C13 C14 C15 C16 C17 C18 C19 C20; do
  out=$(./check $c quick 2>&1); code=$?
  echo "$c exit=$code $(printf '%s\n' "$out" | grep -E 'quick:' | tr '\n' ' ' | cut -c1-200)"
  printf '%s\n' "$out" | grep -E '^VIOLATION|ENGINE-ERROR|BUILD-FAILED' | head -5
  [ $code -ne 0 ] && rc=1
done
exit $rc
