#!/bin/sh
# Offline build of everything the checks need (warms the Go build cache, incl. cgo sqlite3).
cd "$(dirname "$0")" || exit 1
export GOFLAGS=-mod=mod GOPROXY=off GOSUMDB=off GOTOOLCHAIN=local
mkdir -p bin evidence replays
go run ./tools/gendbwrap /repo/db engine/crash/dbwrap_gen.go || exit 1
go build -tags verif -o bin/vcheck ./cmd/vcheck || exit 1
echo setup ok
