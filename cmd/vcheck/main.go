package main

import (
	"fmt"
	"os"

	"verif/checks"
	"verif/engine/explore"
	"verif/engine/report"
	_ "verif/scen/mbox"
	_ "verif/scen/teardown"
	_ "verif/scen/wire"
)

func main() {
	if len(os.Args) < 2 {
		fmt.Fprintln(os.Stderr, "usage: vcheck <property>|worker")
		os.Exit(2)
	}
	switch os.Args[1] {
	case "worker":
		explore.WorkerMain()
		return
	case "replay":
		os.Exit(checks.Replay(os.Args[2]))
	case "debug":
		os.Exit(checks.DebugPath(os.Args[2], os.Args[3], os.Args[4]))
	}
	tier := report.Tier()
	fn, ok := checks.Registry[os.Args[1]]
	if !ok {
		fmt.Fprintln(os.Stderr, "unknown check", os.Args[1])
		os.Exit(2)
	}
	os.Exit(fn(tier))
}
