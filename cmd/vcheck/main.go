package main

import (
	"encoding/json"
	"fmt"
	"os"

	"verif/checks"
	"verif/engine/explore"
	"verif/engine/report"
	_ "verif/scen/mbox"
	_ "verif/scen/teardown"
	_ "verif/scen/wire"
)

func main() {
	if len(os.Args) < 2 {
		fmt.Fprintln(os.Stderr, "usage: vcheck <property>|worker")
		os.Exit(2)
	}
	switch os.Args[1] {
	case "worker":
		explore.WorkerMain()
		return
	case "replay":
		os.Exit(checks.Replay(os.Args[2]))
	case "call":
		// vcheck call <registered call> <case json>...: runs one batch function in-process and prints its result
		var cases []json.RawMessage
		for _, a := range os.Args[3:] {
			cases = append(cases, json.RawMessage(a))
		}
		raw, _ := json.Marshal(map[string]any{"cases": cases})
		res, err := explore.Call(os.Args[2], raw)
		if err != nil {
			fmt.Fprintln(os.Stderr, "error:", err)
			os.Exit(2)
		}
		b, _ := json.MarshalIndent(res, "", " ")
		fmt.Println(string(b))
		return
	case "debug":
		os.Exit(checks.DebugPath(os.Args[2], os.Args[3], os.Args[4]))
	}
	tier := report.Tier()
	fn, ok := checks.Registry[os.Args[1]]
	if !ok {
		fmt.Fprintln(os.Stderr, "unknown check", os.Args[1])
		os.Exit(2)
	}
	os.Exit(fn(tier))
}
