package main

import (
	_ "github.com/ProtonMail/gluon"
	_ "github.com/anishathalye/porcupine"
)

func main() {}
