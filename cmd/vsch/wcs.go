//go:build sch

package main

import (
	"bytes"
	"errors"
	"fmt"
	"io"
	"sort"
	"strings"

	"github.com/ProtonMail/gluon/imap"
	"github.com/ProtonMail/gluon/store"
	"github.com/ProtonMail/gluon/verifshim/sched"
	"github.com/anishathalye/porcupine"
)

// memStore is the inner store: Set truncates and writes in two steps with a scheduling point in between, like a
// file that is opened with O_TRUNC and then written.
type memStore struct {
	s       *sched.Sched
	data    map[imap.InternalMessageID][]byte
	writers map[imap.InternalMessageID]int
	readers map[imap.InternalMessageID]int
	viol    []Violation
}

func (m *memStore) Set(id imap.InternalMessageID, r io.Reader) error {
	m.s.Point("inner.Set.open", nil)
	if m.writers[id] > 0 {
		m.viol = append(m.viol, Violation{"exclusion", "two-writers", "two writers inside the inner store for one id"})
	}
	if m.readers[id] > 0 {
		m.viol = append(m.viol, Violation{"exclusion", "writer-with-reader", "a writer entered the inner store while a reader of the same id was inside"})
	}
	m.writers[id]++
	m.data[id] = []byte{} // truncated
	b, _ := io.ReadAll(r)
	m.s.Point("inner.Set.write", nil)
	m.data[id] = b
	m.writers[id]--
	return nil
}

var errNotFound = errors.New("not found")

func (m *memStore) Get(id imap.InternalMessageID) ([]byte, error) {
	m.s.Point("inner.Get.open", nil)
	if m.writers[id] > 0 {
		m.viol = append(m.viol, Violation{"exclusion", "reader-with-writer", "a reader entered the inner store while a writer of the same id was inside"})
	}
	m.readers[id]++
	v, ok := m.data[id]
	v = append([]byte(nil), v...)
	m.s.Point("inner.Get.read", nil)
	m.readers[id]--
	if !ok {
		return nil, errNotFound
	}
	return v, nil
}

func (m *memStore) Delete(ids ...imap.InternalMessageID) error {
	for _, id := range ids {
		m.s.Point("inner.Delete", nil)
		if m.writers[id] > 0 || m.readers[id] > 0 {
			m.viol = append(m.viol, Violation{"exclusion", "delete-with-user", "a delete entered the inner store while a reader/writer of the same id was inside"})
		}
		delete(m.data, id)
	}
	return nil
}

func (m *memStore) Close() error { return nil }
func (m *memStore) List() ([]imap.InternalMessageID, error) {
	var out []imap.InternalMessageID
	for id := range m.data {
		out = append(out, id)
	}
	return out, nil
}

type wcsOp struct {
	Kind string // set | get | del
	ID   int
	Val  string
}

func (o wcsOp) String() string { return fmt.Sprintf("%s(id%d,%s)", o.Kind, o.ID, o.Val) }

type regIn struct {
	Kind string
	ID   int
	Val  string
}
type regOut struct {
	Val string // "<nil>" = not found
}

var regModel = porcupine.Model{
	Partition: func(history []porcupine.Operation) [][]porcupine.Operation {
		m := map[int][]porcupine.Operation{}
		for _, op := range history {
			id := op.Input.(regIn).ID
			m[id] = append(m[id], op)
		}
		var keys []int
		for k := range m {
			keys = append(keys, k)
		}
		sort.Ints(keys)
		var out [][]porcupine.Operation
		for _, k := range keys {
			out = append(out, m[k])
		}
		return out
	},
	Init: func() interface{} { return "<nil>" },
	Step: func(state, input, output interface{}) (bool, interface{}) {
		in, out := input.(regIn), output.(regOut)
		switch in.Kind {
		case "set":
			return true, in.Val
		case "del":
			return true, "<nil>"
		default:
			return out.Val == state.(string), state
		}
	},
	Equal: func(a, b interface{}) bool { return a.(string) == b.(string) },
}

var ids = []imap.InternalMessageID{imap.NewInternalMessageID(), imap.NewInternalMessageID()}

func runWCS(threads []wcsOp, prefix []int) *Exec {
	s := sched.New(prefix)
	inner := &memStore{s: s, data: map[imap.InternalMessageID][]byte{}, writers: map[imap.InternalMessageID]int{}, readers: map[imap.InternalMessageID]int{}}
	inner.data[ids[0]] = []byte("v0")
	w := store.NewWriteControlledStore(inner)
	var clock int64
	var hist []porcupine.Operation
	var results []string
	// the initial value is modelled as a completed Set
	hist = append(hist, porcupine.Operation{ClientId: 99, Input: regIn{"set", 0, "v0"}, Call: 0, Output: regOut{}, Return: 1})
	clock = 2
	results = make([]string, len(threads))
	for i, op := range threads {
		i, op := i, op
		s.Go(fmt.Sprintf("T%d:%s", i, op), func() {
			call := clock
			clock++
			out := regOut{}
			switch op.Kind {
			case "set":
				_ = w.Set(ids[op.ID], strings.NewReader(op.Val))
			case "get":
				v, err := w.Get(ids[op.ID])
				if err != nil {
					out.Val = "<nil>"
				} else {
					out.Val = string(v)
				}
			case "del":
				_ = w.Delete(ids[op.ID])
			}
			ret := clock
			clock++
			hist = append(hist, porcupine.Operation{ClientId: i, Input: regIn{op.Kind, op.ID, op.Val}, Call: call, Output: out, Return: ret})
			results[i] = out.Val
		})
	}
	s.Run()
	x := &Exec{S: s}
	x.Viol = append(x.Viol, inner.viol...)
	if s.Deadlock {
		x.Viol = append(x.Viol, Violation{"deadlock", "wcs", "deadlock: " + s.DeadInfo})
	} else if s.Livelock {
		x.Viol = append(x.Viol, Violation{"livelock", "wcs", "no termination within the step horizon"})
	} else {
		if !porcupine.CheckOperations(regModel, hist) {
			x.Viol = append(x.Viol, Violation{"linearizability", "register", fmt.Sprintf("history is not linearizable as a register: %v", histString(hist))})
		}
		if n := w.VerifEntryCount(); n != 0 {
			x.Viol = append(x.Viol, Violation{"refcount", "entry-left", fmt.Sprintf("%d entries left in the lock table after all operations returned", n)})
		}
		if _, dup := w.VerifPooled(); dup {
			x.Viol = append(x.Viol, Violation{"refcount", "pooled-twice", "one lock reference was put into the pool twice"})
		}
		if w.VerifPooledInTable() {
			x.Viol = append(x.Viol, Violation{"refcount", "pooled-in-table", "a pooled lock reference is still in the lock table"})
		}
	}
	if s.Diverged != "" {
		x.Viol = append(x.Viol, Violation{"ENGINE", "diverged", s.Diverged})
	}
	final := "<nil>"
	if v, ok := inner.data[ids[0]]; ok {
		final = string(v)
	}
	x.Outcome = strings.Join(results, ",") + "|" + final
	return x
}

func histString(h []porcupine.Operation) string {
	var b bytes.Buffer
	sort.Slice(h, func(i, j int) bool { return h[i].Call < h[j].Call })
	for _, op := range h {
		fmt.Fprintf(&b, "[%d-%d c%d %v -> %v] ", op.Call, op.Return, op.ClientId, op.Input, op.Output)
	}
	return b.String()
}

// wcsScenarios: all multisets of n operations over the alphabet.
func wcsScenarios(n int) [][]wcsOp {
	alpha := []wcsOp{{"set", 0, "v1"}, {"set", 0, "v2"}, {"get", 0, ""}, {"del", 0, ""}, {"get", 1, ""}, {"set", 1, "w1"}}
	var out [][]wcsOp
	var rec func(start int, cur []wcsOp)
	rec = func(start int, cur []wcsOp) {
		if len(cur) == n {
			out = append(out, append([]wcsOp{}, cur...))
			return
		}
		for i := start; i < len(alpha); i++ {
			rec(i, append(cur, alpha[i]))
		}
	}
	rec(0, nil)
	return out
}
