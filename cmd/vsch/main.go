//go:build sch

// vsch: scheduler-based checks (built with `go build -tags "verif sch" -overlay work/overlay/overlay.json`).
package main

import (
	"encoding/json"
	"fmt"
	"os"
	"os/exec"
	"runtime"
	"strconv"
	"strings"
	"sync"
	"time"

	"verif/engine/report"
)

type partResult struct {
	Name      string         `json:"name"`
	Bound     int            `json:"preemption_bound"`
	Scenarios int            `json:"scenarios"`
	Schedules int            `json:"schedules"`
	Points    int            `json:"scheduling_points"`
	Outcomes  int            `json:"distinct_outcomes"`
	Capped    bool           `json:"capped"`
	Samples   []any          `json:"samples"`
	Extra     map[string]any `json:"extra,omitempty"`
}

func main() {
	if len(os.Args) < 2 {
		fmt.Fprintln(os.Stderr, "usage: vsch <property>")
		os.Exit(2)
	}
	tier := report.Tier()
	if tier != "thorough" {
		ScenarioSeconds = 120 // quick tier: no scenario comes near this on a quiet machine
	}
	if os.Args[1] == "debug1" {
		sc := qcScenarios()[0]
		n := 0
		Explore(1, 100000, func(prefix []int) *Exec {
			done := make(chan *Exec, 1)
			go func() { done <- runQC(sc, prefix) }()
			select {
			case x := <-done:
				n++
				return x
			case <-time.After(3 * time.Second):
				fmt.Printf("HANG after %d executions, prefix %v\n", n, prefix)
				buf := make([]byte, 1<<20)
				k := runtime.Stack(buf, true)
				fmt.Println(string(buf[:k]))
				os.Exit(1)
			}
			return nil
		}, func(x *Exec, c []int) {})
		fmt.Println("explored", n)
		return
	}
	if os.Args[1] == "shard" {
		shardMain(os.Args[2:])
		return
	}
	switch os.Args[1] {
	case "C09":
		os.Exit(runC09(tier))
	case "C02":
		os.Exit(runC02(tier))
	case "C04":
		os.Exit(runC04(tier))
	}
	fmt.Fprintln(os.Stderr, "no scheduler part for", os.Args[1])
	os.Exit(2)
}

func finish(c *report.Check, parts []partResult) int {
	states, total := 0, 0
	capped := false
	var samples []any
	for _, p := range parts {
		total += p.Schedules
		states += p.Points
		capped = capped || p.Capped
		samples = append(samples, p.Samples...)
	}
	if len(samples) == 0 {
		samples = append(samples, "none")
	}
	if len(samples) > 8 {
		samples = samples[:8]
	}
	c.Coverage["states"] = states
	c.Coverage["transitions"] = states
	c.Coverage["traces_validated_against_impl"] = total
	c.Coverage["evaluations"] = total
	dn := 0
	for _, p := range parts {
		dn += p.Outcomes
	}
	c.Coverage["distinct_nontrivial"] = dn
	c.Coverage["rule"] = "every schedule of the listed thread scenarios within the preemption bound, executed on the real code under the cooperative scheduler; distinct = distinct observable outcomes (results of every call + final state)"
	c.Coverage["samples"] = samples
	c.Coverage["exhaustive"] = !capped
	c.Coverage["parts"] = parts
	return c.Finish()
}

func runC09(tier string) int {
	c := report.New("C09", tier, "model_checking", 0)
	c.MergeKey = "interleavings"
	c.Assumptions = []string{"scheduling points at every mutex / rwmutex / atomic / pool operation of WriteControlledStore and inside the instrumented inner store (between truncate and write); memory-model effects below that granularity are not explored"}
	bound3, bound4 := 2, -2
	if tier == "thorough" {
		bound3, bound4 = -1, 2
	}
	var parts []partResult
	start := time.Now()
	for _, cfg := range []struct{ n, bound int }{{2, -1}, {3, bound3}, {4, bound4}} {
		if cfg.bound == -2 {
			continue
		}
		scen := wcsScenarios(cfg.n)
		pr := partResult{Name: fmt.Sprintf("WriteControlledStore/%d-threads", cfg.n), Bound: cfg.bound, Scenarios: len(scen)}
		outcomes := map[string]bool{}
		for _, sr := range runShards("wcs", cfg.n, cfg.bound) {
			pr.Schedules += sr.Schedules
			pr.Points += sr.Points
			pr.Capped = pr.Capped || sr.Capped
			for _, k := range sr.Outcomes {
				outcomes[k] = true
			}
			for _, smp := range sr.Samples {
				if len(pr.Samples) < 2 {
					pr.Samples = append(pr.Samples, smp)
				}
			}
			for _, v := range sr.Viol {
				c.Add(v)
			}
		}
		pr.Outcomes = len(outcomes)
		parts = append(parts, pr)
		fmt.Printf("C09 sch %-34s bound %2d scenarios %3d schedules %8d outcomes %5d capped=%v (%.1fs)\n", pr.Name, pr.Bound, pr.Scenarios, pr.Schedules, pr.Outcomes, pr.Capped, time.Since(start).Seconds())
	}
	_ = strings.Join
	return finish(c, parts)
}

// ---------------------------------------------------------------------------------------------------------------
// Sharding: scenarios are independent, so they are distributed over child processes (the scheduler itself is
// process-global).

type shardResult struct {
	Schedules int        `json:"schedules"`
	Points    int        `json:"points"`
	Capped    bool       `json:"capped"`
	Outcomes  []string   `json:"outcomes"`
	Samples   []any      `json:"samples"`
	Viol      []report.V `json:"viol"`
}

func runShards(unit string, n, bound int) []shardResult {
	nsh := runtime.NumCPU()
	if nsh > 16 {
		nsh = 16
	}
	exe, _ := os.Executable()
	out := make([]shardResult, nsh)
	var wg sync.WaitGroup
	for i := 0; i < nsh; i++ {
		wg.Add(1)
		go func(i int) {
			defer wg.Done()
			cmd := exec.Command(exe, "shard", unit, fmt.Sprint(n), fmt.Sprint(bound), fmt.Sprint(i), fmt.Sprint(nsh))
			cmd.Stderr = os.Stderr
			b, err := cmd.Output()
			if err != nil {
				out[i].Viol = append(out[i].Viol, report.V{Clause: "ENGINE", Sig: "shard-failed", Msg: fmt.Sprintf("shard %d: %v", i, err)})
				return
			}
			if err := json.Unmarshal(b, &out[i]); err != nil {
				out[i].Viol = append(out[i].Viol, report.V{Clause: "ENGINE", Sig: "shard-output", Msg: err.Error()})
			}
		}(i)
	}
	wg.Wait()
	return out
}

func shardMain(args []string) {
	unit := args[0]
	n, _ := strconv.Atoi(args[1])
	bound, _ := strconv.Atoi(args[2])
	shard, _ := strconv.Atoi(args[3])
	nsh, _ := strconv.Atoi(args[4])
	var res shardResult
	outcomes := map[string]bool{}
	seen := map[string]bool{}
	add := func(v report.V) {
		if !seen[v.Clause+"/"+v.Sig] {
			seen[v.Clause+"/"+v.Sig] = true
			res.Viol = append(res.Viol, v)
		}
	}
	switch unit {
	case "wcs":
		for i, sc := range wcsScenarios(n) {
			if i%nsh != shard {
				continue
			}
			sc := sc
			var names []string
			for _, o := range sc {
				names = append(names, o.String())
			}
			st := Explore(bound, 2000000, func(prefix []int) *Exec { return runWCS(sc, prefix) }, func(x *Exec, choices []int) {
				for _, v := range x.Viol {
					again := runWCS(sc, choices) // a failure is only believed if the same schedule fails again
					same := false
					for _, v2 := range again.Viol {
						if v2.Clause == v.Clause && v2.Sig == v.Sig {
							same = true
						}
					}
					clause, sig := v.Clause, v.Sig
					if !same {
						clause, sig = "ENGINE", "not-reproducible/"+v.Clause
					}
					add(report.V{Clause: clause, Sig: sig, Msg: fmt.Sprintf("threads %v: %s", names, v.Msg), Replay: map[string]any{"engine": "SCH", "unit": "WriteControlledStore", "threads": names, "schedule": append([]int{}, choices...)}})
				}
			})
			res.Schedules += st.Schedules
			res.Points += st.Points
			res.Capped = res.Capped || st.Capped
			for k := range st.Outcomes {
				outcomes[fmt.Sprint(names)+k] = true
			}
			if len(res.Samples) < 1 {
				res.Samples = append(res.Samples, map[string]any{"threads": names, "schedules": st.Schedules, "outcomes": st.Outcomes})
			}
		}
	default:
		shardOther(unit, n, bound, shard, nsh, &res, outcomes, add)
	}
	for k := range outcomes {
		res.Outcomes = append(res.Outcomes, k)
	}
	b, _ := json.Marshal(res)
	os.Stdout.Write(b)
}
