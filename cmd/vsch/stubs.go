//go:build sch

package main

import (
	"fmt"
	"sort"
	"strings"
	"time"

	"github.com/ProtonMail/gluon/async"
	"github.com/ProtonMail/gluon/imap"
	"github.com/ProtonMail/gluon/verifshim/sched"
	vtime "github.com/ProtonMail/gluon/verifshim/vtime"

	"verif/engine/report"
)

// ---------------------------------------------------------------------------------------------------------------
// async.QueuedChannel: producers, a closer and the queue's own goroutine.

type qcScenario struct {
	Producers [][]string // items per producer
	Close     bool
}

func (q qcScenario) String() string {
	return fmt.Sprintf("producers=%v close=%v", q.Producers, q.Close)
}

func qcScenarios() []qcScenario {
	return []qcScenario{
		{Producers: [][]string{{"a1"}, {"b1"}}, Close: true},
		{Producers: [][]string{{"a1", "a2"}, {"b1"}}, Close: true},
		{Producers: [][]string{{"a1", "a2"}, {"b1", "b2"}}, Close: true},
		{Producers: [][]string{{"a1", "a2"}, {"b1", "b2"}}, Close: false},
		{Producers: [][]string{{"a1"}, {"b1"}, {"c1"}}, Close: true},
	}
}

func runQC(sc qcScenario, prefix []int) *Exec {
	s := sched.New(prefix)
	x := &Exec{S: s}
	var q *async.QueuedChannel[string]
	type enq struct {
		item string
		ok   bool
		ret  int
	}
	clock := 0
	closeCall := -1
	var enqs []enq
	// the constructor starts the queue goroutine (it registers at its first lock operation); the other threads are
	// created once it has, so that no artificial waiting points are added
	s.Go("ctor", func() {
		s.ExpectSpawn(1)
		q = async.NewQueuedChannel[string](64, 8, async.NoopPanicHandler{}, "verif")
		s.AwaitSpawn()
		for pi, items := range sc.Producers {
			items := items
			s.Go(fmt.Sprintf("P%d", pi), func() {
				for _, it := range items {
					ok := q.Enqueue(it)
					clock++
					enqs = append(enqs, enq{it, ok, clock})
				}
			})
		}
		s.Go("closer", func() {
			if !sc.Close {
				// close only after every producer is done
				total := 0
				for _, p := range sc.Producers {
					total += len(p)
				}
				s.Point("wait-producers", func() bool { return len(enqs) == total })
			}
			clock++
			closeCall = clock
			q.Close()
		})
	})
	s.Run()
	if s.Deadlock {
		x.Viol = append(x.Viol, Violation{"deadlock", "QueuedChannel", "deadlock: " + s.DeadInfo})
		return x
	}
	if s.Livelock {
		x.Viol = append(x.Viol, Violation{"livelock", "QueuedChannel", "no termination"})
		return x
	}
	// all threads (incl. the queue goroutine) have finished: the channel is closed; drain it
	var got []string
	deadline := time.After(5 * time.Second)
loop:
	for {
		select {
		case it, ok := <-q.GetChannel():
			if !ok {
				break loop
			}
			got = append(got, it)
		case <-deadline:
			x.Viol = append(x.Viol, Violation{"not-closed", "QueuedChannel", "the output channel was not closed after Close and termination of the queue goroutine"})
			break loop
		}
	}
	count := map[string]int{}
	for _, g := range got {
		count[g]++
	}
	for _, e := range enqs {
		if count[e.item] > 1 {
			x.Viol = append(x.Viol, Violation{"duplicate", "QueuedChannel", fmt.Sprintf("item %s received %d times", e.item, count[e.item])})
		}
		if e.ok && e.ret < closeCall && count[e.item] == 0 {
			x.Viol = append(x.Viol, Violation{"lost", "QueuedChannel", fmt.Sprintf("item %s was enqueued (returned true) before Close was called but never received; received %v", e.item, got)})
		}
		if !e.ok && count[e.item] > 0 {
			x.Viol = append(x.Viol, Violation{"phantom", "QueuedChannel", fmt.Sprintf("item %s was refused by Enqueue but received", e.item)})
		}
	}
	// per-producer FIFO
	pos := map[string]int{}
	for i, g := range got {
		pos[g] = i
	}
	for _, items := range sc.Producers {
		last := -1
		for _, it := range items {
			if p, ok := pos[it]; ok {
				if p < last {
					x.Viol = append(x.Viol, Violation{"order", "QueuedChannel", fmt.Sprintf("producer order violated: received %v", got)})
				}
				last = p
			}
		}
	}
	if s.Diverged != "" {
		x.Viol = append(x.Viol, Violation{"ENGINE", "diverged", s.Diverged})
	}
	x.Outcome = strings.Join(got, ",")
	return x
}

// ---------------------------------------------------------------------------------------------------------------
// imap.EpochUIDValidityGenerator: concurrent Generate calls, explorer-chosen clock, optional restart.

type epScenario struct {
	Threads int  // concurrent threads on the first generator, 2 calls each
	Restart int  // calls on a fresh generator afterwards (0 = no restart)
	Back    bool // the clock may also step back one second at a reading (within one process only)
}

func (e epScenario) String() string {
	if e.Back {
		return fmt.Sprintf("threads=%d restart-calls=%d clock-may-step-back", e.Threads, e.Restart)
	}
	return fmt.Sprintf("threads=%d restart-calls=%d", e.Threads, e.Restart)
}

func epScenarios() []epScenario {
	if report.Tier() != "thorough" {
		return []epScenario{{1, 0, false}, {2, 0, false}, {3, 0, false}, {1, 1, false}, {1, 2, false}, {2, 1, false}, {1, 0, true}, {2, 0, true}}
	}
	return []epScenario{{1, 0, false}, {2, 0, false}, {3, 0, false}, {1, 1, false}, {1, 2, false}, {2, 1, false}, {2, 2, false}, {3, 1, false},
		{1, 0, true}, {2, 0, true}, {3, 0, true}}
}

func runEpoch(sc epScenario, prefix []int) *Exec {
	s := sched.New(prefix)
	x := &Exec{S: s}
	epoch := time.Date(2023, 2, 1, 0, 0, 0, 0, time.UTC)
	now := epoch.Add(1000 * time.Second)
	vtime.Clock = func() time.Time {
		if sc.Back {
			// within one process the generator remembers its last value, so a clock that steps back
			// (NTP correction) must not make it hand out a smaller or repeated value
			switch s.Choose("clock(same second|+1s|-1s)", 3) {
			case 1:
				now = now.Add(time.Second)
			case 2:
				now = now.Add(-time.Second)
			}
			return now
		}
		if s.Choose("clock(same second|+1s)", 2) == 1 {
			now = now.Add(time.Second)
		}
		return now
	}
	defer func() { vtime.Clock = nil }()
	type call struct {
		thread     int
		start, end int
		val        uint32
		err        error
	}
	var calls []call
	clock := 0
	g1 := imap.NewEpochUIDValidityGenerator(epoch)
	phase1 := 0
	for t := 0; t < sc.Threads; t++ {
		t := t
		s.Go(fmt.Sprintf("G%d", t), func() {
			for k := 0; k < 2; k++ {
				clock++
				st := clock
				v, err := g1.Generate()
				clock++
				calls = append(calls, call{t, st, clock, uint32(v), err})
			}
			phase1++
		})
	}
	if sc.Restart > 0 {
		s.Go("restarted", func() {
			s.Point("wait-phase1", func() bool { return phase1 == sc.Threads })
			g2 := imap.NewEpochUIDValidityGenerator(epoch) // a restarted process: same epoch, fresh state
			for k := 0; k < sc.Restart; k++ {
				clock++
				st := clock
				v, err := g2.Generate()
				clock++
				calls = append(calls, call{100, st, clock, uint32(v), err})
			}
		})
	}
	s.Run()
	if s.Deadlock || s.Livelock {
		x.Viol = append(x.Viol, Violation{"termination", "Epoch", "deadlock/livelock: " + s.DeadInfo})
		return x
	}
	var vals []string
	for i, a := range calls {
		if a.err != nil {
			continue
		}
		vals = append(vals, fmt.Sprint(a.val))
		for j, b := range calls {
			if i >= j || b.err != nil {
				continue
			}
			restart := (a.thread == 100) != (b.thread == 100)
			sig := "Epoch"
			if restart {
				sig = "Epoch/across-restart"
			}
			if a.val == b.val {
				x.Viol = append(x.Viol, Violation{"duplicate", sig, fmt.Sprintf("two Generate calls returned the same value %d", a.val)})
			}
			// real-time order: a completed before b started => b larger
			if a.end < b.start && b.val <= a.val {
				x.Viol = append(x.Viol, Violation{"not-increasing", sig, fmt.Sprintf("a call that started after value %d had been returned got %d", a.val, b.val)})
			}
			if b.end < a.start && a.val <= b.val {
				x.Viol = append(x.Viol, Violation{"not-increasing", sig, fmt.Sprintf("a call that started after value %d had been returned got %d", b.val, a.val)})
			}
		}
	}
	if s.Diverged != "" {
		x.Viol = append(x.Viol, Violation{"ENGINE", "diverged", s.Diverged})
	}
	sort.Strings(vals)
	x.Outcome = strings.Join(vals, ",")
	return x
}

// ---------------------------------------------------------------------------------------------------------------

func shardOther(unit string, n, bound, shard, nsh int, res *shardResult, outcomes map[string]bool, add func(report.V)) {
	type scen struct {
		name  string
		run   func(prefix []int) *Exec
		bound int
	}
	var scens []scen
	switch unit {
	case "qc":
		for _, sc := range qcScenarios() {
			sc := sc
			scens = append(scens, scen{sc.String(), func(p []int) *Exec { return runQC(sc, p) }, bound})
		}
	case "epoch":
		for _, sc := range epScenarios() {
			sc := sc
			b := bound // the bound given is the one for 2 threads; 1 thread is explored without bound, 3 with one less
			switch sc.Threads {
			case 1:
				b = -1
			case 3:
				b = bound - 1
			}
			scens = append(scens, scen{fmt.Sprintf("%s bound=%d", sc.String(), b), func(p []int) *Exec { return runEpoch(sc, p) }, b})
		}
	}
	for i, sc := range scens {
		if i%nsh != shard {
			continue
		}
		sc := sc
		st := Explore(sc.bound, 3000000, sc.run, func(x *Exec, choices []int) {
			for _, v := range x.Viol {
				again := sc.run(choices)
				same := false
				for _, v2 := range again.Viol {
					if v2.Clause == v.Clause && v2.Sig == v.Sig {
						same = true
					}
				}
				clause, sig := v.Clause, v.Sig
				if !same {
					clause, sig = "ENGINE", "not-reproducible/"+v.Clause
				}
				add(report.V{Clause: clause, Sig: sig, Msg: fmt.Sprintf("%s [%s]: %s", unit, sc.name, v.Msg), Replay: map[string]any{"engine": "SCH", "unit": unit, "scenario": sc.name, "schedule": append([]int{}, choices...)}})
			}
		})
		res.Schedules += st.Schedules
		res.Points += st.Points
		res.Capped = res.Capped || st.Capped
		for k := range st.Outcomes {
			outcomes[sc.name+"|"+k] = true
		}
		res.Samples = append(res.Samples, map[string]any{"scenario": sc.name, "schedules": st.Schedules, "distinct_outcomes": len(st.Outcomes)})
	}
}

func runUnit(prop, unit, title string, bound int, assume []string) int {
	c := report.New(prop, report.Tier(), "model_checking", 0)
	c.MergeKey = "interleavings"
	c.Assumptions = assume
	start := time.Now()
	pr := partResult{Name: title, Bound: bound}
	outcomes := map[string]bool{}
	for _, sr := range runShards(unit, 0, bound) {
		pr.Schedules += sr.Schedules
		pr.Points += sr.Points
		pr.Capped = pr.Capped || sr.Capped
		for _, k := range sr.Outcomes {
			outcomes[k] = true
		}
		pr.Samples = append(pr.Samples, sr.Samples...)
		pr.Scenarios += len(sr.Samples)
		for _, v := range sr.Viol {
			c.Add(v)
		}
	}
	pr.Outcomes = len(outcomes)
	fmt.Printf("%s sch %-34s bound %2d scenarios %3d schedules %8d outcomes %5d capped=%v (%.1fs)\n", prop, pr.Name, pr.Bound, pr.Scenarios, pr.Schedules, pr.Outcomes, pr.Capped, time.Since(start).Seconds())
	return finish(c, []partResult{pr})
}

func runC02(tier string) int {
	b := 2
	if tier == "thorough" {
		b = 3
	}
	return runUnit("C02", "qc", "async.QueuedChannel", b, []string{"unit-level companion of C02: every schedule within the preemption bound (2 quick / 3 thorough; switches at blocking points are free) of producers, a closer and the queue goroutine of async.QueuedChannel at lock / condition / atomic granularity; items whose Enqueue returned before Close was called must be received exactly once, in producer order"})
}

func runC04(tier string) int {
	b := 2
	if tier == "thorough" {
		b = 3
	}
	return runUnit("C04", "epoch", "imap.EpochUIDValidityGenerator", b, []string{"generator part of C04: every schedule (1 thread: unbounded; 2 threads: preemption bound 2 quick / 3 thorough; 3 threads: one less) of concurrent Generate calls at atomic-operation granularity with an explorer-chosen clock (same second or +1 s per reading) and an optional restart (fresh generator, same epoch); scenarios without a restart are also explored with a clock that may step back one second at any reading (a backward step across a restart is not explored: the fresh generator has no memory, see the across-restart finding)"})
}
