//go:build sch

package main

import (
	"fmt"
	"os"
	"time"

	"github.com/ProtonMail/gluon/verifshim/sched"
)

// Exec is one complete execution under the scheduler.
type Exec struct {
	S       *sched.Sched
	Viol    []Violation
	Outcome string // observable outcome (for counting distinct outcomes)
}

type Violation struct {
	Clause, Sig, Msg string
}

type Stats struct {
	Schedules  int
	Points     int
	Outcomes   map[string]int
	MaxChoices int
	Capped     bool
}

// Explore enumerates all schedules with at most `bound` preemptions (bound < 0: unbounded), depth first.
// run must execute the scenario under a fresh scheduler built from the prefix.
// ScenarioSeconds caps the time spent on one scenario (reported as capped, like the schedule cap).
var ScenarioSeconds = 600

func Explore(bound int, maxSchedules int, run func(prefix []int) *Exec, onExec func(*Exec, []int)) Stats {
	st := Stats{Outcomes: map[string]int{}}
	started := time.Now()
	stack := [][]int{{}}
	for len(stack) > 0 {
		prefix := stack[len(stack)-1]
		stack = stack[:len(stack)-1]
		x := run(prefix)
		st.Schedules++
		if os.Getenv("VSCH_DEBUG") != "" && st.Schedules%50 == 0 {
			fmt.Fprintf(os.Stderr, "schedules=%d stack=%d prefix=%v trace=%d\n", st.Schedules, len(stack), prefix, len(x.S.Trace))
		}
		tr := x.S.Trace
		st.Points += len(tr)
		if len(tr) > st.MaxChoices {
			st.MaxChoices = len(tr)
		}
		st.Outcomes[x.Outcome]++
		onExec(x, x.S.Choices)
		if maxSchedules > 0 && st.Schedules >= maxSchedules {
			st.Capped = true
			break
		}
		if ScenarioSeconds > 0 && st.Schedules%256 == 0 && time.Since(started) > time.Duration(ScenarioSeconds)*time.Second {
			st.Capped = true
			break
		}
		for i := len(tr) - 1; i >= len(prefix); i-- {
			p := tr[i]
			for alt := len(p.Enabled) - 1; alt >= 1; alt-- {
				if bound >= 0 && p.Kind == "thread" && p.RunStillEnabled {
					if sched.Preemptions(tr, i)+1 > bound {
						continue
					}
				}
				next := append(append([]int{}, x.S.Choices[:i]...), alt)
				stack = append(stack, next)
			}
		}
	}
	return st
}
